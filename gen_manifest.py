#!/usr/bin/env python3
"""Generates MANIFEST.json from the per-property table below (kept in one place)."""
import json

CLAIMED = {
    "C15": dict(
        category="proof",
        text="Every ArithFunctions.run_* integer/float implementation and the comparisons.py helpers are extracted from /repo on each run, "
             "symbolically executed, and their bit-pattern postconditions (wrap to width, stay in range, signed/unsigned reading, IEEE-754) "
             "discharged by z3/cvc5 for ALL operand values at each listed width; plus a bounded runtime-contract stand-in through Interpreter.run_op. "
             "Proof is the right level because the property quantifies over all operand values.",
        note="Assumed: Interpreter.run_op dispatch and cf/scf/func control flow; widths bound as literals (quick 1,2,3,8,16,32,64; thorough 1..64,128); "
             "bitwise-operator and floor-division lemmas used as axioms (validated natively each run); pyvc + z3/cvc5 trusted. "
             "Known findings: unsigned cmpi predicates on negative representatives, f32 results not rounded.",
        design="§4 C15",
        technique="contract-based deductive verification: VC generation from the real AST + SMT (z3, cvc5); bounded runtime-contract stand-in",
    ),
}

CLAIMED["C12"] = dict(
    category="proof",
    text="Every method of Worklist, IntDisjointSet, DisjointSet and ScopedDict (push/pop/remove/__bool__; __getitem__/union/union_left/"
         "connected/add/value_count; find/...; get/__getitem__/__contains__/__setitem__) is verified from ANY state satisfying the "
         "representation invariant against the abstract model (rank-ordered set; partition with ghost representative/distance; "
         "innermost-definition lookup), with loop invariants and frames, for unbounded sizes; by induction on the history every call "
         "sequence stays in the model. Plus exhaustive bounded operation sequences on the real classes as a stand-in/replay harness.",
    note="Assumed: CPython list/dict semantics as modelled; constructors (__init__) and generator methods (roots, __str__) only bounded; "
         "termination not proved; pyvc + z3 trusted.",
    design="§4 C12",
    technique="contract-based deductive verification (representation invariant + abstract view, ghost state), SMT-discharged; bounded model-based stand-in",
)

CLAIMED["C10"] = dict(
    category="proof",
    text="verify_variadic_same_size / verify_variadic_attr_size / verify_variadic_size, irdl_build_arg_list and the generated segment "
         "accessors are extracted from /repo and verified: verification succeeds EXACTLY when a legal split exists (both directions, "
         "raise paths included), built size vectors satisfy the verifier, accessors return args[off:off+size]; irdl_op_verify_arg_list verifies EVERY definition's "
         "constraint against exactly the types of its segment (the empty range for an absent optional) in the one shared constraint context. Unbounded in list lengths and "
         "segment sizes, instantiated for every kind sequence of up to 4 (quick) / 5 (thorough) declared constructs. Plus a bounded stand-in "
         "running real Operation.verify/build/accessors on generated IRDL definitions.",
    note="Bounded in the NUMBER of declared constructs (<=4/5); definition lists abstracted to kind sequences through isinstance (class "
         "hierarchy re-read from the live classes each run); per-piece constraint checking is C09; get_construct_defs/get_op_constructs/"
         "get_values bound as opaque expressions; pyvc + z3 trusted.",
    design="§4 C10",
    technique="contract-based deductive verification: VC generation from the real AST + SMT; iff-contracts on normal and exceptional exits; bounded native stand-in",
)

CLAIMED["C01"] = dict(
    category="proof",
    text="The op-list primitives (Block.insert_op_before/after/add_op/detach_op with Operation._insert_next_op/_insert_prev_op/_attach_op), "
         "the use-list primitives (IRWithUses.add_use/remove_use) and operand/successor assignment (OpOperands/OpSuccessors.__setitem__) are "
         "verified on a field-array heap from ANY heap satisfying the global representation invariant (link symmetry, parent agreement, end "
         "pointers, ghost dense position forcing exactly-once traversal; use <-> operand linkage), re-establishing it for ALL objects with exact "
         "view updates and frames, including state preservation on rejected calls. The remaining writers of link fields are listed by an AST scan "
         "and covered by a bounded explorer (seeded sequences of 27 kinds of public mutation calls with a full invariant checker after each).",
    note="Proved: 10 of the 27 functions that assign link fields. Block-list, argument/result/region-list primitives, setters, split/move/erase "
         "family and the Rewriter/PatternRewriter composites are bounded only. Assumed: finite heap; is_ancestor pure (trusted); "
         "TestSpecialisedConstantFoldingPass excluded; pyvc + z3 trusted.",
    design="§4 C01",
    technique="contract-based deductive verification on a field-array heap (global representation invariant, ghost positions, frames), SMT-discharged; encapsulation scan; bounded explorer",
)

CLAIMED["C29"] = dict(
    category="proof",
    text="_lookup_symbol_in_direct_children (loop invariant: no earlier child has the name), _lookup_symbol_ref_in (the nesting rules: only "
         "through symbol tables, private symbols refused, for 0..3/0..5 nested components), SymbolTable.lookup_symbol_in / "
         "get_nearest_symbol_table / lookup_nearest_symbol_from and the cached SymbolTable.__init__/lookup (cached == direct when child names are "
         "unique) are extracted from /repo and verified against the spec functions of the statement for unbounded child lists; traits.SymbolTable.verify (what 'verified module' "
         "means for the cache clause) accepts only if no two children define the same symbol - exactly the uniqueness hypothesis of the cache-agreement proof. Plus an "
         "exhaustive bounded stand-in over generated nested modules through utils, SymbolTableCollection and traits.SymbolTable.lookup_symbol.",
    note="Assumed: block.ops abstracted as the child sequence (C01); NAME/ISTABLE/PRIVATE/PARENTOP uninterpreted (trait lookup not under contract); "
         "SymbolTableCollection and traits.SymbolTable.lookup_symbol bounded only (a genuine defect of the latter with unregistered ancestors was found there and repaired); partial correctness; pyvc + z3 trusted.",
    design="§4 C29",
    technique="contract-based deductive verification (loop invariants over a ghost child sequence, modular callee contracts), SMT-discharged; bounded exhaustive stand-in",
)

CLAIMED["C03"] = dict(
    category="proof",
    text="All three mutually recursive functions are extracted from /repo and verified, each against its own level of the statement, with the calls "
         "to the level below replaced by the callee's contract (an uninterpreted equivalence evaluated on the context content at the call, recorded "
         "in a ghost chain). Operation level: name, operand correspondence through the context, result types, attributes, properties, successors, "
         "parent correspondence, region count; results registered positionally - True only if every field agrees, and for region-free ops False "
         "only if some field disagrees. Block level: argument counts and types, op counts, every op pair equivalent - both directions - in a "
         "context where the block, ALL its arguments and ALL results of its ops are registered first. Region level: block counts, every block "
         "pair equivalent - both directions - in a context where all blocks, their arguments and all results are registered first (use before "
         "definition across blocks). Operand/successor/result/argument lists are symbolic; regions per op, ops per block and blocks per region are "
         "instantiated 0..2. Reflexivity, symmetry and the clone clause are decided by a bounded stand-in: generated programs vs themselves, "
         "their clones, identical rebuilds and 10 kinds of single-point mutations against an independent isomorphism oracle.",
    note="The recursion (depth induction) is assumed; attribute equality abstracted (C08); child counts instantiated 0..2; "
         "reflexive/symmetric/clone clauses bounded only; pyvc + z3 trusted.",
    design="§4 C03, §9",
    technique="contract-based deductive verification of the operation, block and region levels (modular callee relation, ghost context chain, SMT) + bounded stand-in with independent isomorphism oracle",
)

CLAIMED["C08"] = dict(
    category="proof",
    text="FloatData.__eq__/__hash__ are extracted from /repo and verified on 64-bit payload patterns: equal exactly when the bit patterns are "
         "equal (hence reflexive, symmetric, transitive; 0.0 != -0.0; NaNs by payload) and the hash is a function of the pattern alone. "
         "IntegerType.normalized_value: per width/signedness/truncate flag the stored value is a canonical function of the bit pattern (same "
         "pattern -> same value, different patterns -> different values); IntegerAttr.__init__ stores that normalised value WHATEVER form the arguments take "
         "(int or IntAttr value; int width, IntegerType or IndexType), so equal parameters give equal attributes. OperationInfo.__eq__ (CSE key): equal keys have equal hashes. A scan "
         "lists every Attribute subclass with a hand-written __eq__/__hash__ (must be under contract); bounded stand-ins exercise a pool of "
         "builtin attribute values (symmetry, transitivity, eq => hash, rebuilt copies equal) and float bit patterns.",
    note="Assumed: dataclass-generated field-wise eq/hash for all other attributes (CPython); payload types have consistent ==/hash; CPython "
         "hash(float)/hash(bytes) model; IntAttr / IntegerType / ParametrizedAttribute.__init__ are trusted models in the IntegerAttr.__init__ unit; the UnregisteredAttr class "
         "cache and the dense-attribute payload construction are bounded only; pyvc + z3 trusted.",
    design="§4 C08",
    technique="contract-based deductive verification (bit-vector payload model, SMT) + override scan + bounded stand-in",
)

CLAIMED["C13"] = dict(
    category="proof",
    text="is_trivially_dead / would_be_trivially_dead / result_only_effects are extracted from /repo and proved to be EXACTLY the statement's "
         "conjunction (results unused; not a terminator; not a symbol; effects known and each one a read or an allocation owned by the subtree); "
         "RemoveUnusedOperations.match_and_rewrite erases only under that predicate, only attached ops, only through rewriter.erase; LiveSet "
         "is_live/set_live/propagate_op_liveness are monotone and keep every observable op and every op with a live user, and liveness is propagated into every "
         "region of an op that ends up live; LiveSet.delete_dead erases an operation only if it is not live (and only after the listener was told), erases a block only if it is not the entry "
         "block and holds no live operation, cleans the regions of every live operation recursively and sets `changed` whenever it erases; propagate_op_liveness and "
         "propagate_region_liveness are verified against each other's discharged contracts (the live set only grows, `changed` is raised whenever something becomes live); "
         "traits.get_effects and RecursiveMemoryEffect.get_effects return a set only if every effect interface / every nested op reports known effects. The pass-level "
         "clauses (exact remaining ops and blocks = oracle liveness/reachability, nothing removable left, IR consistent) are decided by a "
         "bounded stand-in on generated CFG regions for region_dce and the dce pattern pass, on nests of recursive-effect ops (leaves: pure / read / write / unknown / "
         "ALLOC of the op's own result / ALLOC of an outer value) and on ops whose terminator / symbol trait is a subclass.",
    note="Assumed: trait declarations are truthful; each effect interface's own answer is uninterpreted; PatternRewriter.erase is a trusted callee contract; "
         "PostOrderIterator(first) is read as C24's post-order sequence; the fixpoint loop of region_dce (iteration to `changed == False`) bounded only; pyvc + z3 trusted.",
    design="§4 C13",
    technique="contract-based deductive verification of the removability predicates and liveness steps (SMT) + bounded stand-in with independent liveness oracle",
)

CLAIMED["C24"] = dict(
    category="exploration",
    text="Bounded (exhaustive within the bound): the real DominanceInfo and PostOrderIterator are run on EVERY control-flow graph with <= 3 (quick) / "
         "<= 4 (thorough) blocks and <= 2 successors per block (self-loops, multi-edges, unreachable blocks, terminators of unregistered dialects) plus "
         "seeded random graphs up to 8 blocks, and compared with the path-based definitions (dominates(a,b) for every reachable b; post-order = "
         "reachable blocks exactly once, entry last). Discharged contracts (pyvc + z3): the table readers dominates / strictly_dominates / "
         "_strictly_dominates_block, and - for graphs of ANY size - PostOrderIterator.__init__/__next__ with an object invariant over the pair "
         "stack and the seen set: each block yielded at most once, only reachable blocks, StopIteration only when the yielded set equals the seen "
         "set and is closed under successors (so it is exactly the reachable set), the start block last (partial correctness). Exploration stays "
         "the honest level for the property as a whole: the set-of-sets fixpoint of DominanceInfo.__init__ is not proved.",
    note="Dominance: bounded stand-in only, never counted as proved. Post-order: proved up to termination, with trusted models of dict.fromkeys and of the "
         "two comprehensions bound to their exact source text.",
    design="§4 C24, §9",
    technique="bounded exhaustive runtime-contract check against graph definitions (stand-in) + discharged contracts on the dominance table readers, on DominanceInfo.__init__ (fixpoint equations at exit, nested loop invariants over sets of sets) and on PostOrderIterator (object invariant, ghost history)",
)

CLAIMED["C26"] = dict(
    category="proof",
    text="AffineExpr.__add__/__mul__/__neg__/__sub__/__floordiv__/ceil_div/__mod__ (expression and int operands), _try_fold_constant, "
         "_simplify_add, _simplify_mul and AffineExpr.eval are extracted from /repo and verified for ALL operand expressions and ALL assignments: "
         "the value of the result equals the operation applied to the values of the operands (divisors: positive constants, as stated), eval "
         "computes the spec value; nested operator calls through the callee's contract. Simplification by flattening, composition/replacement with "
         "maps and print+parse are decided by a bounded stand-in on generated trees evaluated on a box against an independent evaluator.",
    note="Partial correctness (structural recursion assumed); immutable nodes modelled by field functions; floor division by a symbolic divisor "
         "axiomatised; SimpleAffineExprFlattener, AffineMap.compose/replace and the parser/printer bounded only; __rsub__ outside the statement; pyvc + z3 trusted.",
    design="§4 C26",
    technique="contract-based deductive verification against a recursive spec function (one-level unfolding axioms), SMT-discharged; bounded stand-in",
)

CLAIMED["C20"] = dict(
    category="exploration",
    text="Bounded (exhaustive within the bound): the real ParallelMovPattern is applied to EVERY move graph over 3 integer / 2 float registers (quick; "
         "4 / 3 thorough): every destination subset x every source assignment (chains, fan-outs, cycles, self-moves), free-register sets, float widths, "
         "plus seeded mixed graphs; the emitted mv/fmv/xor sequence is executed on a register machine and compared with the simultaneous assignment, "
         "the no-clobber clause and the failure rule. The xor-swap kernel _insert_swap_ops is under a discharged contract (pyvc + z3). Exploration is "
         "the honest level: the traversal in match_and_rewrite is not proved.",
    note="Bounded stand-in, never counted as proved. Two known findings (integer cycles of length >= 3 without scratch are lowered to the inverse rotation; "
         "pure source registers are used as scratch).",
    design="§4 C20",
    technique="bounded exhaustive runtime-contract check on a register-machine model (stand-in) + discharged contract on the xor-swap kernel",
)

CLAIMED["C19"] = dict(
    category="exploration",
    text="Bounded: seeded single-block riscv functions (li/add/mul/mv, values with several uses, pre-assigned registers, pools of 1/2/3/5 registers and an "
         "infinite-register run) are allocated by the real RISC-V allocator and the allocated code is executed on a register machine: every operand "
         "must still be in its register when read (no two simultaneously live values share a register), values in `zero` must be the constant zero, "
         "pre-assigned registers are kept, results equal the SSA evaluation. A second family allocates single-block functions with one riscv_scf.for (static / dynamic "
         "step, 0-2 loop-carried values, ub / step / outer values read in the body or after the loop) through the riscv-allocate-registers pass and executes them "
         "concretely at SSA level and at register level (known finding: the loop-carried same-register constraint ignores live ranges). Additionally every RegisterStack method (push, pop, reserve, unreserve, "
         "include, exclude) is under a discharged contract (pyvc + z3): the pool is a duplicate-free stack of allocatable non-reserved registers, a popped "
         "register is no longer available, infinite registers get strictly increasing indices; ValueAllocator.allocate_value / free_value are under contract on top "
         "of it (an unallocated value gets a register popped from the pool - hence held by no live value -, an allocated one is left alone, free_value "
         "returns exactly the value's own allocatable register), and the per-op step HasRegisterConstraints.allocate_registers (for ops with <= 3 results: no register of a "
         "result's class is released before that result has its register, every result ends allocated) and the context manager RegisterStack.reserve_registers (balanced "
         "reservation counts; the with-body is modelled at the yield). Exploration is the honest level for the property as a whole.",
    note="Bounded stand-in for the interference statement, never counted as proved; the remaining ValueAllocator methods (allocate_values_same_reg), BlockNaiveAllocator, the overriding "
         "allocate_registers of loop / call ops and the x86 allocator are not under contract; allocate_registers is bounded in the number of in/out values (loops unrolled); one pool at a time in the RegisterStack proofs.",
    design="§4 C19",
    technique="bounded runtime-contract check on a register-machine model (stand-in) + discharged contracts on RegisterStack (representation invariant) and ValueAllocator.allocate_value/free_value",
)

CLAIMED["C02"] = dict(
    category="exploration",
    text="Bounded: seeded programs (multi-block regions, forward references, values from enclosing regions, successors, nested regions) x every clone "
         "entry point (Operation.clone, clone_without_regions, Region.clone, Region.clone_into into destinations with 0/1/2 blocks at every index, "
         "ModulePass.apply_to_clone): the copy is isomorphic to the source (independent oracle), inside references point into the copy and outside "
         "references are unchanged, the source and the pre-existing destination IR are untouched (text + structural invariants), edits of the copy are "
         "invisible in the source; directed root ops that use their own results. Additionally, under discharged contracts for symbolic list lengths: "
         "Operation.clone_without_regions (operand/successor remapping through the mappers, dictionaries copied not shared, results registered, frames) , "
         "Operation.clone (after its final walk every operand of every op of the copy is the image of the source operand under the FINAL value mapper, "
         "source operand lists untouched, every value defined by or inside the op registered) and Region.clone_into in the form Operation.clone calls it "
         "(every block argument and inside value registered, outside entries keep their image, pre-existing dictionaries and operand lists untouched) - the two "
         "verified against each other's discharged contracts. Exploration is the honest level for the tree-level statement.",
    note="Bounded stand-in for the whole-tree statement (isomorphism), never counted as proved; Operation.create and the block-list primitives are trusted models in the "
         "kernel proofs; termination of the clone/clone_into recursion not proved; clone_into(clone_operands=True) bounded only.",
    design="§4 C02",
    technique="bounded runtime-contract check with independent isomorphism oracle (stand-in) + discharged contracts on clone_without_regions, Operation.clone and Region.clone_into (mutually recursive contracts, ghost definition of inside-values)",
)

CLAIMED["C14"] = dict(
    category="proof",
    text="Kernels proved for all operand values per width: for EVERY concrete subclass of SignlessIntegerBinaryOperation found by introspection, "
         "py_operation agrees with the MLIR semantics on bit patterns (folded constants are bit-exact), is_right_unit / is_right_zero are genuine "
         "identities / absorbing elements, Commutative classes commute; _fold_const_operation equals the IEEE-754 operation (signed zeros, infinities, "
         "NaNs); ApplyCmpiPredicateToEqualOperands replaces cmpi p,x,x by the predicate's value. On top of those lemmas (used as callee contracts, not "
         "re-executed) the rewrites themselves are under contract with a denotation ghost VALB(value): SignlessIntegerBinaryOperation.fold per class and "
         "constant/argument combination, the patterns SignlessIntegerBinaryOperationZeroOrUnitRight and ...ConstantProp per class, and SelectConstPattern / "
         "SelectTrueFalsePattern / SelectSamePattern carry the obligation that whatever they return / pass to rewriter.replace denotes the value of the "
         "replaced result for ALL values of the non-constant operands (whenever the original is not poison). The pass-level statement (canonicalize, cse, "
         "constant-fold-interp, test-constant-folding passes never change results and never fail) is decided by a bounded stand-in: generated programs "
         "evaluated before/after with an independent reference evaluator on boundary inputs.",
    note="The rewriter, CSE and the driver (C11) and the remaining arith patterns (reassociation, cmpi constants, float patterns' plumbing) are bounded only; "
         "const_evaluate_operand(_attribute) and ConstantOp.from_int_and_width are trusted models; f32 double rounding assumed; scf/cf canonicalizations "
         "not covered; known finding: constant-fold-interp of unsigned cmpi (same root cause as C15). pyvc + z3 trusted.",
    design="§4 C14",
    technique="contract-based deductive verification: per-class semantic lemmas generated over the live subclass list, then fold and the rewrite patterns verified modularly against them with a value-denotation ghost (SMT) + bounded stand-in with reference evaluator",
)

CLAIMED["C25"] = dict(
    category="proof",
    text="The whole liveness solver stack is extracted from /repo and put under contract: Liveness.mark_live/mark_dead/meet/join, "
         "LivenessAnalysis.visit_operation_impl (for operand/result lists of ANY length: R1, R2, monotone, exactness of every raise, every raised "
         "lattice has its dependents enqueued)/set_to_exit_state, SparseBackwardDataFlowAnalysis.meet/get_lattice_element(_for)/visit_operation/visit, "
         "DataFlowAnalysis.add_dependency/propagate_if_changed, DataFlowSolver.enqueue/propagate_if_changed/get_or_create_state/lookup_state, "
         "AnalysisState.on_update, PropagatingLattice.on_update. On top of these callee contracts the run loop of DataFlowSolver.initialize_and_run is "
         "verified with the inductive invariant 'every violated constraint is pending / every active op is registered with its result lattices / every "
         "live lattice lies in every closed set / pending items are in the deque', with popleft modelled as removal of an ARBITRARY element: at exit "
         "the live set is closed under the two rules of the statement and contained in every closed set, i.e. it is the least fixpoint whatever the "
         "worklist order. Plus a bounded stand-in: real solver on generated programs under FIFO/LIFO/random schedules, with values handed to the public "
         "set_all_to_exit_states before or after the liveness walk, vs a reachability oracle.",
    note="NOT proved: the initialisation phase (analysis.initialize) is assumed to establish the loop invariant (bounded stand-in only); the state table is "
         "abstracted as a function LAT (justified by the discharged get_or_create_state contract); other analyses sharing the solver are assumed not to "
         "touch Liveness lattices; termination; would_be_trivially_dead is C13's. pyvc + z3 trusted.",
    design="§4 C25, §9",
    technique="contract-based deductive verification: modular callee contracts + inductive loop invariant with ghost worklist view, SMT-discharged (z3/cvc5); bounded schedule-perturbing stand-in",
)

CLAIMED["C11"] = dict(
    category="proof",
    text="Partial correctness. Every mutating method of PatternRewriter (insert, erase, replace_all_uses_with, replace_uses_with_if, replace, "
         "replace_value_with_new_type, insert/erase_block_argument, inline_block, move_region_contents_to_new_regions, inline_region, "
         "notify_op_modified), Builder.insert, the listener dispatch (handle_operation_*, extend_from_listener), _TrackingPredicate.__call__, the "
         "walker's callbacks (_handle_operation_insertion/removal/modification/replacement, _add_operands_to_worklist, _populate_worklist), "
         "_process_worklist, rewrite_region and GreedyRewritePatternApplier.match_and_rewrite are extracted from /repo and verified with ghost "
         "state (IR-mutated flag, listener logs, erased set, visited-without-effect set): the action flag is set whenever the IR was mutated, every "
         "insertion/removal/replacement/modification is reported (removal BEFORE the erase), every registered callback is invoked, removal takes "
         "the op and all nested ops off the worklist (against the Worklist contract proved in C12), the op handed to the pattern is never an "
         "erased one, the return value reports every mutation, and in recursive mode the walker returns only after a sweep in which the pattern "
         "was applied to every op of the region without effect. The pattern call itself is an ASSUMED contract (the statement's hypothesis that "
         "patterns change the IR only through the rewriter, closed under sequencing of the verified methods). Plus a bounded stand-in: real "
         "walker on generated nested IR x 7 patterns x 8 configurations x perturbed worklist orders with all five postconditions.",
    note="Not proved: termination of the outer loop; the composition 'listener handed to the rewriter forwards to the walker callbacks' "
         "(_get_rewriter_listener builds bound-method lists: bounded only); IR-mutating primitives of core.py/rewriter.py are trusted callees here "
         "(their IR effects are C01); name-hint carry-over is not counted as an IR change; pyvc + z3 trusted.",
    design="§4 C11, §9",
    technique="contract-based deductive verification with ghost logs and loop invariants (modular: Worklist contract from C12, assumed pattern contract), SMT-discharged; bounded runtime-contract stand-in under perturbed schedules",
)

CLAIMED["C09"] = dict(
    category="proof",
    text="Core acceptance semantics proved, the rest bounded. The real verify of EqAttrConstraint, AttrSetConstraint, BaseAttr, VarConstraint, "
         "ParamAttrConstraint, AllOf and AnyOf is extracted from /repo and proved to realise the DEFINING clause of the statement in both "
         "directions (normal return <=> clause holds, VerifyException <=> it does not, no other exception), with nested verify calls replaced by "
         "the callee's contract (an uninterpreted acceptance relation over constraint, attribute and variable context, contexts threaded in order): "
         "equality / set membership / class test; variables: first occurrence binds after the inner constraint accepts, later occurrences must be "
         "equal (object truthiness is NOT assumed to mean `is not None`); parametrized: class, arity, parameter-wise in the threaded context; "
         "intersection: all conjuncts; union: some alternative - the dispatch-table lemma under the AnyOf object invariant (itself the discharged postcondition of AnyOf.__init__, which is "
         "verified to establish it or raise) and bases-soundness. "
         "ConstraintContext.get_variable/set_attr_variable are inlined. EqAttrConstraint/VarConstraint.infer return an accepted attribute; "
         "get_bases soundness for EqAttrConstraint, BaseAttr, ParamAttrConstraint. Bounded stand-in for the remaining clauses: generated constraint "
         "trees vs a reference evaluator, union simplification (AnyOf.get, |, &), inference on satisfiable constraints, type hints vs isa.",
    note="Bounded only: AnyOf.get / relax_constraint (simplification never "
         "changes the accepted set), irdl_to_attr_constraint vs isa, infer of BaseAttr/ParamAttrConstraint/AllOf, AttrSetConstraint.get_bases. "
         "Not covered: IntConstraint / RangeConstraint families. Attribute == is value equality (C08). pyvc + z3 trusted.",
    design="§4 C09, §9",
    technique="contract-based deductive verification: iff-contracts on normal and exceptional exits against the statement's defining clauses, modular callee relation, ghost context chain for loops; bounded differential stand-in",
)

CLAIMED["C18"] = dict(
    category="exploration",
    text="Bounded: the real ArgSpec.__str__/parse_spec/parse_pipeline, ArgSpecConvertible.spec/from_spec and PassPipeline.parse_spec are run on (1) single "
         "values and seeded tuples of ints (to 10^30), booleans, floats (exponent forms, signed zero, extremes, inf/nan) and 36 hostile strings (quotes, "
         "backslashes, spaces, commas, braces, non-ASCII, control characters, the words true/false, digit strings) - the parsed spec must have equal "
         "values of the SAME Python types; (2) every registered pass (133) with seeded option assignments per declared field type (bool, int, str, "
         "Literal, tuple[...], Optional) - the parsed pass must equal the printed one; pipelines of 2-4 passes; (3) robustness: ALL strings of "
         "length <= 3 (quick) / 4 (thorough) over a 17-character token alphabet plus seeded longer ones must yield specs or raise "
         "ArgSpecParseError / ValueError only. Additionally the token-level parser kernel (_parse_parameter_value_element, "
         "_parse_parameter_value) is under a discharged contract (pyvc + z3): which token kinds are values, what type each yields (a quoted string is "
         "never turned into a bool or number), `value (, value)*`. Exploration is the honest level: the property is about character-level encodings, "
         "which the SMT-backed generator does not model.",
    note="Known findings: strings containing CR/FF/VT and float inf/nan do not round-trip. No registered pass has a float option (floats exercised "
         "at the ArgSpec level only). Option types outside the documented set are skipped. pyvc + z3 trusted for the kernel.",
    design="§4 C18, §9",
    technique="bounded runtime-contract check (round-trip and robustness, exhaustive for short strings) + discharged contracts on the token-level value parser",
)

CLAIMED["C06"] = dict(
    category="exploration",
    text="Bounded: real Printer -> text -> real Parser, oracle = equal value of the same class AND identical bit patterns of every float payload. "
         "EXHAUSTIVE over every bit pattern of f16 and bf16 FloatAttr (2 x 65536) and over every byte string of length <= 2 through "
         "print_bytes_literal / StringLiteral.bytes_contents (all adjacent byte pairs); boundary + seeded patterns for f32/f64 (all exponents x 5 "
         "mantissas, subnormals, signed zeros, infinities, NaN payloads); IntegerAttr widths 1..128 x 3 signednesses at the range boundaries; "
         "seeded strings/bytes over hostile alphabets (non-ASCII, quotes, control characters); seeded structured values of depth <= 2: dense "
         "elements (splats, signed zeros, NaN/inf elements, empty, i1, rank 3 and 4, complex elements over the float special values), dense arrays, arrays, dictionaries, symbol references, "
         "locations (file, fused with and without metadata, call-site, name), affine "
         "maps, tensor/memref/vector/complex/tuple/function types. Discharged kernels (pyvc + z3): Printer.print_bytes_literal encodes each "
         "byte independently by the three-way rule for byte strings of any length; IntegerType.normalized_value is a canonical function of the "
         "bit pattern (widths 1..128). Exploration is the honest level: float<->decimal conversion and the recursive printers/parsers are not "
         "within reach of the SMT-backed generator.",
    note="Six defects repaired (hex float elements in dense / dense-array / complex dense literals, splat detection on signed zeros, UTF-8 string vs bytes lexing, "
         "fused-location metadata). "
         "Known findings: BytesAttr with a valid-UTF-8 payload and NoneAttr share their syntax with StringAttr / NoneType. Not covered: opaque / "
         "resource attributes, strided layouts, sparse elements.",
    design="§4 C06, §9",
    technique="bounded runtime-contract check of the real printer/parser pair (exhaustive for 16-bit floats and short byte strings) + discharged contracts on the byte-literal encoder and integer normalisation",
)

NOT_APPLICABLE = {
    "C04": "whole Printer∘Parser composition over every dialect: recursive string programs; no per-function contract within reach of the SMT-backed generator expresses it",
    "C05": "about 80 dialects of hand-written print/parse pairs and a format-string interpreter; same obstacle as C04",
    "C07": "wall-clock proportionality and exception-freedom of the whole lexer+parser for every string; not expressible as function contracts here",
    "C16": "program equivalence of IR-to-IR lowerings for all programs and inputs; needs a simulation argument per pass over an IR semantics the repository does not define",
    "C17": "cross product of all registered passes and all modules; only the C01 part (link/use-list integrity of the primitives) is reachable by contracts",
    "C21": "deciding observation is native execution of assembled code (external assembler/CPU), no contracts",
    "C22": "needs an ISA-level execution model of the emitted RISC-V plus whole-pipeline program equivalence",
    "C23": "depends on llvmlite/LLVM verifier and JIT (external)",
    "C27": "agreement of two interpreters on all patterns x payloads: whole-program, whole-history statement",
    "C28": "result preservation of an e-graph pipeline: whole-program statement with no per-function postcondition implying it",
}

NOT_REACHED = []


def main():
    checks = []
    for pid, c in sorted(CLAIMED.items()):
        checks.append({
            "property_id": pid,
            "quick_cmd": f"./check {pid} --tier quick",
            "thorough_cmd": f"./check {pid} --tier thorough",
            "evidence_file": f"/verif/evidence/{pid}.json",
            "replay_cmd_template": f"./check {pid} --replay {{path}}",
            "engine": "pyvc",
            "level_claimed": {"category": c["category"], "text": c["text"], "design_ref": c["design"]},
            "level_note": c["note"],
            "technique": c["technique"],
        })
    na = [{"property_id": k, "reason": v} for k, v in sorted(NOT_APPLICABLE.items())]
    for k in NOT_REACHED:
        if k not in CLAIMED:
            na.append({"property_id": k, "reason": "not reached yet: contracts for this property are planned in DESIGN.md but the check is not finished; not claimed on partial machinery"})
    na.sort(key=lambda x: x["property_id"])
    m = {
        "version": 1,
        "setup_cmd": "./setup.sh",
        "hooks": {
            "guard": "XDSL_VERIF",
            "enable": "no hooks: contracts are sidecar files in /verif/contracts; the real source under /repo is re-read with ast on every run",
            "baseline_off_cmd": "cd /repo && /venv/bin/python -m pytest -ra -q -p no:cacheprovider --timeout=900 --continue-on-collection-errors",
            "source_commits": [],
            "add_only": True,
        },
        "engines": [{
            "name": "pyvc",
            "path": "/verif/pyvc",
            "serves_properties": sorted(CLAIMED),
            "kind_free_text": "home-grown verification-condition generator: symbolic execution of the real Python ASTs against sidecar contracts, obligations discharged by z3 (cvc5 for unknowns / cross-check); native runtime-contract harnesses as bounded stand-ins and for counter-example replay",
        }],
        "checks": checks,
        "not_applicable": na,
        "notes": "Exit codes: 0 held, 1 VIOLATION, 2 UNDECIDED (never reported as a violation), 3 checker error. Known findings: /verif/KNOWN_FINDINGS.txt.",
    }
    json.dump(m, open("MANIFEST.json", "w"), indent=1)
    json.dump({k: v["category"] for k, v in CLAIMED.items()}, open("levels.json", "w"))


if __name__ == "__main__":
    main()
