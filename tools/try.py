"""Debug helper: ./.venv/bin/python tools/try.py contracts.C11 [name-filter] [-v]   -> per-obligation verdicts of the matching units."""
import importlib
import os
import sys
import time

sys.path.insert(0, os.path.dirname(os.path.dirname(os.path.abspath(__file__))))
if os.environ.get("VERIF_REPO"):
    sys.path.insert(0, os.environ["VERIF_REPO"])
sys.setrecursionlimit(10000)

from pyvc.run import verify_unit  # noqa: E402

modname = sys.argv[1]
flt = sys.argv[2] if len(sys.argv) > 2 and not sys.argv[2].startswith("-") else ""
verbose = "-v" in sys.argv
mod = importlib.import_module(modname)
tmo = int(os.environ.get("VERIF_TIMEOUT_MS", "20000"))

def work(job):
    i, inst = job
    t0 = time.time()
    s = mod.SPECS[i]
    r = verify_unit((modname, i, inst, {"timeout_ms": tmo, "cvc5": True, "known": []}))
    bad = [x for x in r["results"] if x["status"] not in ("proved", "covered")]
    out = [f"== {s.short} {inst}: {len(r['results'])} obligations, {len(bad)} not ok, {time.time() - t0:.1f}s paths={r.get('paths')}"
           + (f" UNSUPPORTED: {r['unsupported']}" if r.get("unsupported") else "") + (f"\nERROR {r['error']}" if r.get("error") else "")]
    for x in r["results"]:
        if verbose or x["status"] not in ("proved", "covered"):
            out.append(f"   {x['status']:9s} {x['time']:.2f}s {x['oid']}  [{x['path']}]" + (f"\n        model={x['model']}" if x.get("model") and x["status"] != "proved" else ""))
    return "\n".join(out)


if __name__ == "__main__":
    import multiprocessing as mp

    jobs = [(i, inst) for i, s in enumerate(mod.SPECS) if not s.trusted and flt in s.short for inst in s.instances]
    with mp.get_context("fork").Pool(int(os.environ.get("VERIF_JOBS", "12"))) as pool:
        for line in pool.imap(work, jobs):
            print(line, flush=True)
