"""tools/keep_seed.py <prop> <n> <src dir with patch.diff demo.py notes.md> <json meta fields...>  -> /verif/seeded/<prop>-<n>/"""
import json, os, shutil, sys
prop, n, src = sys.argv[1:4]
extra = json.loads(sys.argv[4]) if len(sys.argv) > 4 else {}
d = os.path.join(os.path.dirname(os.path.dirname(os.path.abspath(__file__))), "seeded", f"{prop}-{n}")
os.makedirs(d, exist_ok=True)
for f in ("patch.diff", "demo.py", "notes.md"):
    shutil.copy(os.path.join(src, f), os.path.join(d, f))
meta = {"property": prop, "origin": "independent sub-agent given only the property text and a scratch worktree",
        "confirmed": {"test_suite_with_change": "2 failed (the 2 baseline failures), 5247 passed", "demo_with_change": "exit 1", "demo_without_change": "exit 0"}}
meta.update(extra)
json.dump(meta, open(os.path.join(d, "meta.json"), "w"), indent=1)
print("kept", d)
