#!/bin/bash
# tools/run_all.sh [tier] [jobs]  : every claimed check, a few at a time; prints one line per property
tier=${1:-quick}; jobs=${2:-4}
props=$(python3 -c "import json; print(' '.join(c['property_id'] for c in json.load(open('/verif/MANIFEST.json'))['checks']))")
cd /verif
run() { p=$1; s=$(date +%s); ./check $p --tier $tier > /var/tmp/all_$p.log 2>&1; rc=$?; echo "$p exit=$rc $(( $(date +%s)-s ))s $(tail -1 /var/tmp/all_$p.log | cut -c1-140)"; }
export -f run; export tier
echo $props | tr ' ' '\n' | xargs -P $jobs -I{} bash -c 'run {}'
