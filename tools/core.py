"""Debug: unsat core of the assumptions of one path.  tools/core.py contracts.C11 <unit filter> <path substring>"""
import importlib, os, sys
sys.path.insert(0, os.path.dirname(os.path.dirname(os.path.abspath(__file__))))
sys.setrecursionlimit(10000)
import z3
from pyvc.run import build_obligations
mod = importlib.import_module(sys.argv[1])
for s in mod.SPECS:
    if sys.argv[2] in s.short:
        for inst in s.instances:
            ex, _ = build_obligations(s, mod.VOCAB, inst)
            cands = sorted([ob for ob in ex.obligations if sys.argv[3] in ob.path and ob.expect != "sat"], key=lambda ob: -len(ob.assumptions))
            for ob in cands[:1]:
                if True:
                    def chk(cs):
                        sv = z3.Solver(); sv.set("timeout", 3000)
                        for c in cs: sv.add(c)
                        return sv.check()
                    cs = list(ob.assumptions)
                    print(ob.oid, ob.path, chk(cs), len(cs))
                    if chk(cs) == z3.unsat:
                        i = 0
                        while i < len(cs):
                            t = cs[:i] + cs[i+1:]
                            if chk(t) == z3.unsat:
                                cs = t
                            else:
                                i += 1
                        for c in cs:
                            print("  CORE", str(c)[:600], flush=True)
