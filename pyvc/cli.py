"""./check <property id> [--tier quick|thorough] [--replay <file>]"""

from __future__ import annotations

import argparse
import json
import os
import sys

ROOT = os.path.dirname(os.path.dirname(os.path.abspath(__file__)))
sys.path.insert(0, ROOT)
sys.setrecursionlimit(10000)
# VERIF_REPO=<dir> points the checks at another checkout of xdsl (scratch copies used to try
# property-breaking changes); default /repo.  Both the AST extraction and `import xdsl` follow it.
if os.environ.get("VERIF_REPO"):
    sys.path.insert(0, os.environ["VERIF_REPO"])

LEVELS = json.load(open(os.path.join(ROOT, "levels.json")))


def main():
    ap = argparse.ArgumentParser()
    ap.add_argument("prop")
    ap.add_argument("--tier", default=os.environ.get("VERIF_TIER", "quick"))
    ap.add_argument("--replay")
    a = ap.parse_args()
    seed = int(os.environ.get("VERIF_SEED", "0") or 0)
    if a.replay:
        from pyvc.replay import replay_file

        sys.exit(replay_file(a.prop, a.replay))
    from pyvc.driver import check_property

    try:
        code = check_property(a.prop, a.tier, seed, LEVELS.get(a.prop, "proof"))
    except Exception:
        import traceback

        traceback.print_exc()
        print(f"CHECKER-ERROR property={a.prop} driver crashed")
        code = 3
    sys.exit(code)


if __name__ == "__main__":
    main()
