"""
pyvc: symbolic execution of real Python function bodies (ast from /repo) into named proof
obligations.  Function-by-function: calls are replaced by the callee's contract (or, for
helpers declared ``Inline``, by descending into the callee's real body), loops are cut at the
invariants of the contract file.
"""

from __future__ import annotations

import ast
import os
from dataclasses import dataclass
from typing import Any

import z3

from . import arith, extract, solve
from .spec import Builtin, Inline, Spec
from .values import (
    Clause,
    Obligation,
    State,
    Unsupported,
    VBool,
    VBound,
    VFloat,
    VGlobal,
    VInt,
    VIter,
    VOpaque,
    VRange,
    VRef,
    VSeq,
    VStr,
    VTuple,
    is_concrete,
    lift_bool,
    lift_int,
    z_bool,
    z_int,
)

EMPTY_STR = z3.Function("is_empty_str", z3.IntSort(), z3.BoolSort())
OBJ_FALSY = z3.Function("object_is_falsy", z3.IntSort(), z3.BoolSort())  # bool(x) is False for an object of a class the contract does not name

BINOPS = {
    ast.Add: "+", ast.Sub: "-", ast.Mult: "*", ast.FloorDiv: "//", ast.Mod: "%", ast.LShift: "<<",
    ast.RShift: ">>", ast.BitAnd: "&", ast.BitOr: "|", ast.BitXor: "^", ast.Div: "/", ast.Pow: "**",
}  # fmt: skip
CMPOPS = {
    ast.Eq: "==", ast.NotEq: "!=", ast.Lt: "<", ast.LtE: "<=", ast.Gt: ">", ast.GtE: ">=",
    ast.Is: "is", ast.IsNot: "is not", ast.In: "in", ast.NotIn: "not in",
}  # fmt: skip


@dataclass
class Res:
    kind: str  # 'val' | 'raise'
    val: Any
    st: State


@dataclass
class Out:
    kind: str  # 'normal' | 'return' | 'raise' | 'break' | 'continue'
    st: State
    val: Any = None


class Executor:
    MAX_PATHS = 4000

    def __init__(self, spec: Spec, vocab, inst: dict, registry=None):
        self.spec = spec
        self.vocab = vocab
        self.inst = inst
        self.registry = registry or {}
        self.obligations: list[Obligation] = []
        self.assumed: list[str] = []  # assumption notes collected during execution
        self.n_loop = 0
        self.n_assert = 0
        self.n_paths = 0
        self.bindings: dict[str, Any] = {}
        self.inline_depth = 0
        self.fn_stack: list[str] = []
        self.loop_ids: dict = {}  # (function, line, column) of a loop / comprehension -> ordinal given to Spec.inv
        self._solver = z3.Solver()
        self._solver.set("timeout", 1000)
        self._retry_budget = 45.0
        self.covers = 0
        self.old: State | None = None
        self.a: dict = {}
        self.a_stack: list[dict] = []
        self.inlined: set[str] = set()
        self.used_contracts: set[str] = set()
        self.n_call = 0
        self.handling: list[str] = []
        self.written: set[str] = set()
        self.fn_line = 0

    def cur_spec(self):
        return self.spec

    # ------------------------------------------------------------------ helpers
    def feasible(self, st: State, extra=None) -> bool:
        s = self._solver
        s.push()
        try:
            for c in st.pc:
                s.add(c)
            if extra is not None:
                s.add(extra)
            r = solve.check(s, 6)
            if r == z3.unknown and self._retry_budget > 0:
                # the quick budget (1 s) is easily exceeded when all cores are busy: a patient retry keeps path pruning (and with it the
                # vacuity probe) independent of machine load; the total time spent on retries is capped per unit
                import time as _t

                t0 = _t.time()
                s.set("timeout", 6000)
                r = solve.check(s, 15)
                s.set("timeout", 1000)
                self._retry_budget -= _t.time() - t0
        finally:
            s.pop()
        return r != z3.unsat

    def split(self, st: State, cond) -> list[tuple[bool, State]]:
        """Fork on a boolean condition (Python bool or z3 Bool); prune infeasible sides."""
        if isinstance(cond, bool):
            return [(cond, st)]
        cond = z3.simplify(cond)
        if z3.is_true(cond):
            return [(True, st)]
        if z3.is_false(cond):
            return [(False, st)]
        out = []
        if self.feasible(st, cond):
            t = st.fork()
            t.assume(cond)
            out.append((True, t))
        if self.feasible(st, z3.Not(cond)):
            f = st.fork()
            f.assume(z3.Not(cond))
            out.append((False, f))
        return out

    def register_loops(self, fn, qualname):
        """Loop ordinals are syntactic: the loops and comprehensions of a function are numbered in source order when it is entered."""
        nodes = [n for n in ast.walk(fn) if isinstance(n, (ast.For, ast.While, ast.ListComp, ast.GeneratorExp, ast.SetComp))]
        for n in sorted(nodes, key=lambda n: (n.lineno, n.col_offset)):
            self.loop_ids.setdefault((qualname, n.lineno, n.col_offset), len(self.loop_ids))

    def loop_ordinal(self, node):
        key = getattr(node, "_loop_key", None) or (self.fn_stack[-1] if self.fn_stack else "<main>", node.lineno, node.col_offset)
        return self.loop_ids.setdefault(key, len(self.loop_ids))

    def oblige(self, st: State, kind: str, name: str, goal, tag="property", expect="valid"):
        oid = f"{self.spec.prop}/{self.spec.short}/{kind}#{name}"
        path = "/".join(st.trace[-12:])
        self.obligations.append(Obligation(oid, kind, tag, list(st.pc), goal, path, expect))

    def truthy(self, v, st: State):
        if isinstance(v, VRef):
            if v.kinds:
                k = v.kinds[0]
                if k == "list":
                    return z3.And(v.z != 0, st.list_len(v.z) > 0)
                if k == "set":
                    x = z3.Int("x!nonempty")
                    return z3.And(v.z != 0, z3.Exists([x], st.dict_has(v.z, x)))
                raise Unsupported(f"truthiness of {k}")
            h = self.spec.globals.get("__truthy__", {})
            if v.cls in h:
                f = h[v.cls]
                return f(self, st, v) if getattr(f, "wants_ex", False) else f(st, v)
            if v.cls == "str":
                # a str is falsy when empty: `if s:` is NOT `s is not None`
                return z3.And(v.z != 0, z3.Not(EMPTY_STR(v.z)))
            if v.cls and extract.class_overrides_truthiness(v.cls):
                # the live class (or a base) defines __bool__ / __len__: `if x:` is not `x is not None`
                raise Unsupported(f"truthiness of a {v.cls}: the class defines __bool__/__len__ (the contract must model it with __truthy__)")
            if not v.cls and os.environ.get("VERIF_UNTYPED_TRUTHY") != "legacy":
                # an object whose class the contract does not name may define __bool__ / __len__: `if x:` is not `x is not None`
                return z3.And(v.z != 0, z3.Not(OBJ_FALSY(v.z)))
            return z3.simplify(v.z != 0)
        if isinstance(v, (VGlobal, VOpaque)):
            raise Unsupported(f"truthiness of {v}")
        return arith.truthy(v)

    # --------------------------------------------------------------- expressions
    def eval(self, e: ast.expr, st: State) -> list[Res]:
        text = None
        if self.bindings and not isinstance(e, (ast.Constant, ast.Name)):
            text = ast.unparse(e)
            if text in self.bindings:
                return [Res("val", self.bindings[text], st)]
        hook = self.spec.globals.get("__expr__") if isinstance(e, (ast.ListComp, ast.GeneratorExp, ast.SetComp, ast.DictComp)) or (
            isinstance(e, ast.Call) and any(isinstance(a, ast.Starred) for a in e.args) and self.spec.globals.get("__expr_calls__")) else None
        if hook is not None:
            # state-dependent model of one comprehension, identified by its exact source text (a change of the text un-binds it)
            v = hook(self, st, text or ast.unparse(e))
            if v is not None:
                return [Res("val", v, st)]
        m = getattr(self, "e_" + type(e).__name__, None)
        if m is None:
            raise Unsupported(f"expression {type(e).__name__}: {ast.unparse(e)[:60]}")
        return m(e, st)

    def eval_many(self, es: list[ast.expr], st: State) -> list[tuple[list, State] | Res]:
        """Evaluate expressions left to right; returns [(values, state)] plus raise Res entries."""
        acc: list = [([], st)]
        raises: list[Res] = []
        for e in es:
            nxt = []
            for vals, s in acc:
                for r in self.eval(e, s):
                    if r.kind == "raise":
                        raises.append(r)
                    else:
                        nxt.append((vals + [r.val], r.st))
            acc = nxt
        return acc, raises

    def e_Yield(self, e, st):
        """A `yield` in a @contextmanager generator: the code of the `with` body runs here; the contract models it with the `__yield__` hook."""
        h = self.spec.globals.get("__yield__")
        if h is None or e.value is not None:
            raise Unsupported("yield outside a modelled context manager")
        return h(self, st)

    def e_Constant(self, e, st):
        v = e.value
        if v is Ellipsis:
            return [Res("val", VOpaque("..."), st)]
        return [Res("val", v, st)]

    def e_Name(self, e, st):
        n = e.id
        if n in st.env:
            return [Res("val", st.env[n], st)]
        if n in self.bindings:
            return [Res("val", self.bindings[n], st)]
        g = self.spec.globals
        if n in g:
            return [Res("val", g[n], st)]
        if n in ("True", "False", "None"):
            return [Res("val", {"True": True, "False": False, "None": None}[n], st)]
        return [Res("val", VGlobal(n), st)]

    def e_JoinedStr(self, e, st):
        h = self.spec.globals.get("__fstring__")
        if h is not None:
            v = h(self, st, ast.unparse(e))
            if v is not None:
                return [Res("val", v, st)]
        return [Res("val", VOpaque("fstring"), st)]

    def e_Tuple(self, e, st, is_list=False):
        if any(isinstance(x, ast.Starred) for x in e.elts):
            return self._display_with_star(e, st, is_list)
        acc, raises = self.eval_many(e.elts, st)
        return raises + [Res("val", VTuple(vals, is_list), s) for vals, s in acc]

    def e_List(self, e, st):
        return self.e_Tuple(e, st, is_list=True)

    def _splice_pattern(self, e, st):
        """
        (*X[:I], E, *X[I + 1:])  ==  X with position I replaced by E, when 0 <= I < len(X) is
        implied by the path condition (otherwise the general slicing semantics below apply).
        """
        el = e.elts
        if len(el) != 3 or not isinstance(el[0], ast.Starred) or isinstance(el[1], ast.Starred) or not isinstance(el[2], ast.Starred):
            return None
        a, c = el[0].value, el[2].value
        if not (isinstance(a, ast.Subscript) and isinstance(c, ast.Subscript) and isinstance(a.slice, ast.Slice) and isinstance(c.slice, ast.Slice)):
            return None
        if ast.unparse(a.value) != ast.unparse(c.value) or a.slice.lower is not None or c.slice.upper is not None:
            return None
        if a.slice.upper is None or c.slice.lower is None or a.slice.step or c.slice.step:
            return None
        it = ast.unparse(a.slice.upper)
        if ast.unparse(c.slice.lower) not in (f"{it} + 1", f"({it}) + 1"):
            return None
        acc, raises = self.eval_many([a.value, a.slice.upper, el[1]], st)
        if raises or len(acc) != 1:
            return None
        (base, idx, val), s = acc[0]
        try:
            seq = arith.as_seq(self.to_seq_value(base, s))
        except Unsupported:
            return None
        i = z_int(idx)
        if self.feasible(s, z3.Not(z3.And(i >= 0, i < seq.n))):
            return None
        return [Res("val", VSeq(z3.Store(seq.arr, i, z_int(val)), seq.n, seq.ek, seq.ecls), s)]

    def _display_with_star(self, e, st, is_list):
        sp = self._splice_pattern(e, st)
        if sp is not None:
            return sp
        parts = [x.value if isinstance(x, ast.Starred) else x for x in e.elts]
        acc, raises = self.eval_many(parts, st)
        out = list(raises)
        for vals, s in acc:
            cur = None
            for x, v in zip(e.elts, vals):
                piece = v if isinstance(x, ast.Starred) else VTuple([v])
                piece = self.to_seq_value(piece, s)
                cur = piece if cur is None else arith.binop("+", cur, piece, lambda *a: None)
            out.append(Res("val", cur if cur is not None else VTuple([]), s))
        return out

    def to_seq_value(self, v, st):
        """Snapshot an iterable as an immutable sequence value."""
        if isinstance(v, (VTuple, VSeq)):
            return v
        if isinstance(v, VRef) and v.kinds and v.kinds[0] == "list":
            return VSeq(st.list_arr(v.z), st.list_len(v.z), v.kinds[1])
        raise Unsupported(f"cannot view {v!r} as a sequence")

    def e_BinOp(self, e, st):
        op = BINOPS.get(type(e.op))
        if op is None:
            raise Unsupported(f"operator {type(e.op).__name__}")
        acc, raises = self.eval_many([e.left, e.right], st)
        out = list(raises)
        for (a, b), s in acc:
            out += self._binop(op, a, b, s)
        return out

    def _binop(self, op, a, b, s) -> list[Res]:
        sides = []
        hook = self.spec.globals.get("__binop__")
        if hook is not None:
            hr = hook(self, s, op, a, b)
            if hr is not None:
                return hr
        if isinstance(a, VGlobal) and isinstance(b, VGlobal) and op == "|":
            return [Res("val", VGlobal(f"{a.text} | {b.text}"), s)]
        if op in ("|", "&") and all(isinstance(v, VRef) and v.kinds and v.kinds[0] == "set" for v in (a, b)):
            # set union / intersection: a NEW set object
            x = z3.Int("x!setop")
            d1, d2 = s.dict_dom(a.z), s.dict_dom(b.z)
            r = s.new_object("set")
            s.dict_store(r, z3.Lambda([x], (z3.Or if op == "|" else z3.And)(z3.Select(d1, x), z3.Select(d2, x))), z3.K(z3.IntSort(), z3.IntVal(0)))
            return [Res("val", VRef(r, "set", a.kinds), s)]
        v = arith.binop(op, a, b, lambda k, c: sides.append((k, c)))
        out = []
        cur = s
        for k, c in sides:
            if k == "require":
                c = z3.simplify(c)
                if not z3.is_true(c):
                    if self.feasible(cur, z3.Not(c)):
                        raise Unsupported("shift amount not provably inside the modelled range")
                continue
            exc = k.split(":")[1]
            branches = self.split(cur, c)
            nxt = None
            for taken, bs in branches:
                if taken:
                    bs.trace.append(exc)
                    out.append(Res("raise", exc, bs))
                else:
                    nxt = bs
            if nxt is None:
                return out
            cur = nxt
        out.append(Res("val", v, cur))
        return out

    def e_UnaryOp(self, e, st):
        out = []
        for r in self.eval(e.operand, st):
            if r.kind == "raise":
                out.append(r)
                continue
            if isinstance(e.op, ast.Not):
                t = self.truthy(r.val, r.st)
                v = (not t) if isinstance(t, bool) else lift_bool(z3.Not(t))
            else:
                op = {ast.USub: "-", ast.UAdd: "+", ast.Invert: "~"}[type(e.op)]
                v = arith.unop(op, r.val)
            out.append(Res("val", v, r.st))
        return out

    def _pure_boolop(self, e, st):
        """Non-forking evaluation of `a and b and ...` / `or` for side-effect-free boolean operands (pure mode)."""
        is_and = isinstance(e.op, ast.And)
        zs = []
        for v in e.values:
            rs = self.eval(v, st)
            if len(rs) != 1 or rs[0].kind != "val" or rs[0].st is not st:
                raise Unsupported("impure operand in a pure boolean expression")
            t = self.truthy(rs[0].val, st)
            if not isinstance(rs[0].val, (bool, VBool)):
                raise Unsupported("impure / non-boolean operand in a pure boolean expression")
            zs.append(z3.BoolVal(t) if isinstance(t, bool) else t)
        return [Res("val", lift_bool(z3.And(*zs) if is_and else z3.Or(*zs)), st)]

    def e_BoolOp(self, e, st):
        if getattr(self, "pure_mode", False):
            return self._pure_boolop(e, st)
        is_and = isinstance(e.op, ast.And)
        # pure boolean fast path: no calls inside -> no forking needed when all operands are bools
        results: list[Res] = []
        work = [(0, None, st)]
        while work:
            i, _, s = work.pop()
            for r in self.eval(e.values[i], s):
                if r.kind == "raise":
                    results.append(r)
                    continue
                if i == len(e.values) - 1:
                    results.append(r)
                    continue
                t = self.truthy(r.val, r.st)
                for taken, bs in self.split(r.st, t):
                    stop = (not taken) if is_and else taken
                    if stop:
                        results.append(Res("val", r.val, bs))
                    else:
                        work.append((i + 1, None, bs))
        return self._merge_bools(results)

    def _merge_bools(self, results: list[Res]) -> list[Res]:
        return results

    def _pure_ifexp(self, e, st):
        rs = self.eval(e.test, st)
        if len(rs) != 1 or rs[0].kind != "val" or rs[0].st is not st:
            raise Unsupported("impure operand in a pure conditional expression")
        vals = [rs[0].val]
        c = self.truthy(vals[0], st)
        for x, cond in ((e.body, c), (e.orelse, (not c) if isinstance(c, bool) else z3.Not(c))):
            # each arm is evaluated under its guard (so `d[k] if k in d else k` cannot raise) in a scratch state
            sb = st.fork()
            if not isinstance(cond, bool):
                sb.assume(cond)
            elif not cond:
                vals.append(None)
                continue
            rs = self.eval(x, sb)
            if len(rs) != 1 or rs[0].kind != "val" or rs[0].st.heap != st.heap:
                raise Unsupported("impure operand in a pure conditional expression")
            vals.append(rs[0].val)
        if isinstance(c, bool):
            return [Res("val", vals[1] if c else vals[2], st)]
        a, b = vals[1], vals[2]
        if isinstance(a, VRef) or isinstance(b, VRef):
            return [Res("val", VRef(z3.If(c, z_int(a), z_int(b)), a.cls if isinstance(a, VRef) else b.cls), st)]
        if isinstance(a, (VBool, bool)) and isinstance(b, (VBool, bool)):
            return [Res("val", lift_bool(z3.If(c, z_bool(a) if not isinstance(a, bool) else z3.BoolVal(a), z_bool(b) if not isinstance(b, bool) else z3.BoolVal(b))), st)]
        return [Res("val", lift_int(z3.If(c, z_int(a), z_int(b))), st)]

    def e_IfExp(self, e, st):
        if getattr(self, "pure_mode", False):
            return self._pure_ifexp(e, st)
        out = []
        for r in self.eval(e.test, st):
            if r.kind == "raise":
                out.append(r)
                continue
            for taken, bs in self.split(r.st, self.truthy(r.val, r.st)):
                out += self.eval(e.body if taken else e.orelse, bs)
        return out

    def e_NamedExpr(self, e, st):
        out = []
        for r in self.eval(e.value, st):
            if r.kind == "val":
                r.st.env[e.target.id] = r.val
            out.append(r)
        return out

    def e_Compare(self, e, st):
        # a op1 b op2 c ...  (short-circuit chain)
        out = []
        for r in self.eval(e.left, st):
            if r.kind == "raise":
                out.append(r)
                continue
            out += self._cmp_chain(r.val, list(zip(e.ops, e.comparators)), r.st)
        return out

    def _cmp_chain(self, left, rest, st):
        (op, right_e), tail = rest[0], rest[1:]
        out = []
        for r in self.eval(right_e, st):
            if r.kind == "raise":
                out.append(r)
                continue
            for c in self._cmp(CMPOPS[type(op)], left, r.val, r.st):
                if c.kind == "raise" or not tail:
                    out.append(c)
                    continue
                for taken, bs in self.split(c.st, self.truthy(c.val, c.st)):
                    if taken:
                        out += self._cmp_chain(r.val, tail, bs)
                    else:
                        out.append(Res("val", False, bs))
        return out

    def _cmp(self, op, a, b, st) -> list[Res]:
        if op in ("in", "not in"):
            r = self.contains(b, a, st)
            if op == "not in":
                r = arith.negate(r)
            return [Res("val", r, st)]
        h = self.spec.globals.get("__eq__")
        if h is not None and op in ("==", "!="):
            r = h(self, st, a, b)
            if r is not None:
                return [Res("val", arith.negate(r) if op == "!=" else r, st)]
        if op in ("==", "!=") and all(isinstance(v, VRef) and v.kinds and v.kinds[0] == "set" for v in (a, b)):
            # sets compare by CONTENT, not identity
            r = lift_bool(z3.And(a.z != 0, b.z != 0, st.dict_dom(a.z) == st.dict_dom(b.z)))
            return [Res("val", arith.negate(r) if op == "!=" else r, st)]
        return [Res("val", arith.compare(op, a, b), st)]

    def contains(self, container, item, st):
        if isinstance(container, VRef) and container.kinds:
            k = container.kinds[0]
            if k == "dict":
                return lift_bool(st.dict_has(container.z, z_int(item)))
            if k == "set":
                return lift_bool(st.dict_has(container.z, z_int(item)))
            if k == "list":
                j = z3.Int("j!in")
                return lift_bool(
                    z3.Exists([j], z3.And(j >= 0, j < st.list_len(container.z), st.list_el(container.z, j) == z_int(item)))
                )
        if isinstance(container, VTuple):
            acc = []
            for it in container.items:
                r = arith.equal(item, it)
                if r is True:
                    return True
                if r is not False:
                    acc.append(r.z)
            return lift_bool(z3.Or(*acc)) if acc else False
        if isinstance(container, VSeq):
            j = z3.Int("j!in")
            return lift_bool(z3.Exists([j], z3.And(j >= 0, j < container.n, z3.Select(container.arr, j) == z_int(item))))
        h = self.spec.globals.get("__contains__")
        if h is not None:
            r = h(self, st, container, item)
            if r is not None:
                return r
        raise Unsupported(f"`in` on {container!r}")

    # attribute access ------------------------------------------------------------
    def e_Attribute(self, e, st):
        out = []
        for r in self.eval(e.value, st):
            if r.kind == "raise":
                out.append(r)
                continue
            out += self.getattr(r.val, e.attr, r.st, ast.unparse(e))
        return out

    def getattr(self, base, attr, st, text="") -> list[Res]:
        if isinstance(base, VGlobal):
            return [Res("val", VGlobal(f"{base.text}.{attr}"), st)]
        if isinstance(base, VRef):
            if base.kinds:
                return [Res("val", VBound(base, attr, text), st)]
            getter = self.vocab.getters.get(f"{base.cls}.{attr}") if base.cls else None
            if getter is not None:
                return self.eval_with_self(getter, base, st)
            getter = self.vocab.getters.get(attr)
            if getter is not None and not self.vocab.has(attr):
                return self.eval_with_self(getter, base, st)
            hook = self.spec.globals.get("__getattr__")
            if hook is not None and not self.vocab.has(attr):
                hv = hook(self, st, base, attr)
                if hv is not None:
                    return [Res("val", hv, st)]
            if self.vocab.has(attr):
                if isinstance(z3.simplify(base.z), z3.IntNumRef) and z3.simplify(base.z).as_long() == 0:
                    return [Res("raise", "AttributeError", st)]
                return [Res("val", self.read_field(base, attr, st), st)]
            return [Res("val", VBound(base, attr, text), st)]
        if isinstance(base, (VTuple, VSeq, VBound, VIter, VRange)):
            return [Res("val", VBound(base, attr, text), st)]
        if base is None:
            return [Res("raise", "AttributeError", st)]
        raise Unsupported(f"attribute .{attr} on {base!r} ({text})")

    def eval_with_self(self, expr, selfv, st) -> list[Res]:
        saved = st.env.get("self", _MISSING)
        saved_b = self.bindings
        self.bindings = {}
        st.env["self"] = selfv
        try:
            rs = self.eval(expr, st)
        finally:
            self.bindings = saved_b
        for r in rs:
            if saved is _MISSING:
                r.st.env.pop("self", None)
            else:
                r.st.env["self"] = saved
        return rs

    def read_field(self, base: VRef, attr: str, st: State):
        spec = self.vocab.fields[attr]
        parts = spec.split(":")
        kind = parts[0]
        if kind == "int":
            return VInt(st.sel(attr, base.z))
        if kind == "bool":
            return VBool(st.sel(attr, base.z))
        if kind == "ref":
            cls = parts[1] if len(parts) > 1 else None
            if cls is None:
                # a polymorphic field (e.g. `parent`): the contract may type it from the owner's class
                h = self.spec.globals.get("__field_cls__")
                cls = h(base.cls, attr) if h is not None else None
            r = VRef(st.sel(attr, base.z), cls)
            st.assume_allocated(r.z)
            return r
        if kind == "seq":
            return VSeq(st.seq_arr(attr, base.z), st.seq_len(attr, base.z), parts[1] if len(parts) > 1 else "ref",
                        parts[2] if len(parts) > 2 else None)
        if kind in ("list", "dict", "set"):
            r = VRef(st.sel(attr, base.z), kind, tuple(parts))
            return r
        raise Unsupported(f"field kind {spec}")

    def write_field(self, base: VRef, attr: str, val, st: State):
        kind = self.vocab.fields[attr].split(":")[0]
        if kind == "seq":
            s = arith.as_seq(self.to_seq_value(val, st))
            st.seq_store(attr, base.z, s.arr, s.n)
        elif kind == "bool":
            st.store(attr, base.z, z_bool(val) if not isinstance(val, bool) else z3.BoolVal(val))
        elif kind in ("list", "dict", "set"):
            if isinstance(val, VRef):
                st.store(attr, base.z, val.z)
            else:
                obj = self.materialize(val, self.vocab.fields[attr], st)
                st.store(attr, base.z, obj.z)
        else:
            st.store(attr, base.z, z_int(val))

    def materialize(self, val, fieldspec, st) -> VRef:
        """Turn a fresh local list/dict literal into a heap object."""
        parts = tuple(fieldspec.split(":"))
        r = st.new_object(parts[0])
        if parts[0] == "list":
            s = arith.as_seq(val)
            st.list_store(r, s.arr, s.n)
        else:
            raise Unsupported("materialize " + fieldspec)
        return VRef(r, parts[0], parts)

    # subscripts -------------------------------------------------------------------
    def e_Subscript(self, e, st):
        out = []
        for r in self.eval(e.value, st):
            if r.kind == "raise":
                out.append(r)
                continue
            if isinstance(e.slice, ast.Slice):
                parts = [p for p in (e.slice.lower, e.slice.upper) if p is not None]
                if e.slice.step is not None:
                    raise Unsupported("slice step")
                acc, raises = self.eval_many(parts, r.st)
                out += raises
                for vals, s in acc:
                    it = iter(vals)
                    lo = next(it) if e.slice.lower is not None else None
                    hi = next(it) if e.slice.upper is not None else None
                    out.append(Res("val", self.slice(r.val, lo, hi, s), s))
            else:
                for ir in self.eval(e.slice, r.st):
                    if ir.kind == "raise":
                        out.append(ir)
                        continue
                    out += self.index(r.val, ir.val, ir.st)
        return out

    def slice(self, base, lo, hi, st):
        if isinstance(base, VTuple) and (lo is None or isinstance(lo, int)) and (hi is None or isinstance(hi, int)):
            return VTuple(base.items[lo:hi], base.is_list)
        s = arith.as_seq(self.to_seq_value(base, st))
        return arith.seq_slice(s, None if lo is None else z_int(lo), None if hi is None else z_int(hi))

    def index(self, base, idx, st) -> list[Res]:
        if isinstance(base, VGlobal):
            return [Res("val", VGlobal(f"{base.text}[...]"), st)]
        if isinstance(base, VTuple):
            if isinstance(idx, int):
                try:
                    return [Res("val", base.items[idx], st)]
                except IndexError:
                    return [Res("raise", "IndexError", st)]
            n = len(base.items)
            return self._index_sym(lambda j: self._ite_items(base.items, j), n, idx, st)
        if isinstance(base, VSeq):
            return self._index_sym(lambda j: self._elem(z3.Select(base.arr, j), base.ek, base.ecls, st), base.n, idx, st)
        if isinstance(base, VRef) and base.kinds:
            k = base.kinds[0]
            if k == "list":
                return self._index_sym(
                    lambda j: self._elem(st.list_el(base.z, j), base.kinds[1], base.kinds[2] if len(base.kinds) > 2 else None, st),
                    st.list_len(base.z), idx, st)
            if k == "dict" and "defaultdict0" in base.kinds:
                # collections.defaultdict(int): a missing key reads as 0 and is inserted
                key = z_int(idx)
                val = z3.If(st.dict_has(base.z, key), st.dict_val(base.z, key), z3.IntVal(0))
                st.dict_store(base.z, z3.Store(st.dict_dom(base.z), key, z3.BoolVal(True)), z3.Store(st.dict_vals(base.z), key, val))
                return [Res("val", lift_int(val), st)]
            if k == "dict" and "defaultdict_dict" in base.kinds:
                # collections.defaultdict(dict): a missing key is bound to a fresh empty dict, which is returned
                out = []
                key = z_int(idx)
                for has, bs in self.split(st, st.dict_has(base.z, key)):
                    if not has:
                        bs.trace.append("defaultdict-miss")
                        nr = bs.new_object("dict")
                        bs.dict_store(nr, z3.K(z3.IntSort(), z3.BoolVal(False)), z3.K(z3.IntSort(), z3.IntVal(0)))
                        bs.dict_store(base.z, z3.Store(bs.dict_dom(base.z), key, z3.BoolVal(True)), z3.Store(bs.dict_vals(base.z), key, nr))
                    out.append(Res("val", self._elem(bs.dict_val(base.z, key), "ref", "dict", bs), bs))
                return out
            if k == "dict":
                out = []
                key = z_int(idx)
                for has, bs in self.split(st, st.dict_has(base.z, key)):
                    if has:
                        out.append(Res("val", self._elem(bs.dict_val(base.z, key), base.kinds[2],
                                                         base.kinds[3] if len(base.kinds) > 3 else None, bs), bs))
                    else:
                        bs.trace.append("KeyError")
                        out.append(Res("raise", "KeyError", bs))
                return out
        h = self.spec.globals.get("__getitem__")
        if h is not None:
            r = h(self, st, base, idx)
            if r is not None:
                return r
        raise Unsupported(f"subscript on {base!r}")

    def _elem(self, z, ek, ecls, st):
        if ek == "int":
            return lift_int(z)
        if ek == "bool":
            return VBool(z != 0)
        if ek == "pair":
            from .values import FST, SND

            c1, c2 = (ecls.split(",") + [None, None])[:2] if ecls else (None, None)
            return VTuple([VRef(FST(z), c1), VRef(SND(z), c2)])
        if ecls in ("set", "list", "dict"):
            # container-valued element (e.g. dict[Block, set[Block]])
            return VRef(z, ecls, (ecls, "ref") if ecls != "dict" else ("dict", "ref", "ref"))
        r = VRef(z, ecls)
        return r

    def _ite_items(self, items, j):
        if all(isinstance(x, (int, VInt, VRef, VBool)) or x is None for x in items):
            e = z_int(items[-1])
            for k in range(len(items) - 2, -1, -1):
                e = z3.If(j == k, z_int(items[k]), e)
            if any(isinstance(x, VRef) for x in items):
                return VRef(e, next(x.cls for x in items if isinstance(x, VRef)))
            return lift_int(e)
        raise Unsupported("symbolic index into heterogeneous tuple")

    def _index_sym(self, getter, n, idx, st) -> list[Res]:
        """Python indexing: negative indices wrap, out of range raises IndexError."""
        i = z_int(idx)
        nz = n if not isinstance(n, int) else z3.IntVal(n)
        j = z3.simplify(z3.If(i < 0, i + nz, i))
        out = []
        for ok, bs in self.split(st, z3.And(j >= 0, j < nz)):
            if ok:
                out.append(Res("val", getter(j), bs))
            else:
                bs.trace.append("IndexError")
                out.append(Res("raise", "IndexError", bs))
        return out

    # calls: in calls.py ---------------------------------------------------------
    def e_Call(self, e, st):
        from .calls import eval_call

        return eval_call(self, e, st)

    def e_GeneratorExp(self, e, st):
        raise Unsupported("generator expression outside all/any/tuple/sum")

    def e_ListComp(self, e, st):
        from .calls import comprehension_seq

        return comprehension_seq(self, e, st, is_list=True)

    def e_Lambda(self, e, st):
        return [Res("val", VOpaque("lambda"), st)]

    def e_Set(self, e, st):
        """{a, b, ...}: a fresh set object holding the elements."""
        acc, raises = self.eval_many(e.elts, st)
        out = list(raises)
        for vals, s in acc:
            r = s.new_object("set")
            dom = z3.K(z3.IntSort(), z3.BoolVal(False))
            for v in vals:
                dom = z3.Store(dom, z_int(v), z3.BoolVal(True))
            s.dict_store(r, dom, z3.K(z3.IntSort(), z3.IntVal(0)))
            out.append(Res("val", VRef(r, "set", ("set", "ref")), s))
        return out

    def e_Dict(self, e, st):
        if not e.keys:
            r = st.new_object("dict")
            st.dict_store(r, z3.K(z3.IntSort(), z3.BoolVal(False)), z3.K(z3.IntSort(), z3.IntVal(0)))
            return [Res("val", VRef(r, "dict", ("dict", "ref", "ref")), st)]
        raise Unsupported("non-empty dict display")


class _Missing:
    pass


_MISSING = _Missing()
