"""Python arithmetic / comparison semantics over symbolic values (ints are mathematical)."""

from __future__ import annotations

import z3

from .values import (
    F64,
    RNE,
    Unsupported,
    VBool,
    VFloat,
    VInt,
    VRef,
    VSeq,
    VTuple,
    is_concrete,
    lift_bool,
    lift_int,
    z_float,
    z_int,
)

# uninterpreted bitwise operators on mathematical integers; the axioms used about them are
# listed in the evidence (they are facts of two's-complement arithmetic, checked natively for
# small widths at start-up, see contracts/common.py)
PYAND = z3.Function("pyand", z3.IntSort(), z3.IntSort(), z3.IntSort())
PYOR = z3.Function("pyor", z3.IntSort(), z3.IntSort(), z3.IntSort())
PYXOR = z3.Function("pyxor", z3.IntSort(), z3.IntSort(), z3.IntSort())

SHIFT_BOUND = 130  # symbolic shift amounts are case-split over 0..SHIFT_BOUND-1


def is_float(v) -> bool:
    return isinstance(v, (float, VFloat))


def is_intlike(v) -> bool:
    return isinstance(v, (int, VInt, VBool)) and not isinstance(v, float)


FDIV = z3.Function("fdiv", z3.IntSort(), z3.IntSort(), z3.IntSort())
"""floor(n/d) for d > 0 with a *symbolic* divisor: uninterpreted, characterised by the axioms in
contracts/common.py:division_axioms (non-linear arithmetic is not left to the solver)."""


def floordiv(a, b):
    """Python // on z3 Ints, b != 0 (z3 div is Euclidean)."""
    bs = z3.simplify(b) if z3.is_expr(b) else z3.IntVal(b)
    if z3.is_int_value(bs):
        return z3.If(bs > 0, a / bs, (-a) / (-bs))
    return z3.If(b > 0, FDIV(a, b), FDIV(-a, -b))


def pymod(a, b):
    return a - b * floordiv(a, b)


def pow2_chain(k, f):
    """If-chain ``f(2**j)`` for j = k, used for shifts by a symbolic amount."""
    e = f(1 << (SHIFT_BOUND - 1))
    for j in range(SHIFT_BOUND - 2, -1, -1):
        e = z3.If(k == j, f(1 << j), e)
    return e


def _mask_kind(c: int):
    """('mod', k) for 2^k-1, ('bit', k) for 2^k, else None."""
    if c >= 0 and (c + 1) & c == 0:
        return ("mod", c.bit_length())
    if c > 0 and c & (c - 1) == 0:
        return ("bit", c.bit_length() - 1)
    return None


def binop(op: str, a, b, side):
    """
    Evaluate ``a <op> b``.  ``side`` is a callback ``side(kind, z3cond)`` used to register
    side conditions: ('raise:ZeroDivisionError', cond) or ('require', cond) for modelling
    limits (shift amount inside the case split).
    """
    if is_concrete(a) and is_concrete(b) and not (a is None or b is None):
        try:
            return {
                "+": lambda: a + b,
                "-": lambda: a - b,
                "*": lambda: a * b,
                "//": lambda: a // b,
                "%": lambda: a % b,
                "<<": lambda: a << b,
                ">>": lambda: a >> b,
                "&": lambda: a & b,
                "|": lambda: a | b,
                "^": lambda: a ^ b,
                "/": lambda: a / b,
                "**": lambda: a**b,
            }[op]()
        except ZeroDivisionError:
            side("raise:ZeroDivisionError", z3.BoolVal(True))
            return 0
    if is_float(a) or is_float(b):
        x, y = z_float(a), z_float(b)
        if op == "+":
            return VFloat(z3.fpAdd(RNE, x, y))
        if op == "-":
            return VFloat(z3.fpSub(RNE, x, y))
        if op == "*":
            return VFloat(z3.fpMul(RNE, x, y))
        if op == "/":
            side("raise:ZeroDivisionError", z3.fpIsZero(y))
            return VFloat(z3.fpDiv(RNE, x, y))
        raise Unsupported(f"float operator {op}")
    if isinstance(a, VTuple) and isinstance(b, VTuple) and op == "+":
        return VTuple(a.items + b.items, a.is_list and b.is_list)
    if isinstance(a, (VSeq, VTuple)) and isinstance(b, (VSeq, VTuple)) and op == "+":
        return seq_concat(as_seq(a), as_seq(b))
    if isinstance(a, VTuple) and a.is_list and op == "*" and isinstance(b, (int, VInt)):
        # [c] * n  -> constant sequence
        if len(a.items) == 1:
            c = z_int(a.items[0])
            return VSeq(z3.K(z3.IntSort(), c), z_int(b), "int")
    if isinstance(a, (bool, VBool)) and isinstance(b, (bool, VBool)) and op in ("&", "|", "^"):
        # bool <op> bool is a bool in Python
        p = z3.BoolVal(a) if isinstance(a, bool) else a.z
        q = z3.BoolVal(b) if isinstance(b, bool) else b.z
        return lift_bool({"&": z3.And, "|": z3.Or, "^": z3.Xor}[op](p, q))
    if not (is_intlike(a) and is_intlike(b)):
        raise Unsupported(f"operator {op} on {type(a).__name__}, {type(b).__name__}")
    x, y = z_int(a), z_int(b)
    if op == "+":
        return lift_int(x + y)
    if op == "-":
        return lift_int(x - y)
    if op == "*":
        return lift_int(x * y)
    if op == "//":
        side("raise:ZeroDivisionError", y == 0)
        return lift_int(floordiv(x, y))
    if op == "%":
        side("raise:ZeroDivisionError", y == 0)
        return lift_int(pymod(x, y))
    if op == "<<":
        if isinstance(b, int):
            if b < 0:
                side("raise:ValueError", z3.BoolVal(True))
                return 0
            return lift_int(x * (1 << b))
        side("raise:ValueError", y < 0)
        side("require", y < SHIFT_BOUND)
        return lift_int(pow2_chain(y, lambda p: x * p))
    if op == ">>":
        if isinstance(b, int):
            if b < 0:
                side("raise:ValueError", z3.BoolVal(True))
                return 0
            return lift_int(x / (1 << b))
        side("raise:ValueError", y < 0)
        side("require", y < SHIFT_BOUND)
        return lift_int(pow2_chain(y, lambda p: x / p))
    if op in ("&", "|", "^"):
        if op == "&":
            for u, c in ((x, b), (y, a)):
                if isinstance(c, int) and not isinstance(c, bool):
                    mk = _mask_kind(c)
                    if mk and mk[0] == "mod":
                        return lift_int(u % (1 << mk[1])) if mk[1] > 0 else 0
                    if mk and mk[0] == "bit":
                        p = 1 << mk[1]
                        return lift_int(((u / p) % 2) * p)
        f = {"&": PYAND, "|": PYOR, "^": PYXOR}[op]
        return VInt(f(x, y))
    raise Unsupported(f"operator {op}")


def as_seq(v) -> VSeq:
    if isinstance(v, VSeq):
        return v
    if isinstance(v, VTuple):
        arr = z3.K(z3.IntSort(), z3.IntVal(0))
        ek = "int"
        ecls = None
        for i, it in enumerate(v.items):
            if isinstance(it, VRef):
                ek = "ref"
                ecls = it.cls
            arr = z3.Store(arr, i, z_int(it))
        return VSeq(arr, z3.IntVal(len(v.items)), ek, ecls)
    raise Unsupported(f"not a sequence: {v!r}")


def seq_concat(a: VSeq, b: VSeq) -> VSeq:
    j = z3.Int("j!cat")
    arr = z3.Lambda([j], z3.If(j < a.n, z3.Select(a.arr, j), z3.Select(b.arr, j - a.n)))
    return VSeq(arr, z3.simplify(a.n + b.n), a.ek if a.ek == b.ek else "ref", a.ecls or b.ecls)


def seq_slice(a: VSeq, lo, hi) -> VSeq:
    """a[lo:hi] with Python's clamping; lo/hi are z3 Ints or None."""
    n = a.n

    def norm(x, default):
        if x is None:
            return default
        x = z3.If(x < 0, x + n, x)
        return z3.If(x < 0, z3.IntVal(0), z3.If(x > n, n, x))

    l = norm(lo, z3.IntVal(0))
    h = norm(hi, n)
    ln = z3.If(h > l, h - l, z3.IntVal(0))
    j = z3.Int("j!sl")
    arr = z3.Lambda([j], z3.Select(a.arr, j + l))
    return VSeq(arr, z3.simplify(ln), a.ek, a.ecls)


def unop(op: str, a):
    if op == "not":
        raise Unsupported("not handled by caller")
    if is_concrete(a) and a is not None:
        return {"-": lambda: -a, "+": lambda: +a, "~": lambda: ~a}[op]()
    if isinstance(a, VFloat):
        if op == "-":
            return VFloat(z3.fpNeg(a.z))
        if op == "+":
            return a
    if is_intlike(a):
        x = z_int(a)
        if op == "-":
            return lift_int(-x)
        if op == "+":
            return lift_int(x)
        if op == "~":
            return lift_int(-x - 1)
    raise Unsupported(f"unary {op} on {a!r}")


def compare(op: str, a, b):
    """Returns a Python bool / VBool for ==, !=, <, <=, >, >=, is, is not."""
    if op in ("is", "is not"):
        r = identical(a, b)
        return negate(r) if op == "is not" else r
    if op in ("==", "!="):
        r = equal(a, b)
        return negate(r) if op == "!=" else r
    if is_concrete(a) and is_concrete(b) and a is not None and b is not None:
        return {"<": a < b, "<=": a <= b, ">": a > b, ">=": a >= b}[op]
    if is_float(a) or is_float(b):
        x, y = z_float(a), z_float(b)
        return lift_bool({"<": z3.fpLT, "<=": z3.fpLEQ, ">": z3.fpGT, ">=": z3.fpGEQ}[op](x, y))
    if is_intlike(a) and is_intlike(b):
        x, y = z_int(a), z_int(b)
        return lift_bool({"<": x < y, "<=": x <= y, ">": x > y, ">=": x >= y}[op])
    raise Unsupported(f"comparison {op} on {a!r}, {b!r}")


def negate(r):
    if isinstance(r, bool):
        return not r
    return lift_bool(z3.Not(r.z))


def identical(a, b):
    if a is None and b is None:
        return True
    if isinstance(a, VRef) or isinstance(b, VRef):
        if (a is None or isinstance(a, VRef)) and (b is None or isinstance(b, VRef)):
            return lift_bool(z_int(a) == z_int(b))
        if isinstance(a, VInt) or isinstance(b, VInt):
            return lift_bool(z_int(a) == z_int(b))
        return False
    if a is None or b is None:
        other = b if a is None else a
        if isinstance(other, (VInt, VBool, VFloat, VTuple, VSeq, int, float, str)):
            # ints / floats / tuples are never None.  (An Int-coded "object or None" is a VRef.)
            return False
        raise Unsupported(f"`is None` on {other!r}")
    if isinstance(a, bool) and isinstance(b, bool):
        return a is b
    if isinstance(a, (VBool, bool)) and isinstance(b, (VBool, bool)):
        return equal(a, b)
    raise Unsupported(f"`is` on {a!r}, {b!r}")


def equal(a, b):
    from .values import VGlobal

    if isinstance(a, VGlobal) and isinstance(b, VGlobal):
        return a.text.split(".")[-1] == b.text.split(".")[-1]
    if is_concrete(a) and is_concrete(b):
        return a == b
    if is_float(a) or is_float(b):
        if a is None or b is None:
            return False
        return lift_bool(z3.fpEQ(z_float(a), z_float(b)))
    if isinstance(a, (VBool, bool)) and isinstance(b, (VBool, bool)):
        x = a.z if isinstance(a, VBool) else z3.BoolVal(a)
        y = b.z if isinstance(b, VBool) else z3.BoolVal(b)
        return lift_bool(x == y)
    if isinstance(a, (VRef,)) or isinstance(b, (VRef,)):
        return identical(a, b)
    if is_intlike(a) and is_intlike(b):
        return lift_bool(z_int(a) == z_int(b))
    if a is None or b is None:
        return identical(a, b)
    if isinstance(a, VTuple) and isinstance(b, VTuple):
        if len(a.items) != len(b.items):
            return False
        acc = []
        for x, y in zip(a.items, b.items):
            r = equal(x, y)
            if r is False:
                return False
            if r is not True:
                acc.append(r.z)
        return lift_bool(z3.And(*acc)) if acc else True
    if isinstance(a, (VSeq, VTuple)) and isinstance(b, (VSeq, VTuple)):
        sa, sb = as_seq(a), as_seq(b)
        j = z3.Int("j!eq")
        return lift_bool(
            z3.And(
                sa.n == sb.n,
                z3.ForAll([j], z3.Implies(z3.And(j >= 0, j < sa.n), z3.Select(sa.arr, j) == z3.Select(sb.arr, j))),
            )
        )
    raise Unsupported(f"== on {a!r}, {b!r}")


def truthy(v):
    """Python truthiness as bool / z3 Bool."""
    if is_concrete(v):
        return bool(v)
    if isinstance(v, VBool):
        return v.z
    if isinstance(v, VInt):
        return z3.simplify(v.z != 0)
    if isinstance(v, VFloat):
        return z3.Not(z3.fpIsZero(v.z))
    if isinstance(v, VTuple):
        return len(v.items) > 0
    if isinstance(v, VSeq):
        return z3.simplify(v.n > 0)
    raise Unsupported(f"truthiness of {v!r}")
