"""./check <id> --replay <file>: re-run a recorded counter-example against the real code."""

from __future__ import annotations

import importlib
import json


def replay_file(prop: str, path: str) -> int:
    p = json.load(open(path))
    print(json.dumps({k: p[k] for k in ("property", "obligation", "instance", "native_failure") if k in p}, indent=1, default=str))
    rc = p.get("recheck")
    if not rc:
        print("no executable replay recorded for this obligation (solver verdict only)")
        return 1
    if rc["kind"] == "spec":
        mod = importlib.import_module(rc["module"])
        spec = mod.SPECS[rc["spec_index"]]
        f = spec.replay(rc["inst"], rc["model"])
    else:
        mod = importlib.import_module(rc["module"])
        f = getattr(mod, rc["function"])(*rc["args"])
    if f:
        print("REPLAY: still fails on the current tree:", json.dumps(f, default=str))
        print(f"VIOLATION property={prop} replay={path}")
        return 1
    print("REPLAY: passes on the current tree")
    return 0
