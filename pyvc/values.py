"""Symbolic values and the symbolic state (locals + field-array heap + ghost state)."""

from __future__ import annotations

from dataclasses import dataclass, field
from typing import Any

import z3

I = z3.IntSort()
B = z3.BoolSort()
F64 = z3.Float64()
RNE = z3.RNE()
A_II = z3.ArraySort(I, I)
A_IB = z3.ArraySort(I, B)
A_IAI = z3.ArraySort(I, A_II)
A_IAB = z3.ArraySort(I, A_IB)


class Unsupported(Exception):
    """The function left the supported Python subset: the unit is UNDECIDED, never skipped."""


@dataclass
class VInt:
    z: Any


@dataclass
class VBool:
    z: Any


@dataclass
class VFloat:
    z: Any


@dataclass
class VStr:
    z: Any


@dataclass
class VRef:
    """Reference to a heap object (0 == None).  ``cls`` is a static class hint."""

    z: Any
    cls: str | None = None
    kinds: tuple | None = None  # for containers: ('list', ek) / ('dict', kk, vk) / ('set', ek)


@dataclass
class VTuple:
    items: list
    is_list: bool = False  # a fresh local list literal of known length (value semantics while local)


@dataclass
class VSeq:
    """Immutable sequence value (tuple) of symbolic length with Int-coded elements."""

    arr: Any  # Array Int -> Int
    n: Any  # Int
    ek: str = "ref"  # 'int' | 'ref'
    ecls: str | None = None


@dataclass
class VGlobal:
    """An unresolved global / dotted name (class, module, function)."""

    text: str


@dataclass
class VOpaque:
    """A value the engine does not interpret (strings built by f-strings, etc.)."""

    text: str


@dataclass
class VRange:
    lo: Any
    hi: Any


@dataclass
class VIter:
    """zip / enumerate / reversed views, consumed by ``for``."""

    kind: str
    parts: list


@dataclass
class VItState:
    """A Python iterator over a sequence, held by value in a local name: the underlying sequence and how many items were consumed."""

    seq: Any  # VSeq
    pos: Any  # z3 Int


@dataclass
class VBound:
    """A bound method ``recv.name`` waiting to be called."""

    recv: Any
    name: str
    text: str


def is_concrete(v) -> bool:
    return v is None or isinstance(v, (bool, int, float, str))


def z_int(v):
    """Int-coded z3 term for ints, refs, bools (0/1) and None (0)."""
    if isinstance(v, bool):
        return z3.IntVal(1 if v else 0)
    if isinstance(v, int):
        return z3.IntVal(v)
    if v is None:
        return z3.IntVal(0)
    if isinstance(v, (VInt, VRef)):
        return v.z
    if isinstance(v, VBool):
        return z3.If(v.z, z3.IntVal(1), z3.IntVal(0))
    if isinstance(v, VTuple) and len(v.items) == 2 and not v.is_list:
        # a 2-tuple stored in a container / passed where an object is expected: interned as TUP2(a, b); the
        # contract supplies the pairing axioms (FST/SND projections) where it needs them
        return TUP2(z_int(v.items[0]), z_int(v.items[1]))
    raise Unsupported(f"cannot Int-code {v!r}")


TUP2 = z3.Function("TUP2", z3.IntSort(), z3.IntSort(), z3.IntSort())
FST = z3.Function("FST", z3.IntSort(), z3.IntSort())
SND = z3.Function("SND", z3.IntSort(), z3.IntSort())


def z_bool(v):
    if isinstance(v, bool):
        return z3.BoolVal(v)
    if isinstance(v, VBool):
        return v.z
    raise Unsupported(f"not a bool: {v!r}")


def z_float(v):
    if isinstance(v, VFloat):
        return v.z
    if isinstance(v, bool):
        return z3.FPVal(1.0 if v else 0.0, F64)
    if isinstance(v, (int, float)):
        return z3.FPVal(float(v), F64)
    if isinstance(v, VInt):
        return z3.fpToFP(RNE, z3.ToReal(v.z), F64)
    raise Unsupported(f"not a float: {v!r}")


def simp(e):
    return z3.simplify(e)


def lift_int(z):
    """Wrap a z3 Int term, folding numerals to Python ints."""
    z = z3.simplify(z)
    if z3.is_int_value(z):
        return z.as_long()
    return VInt(z)


def lift_bool(z):
    z = z3.simplify(z)
    if z3.is_true(z):
        return True
    if z3.is_false(z):
        return False
    return VBool(z)


@dataclass
class Clause:
    name: str
    z: Any
    tag: str = "property"  # 'property' | 'aux'


@dataclass
class Obligation:
    oid: str
    kind: str
    tag: str
    assumptions: list
    goal: Any
    path: str
    expect: str = "valid"  # 'valid' (prove) | 'sat' (cover)


class State:
    """One symbolic path: locals, heap (one SMT array per field), ghost terms, path condition."""

    _fresh = 0

    def __init__(self, vocab):
        self.vocab = vocab
        self.env: dict[str, Any] = {}
        self.heap: dict[str, Any] = {}
        self.ghost: dict[str, Any] = {}
        self.pc: list = []
        self.trace: list[str] = []
        self.inputs: dict[str, Any] = {}

    # -- forking -----------------------------------------------------------------
    def fork(self) -> "State":
        s = State.__new__(State)
        s.vocab = self.vocab
        s.env = dict(self.env)
        s.heap = dict(self.heap)
        s.ghost = dict(self.ghost)
        s.pc = list(self.pc)
        s.trace = list(self.trace)
        s.inputs = self.inputs
        return s

    def snapshot(self) -> "State":
        return self.fork()

    def assume(self, z) -> None:
        z = z3.simplify(z) if not isinstance(z, bool) else z3.BoolVal(z)
        if z3.is_true(z):
            return
        self.pc.append(z)

    # -- fresh symbols -----------------------------------------------------------
    @classmethod
    def fresh_name(cls, base: str) -> str:
        cls._fresh += 1
        return f"{base}!{cls._fresh}"

    def fresh_int(self, base="i"):
        return z3.Const(self.fresh_name(base), I)

    def fresh_bool(self, base="b"):
        return z3.Const(self.fresh_name(base), B)

    def fresh(self, base, sort):
        return z3.Const(self.fresh_name(base), sort)

    def declare_input(self, name: str, z):
        self.inputs[name] = z
        return z

    # -- heap --------------------------------------------------------------------
    def fld(self, name: str):
        """The SMT array of a scalar field (ref/int: Int->Int, bool: Int->Bool)."""
        if name not in self.heap:
            kind = self.vocab.field_kind(name)
            sort = A_IB if kind == "bool" else A_II
            self.heap[name] = z3.Const(f"H0.{name}", sort)
        return self.heap[name]

    def sel(self, name: str, ref):
        return z3.Select(self.fld(name), ref)

    def store(self, name: str, ref, val) -> None:
        self.heap[name] = z3.Store(self.fld(name), ref, val)

    def arr2(self, name: str, bool_elems=False):
        if name not in self.heap:
            self.heap[name] = z3.Const(f"H0.{name}", A_IAB if bool_elems else A_IAI)
        return self.heap[name]

    # sequence-valued fields (tuples stored in attributes)
    def seq_len(self, fname: str, ref):
        return z3.Select(self.fld(fname + "#len"), ref)

    def seq_arr(self, fname: str, ref):
        return z3.Select(self.arr2(fname + "#el"), ref)

    def seq_el(self, fname: str, ref, i):
        return z3.Select(self.seq_arr(fname, ref), i)

    def seq_store(self, fname: str, ref, arr, n) -> None:
        self.heap[fname + "#len"] = z3.Store(self.fld(fname + "#len"), ref, n)
        self.heap[fname + "#el"] = z3.Store(self.arr2(fname + "#el"), ref, arr)

    # list / dict / set objects
    def list_len(self, ref):
        return z3.Select(self.fld("list#len"), ref)

    def list_arr(self, ref):
        return z3.Select(self.arr2("list#el"), ref)

    def list_el(self, ref, i):
        return z3.Select(self.list_arr(ref), i)

    def list_store(self, ref, arr, n) -> None:
        self.heap["list#len"] = z3.Store(self.fld("list#len"), ref, n)
        self.heap["list#el"] = z3.Store(self.arr2("list#el"), ref, arr)

    def dict_dom(self, ref):
        return z3.Select(self.arr2("dict#dom", True), ref)

    def dict_vals(self, ref):
        return z3.Select(self.arr2("dict#val"), ref)

    def dict_has(self, ref, k):
        return z3.Select(self.dict_dom(ref), k)

    def dict_val(self, ref, k):
        return z3.Select(self.dict_vals(ref), k)

    def dict_store(self, ref, dom, vals) -> None:
        self.heap["dict#dom"] = z3.Store(self.arr2("dict#dom", True), ref, dom)
        self.heap["dict#val"] = z3.Store(self.arr2("dict#val"), ref, vals)

    def alloc(self):
        if "alloc" not in self.heap:
            self.heap["alloc"] = z3.Const("H0.alloc", A_IB)
        return self.heap["alloc"]

    def new_object(self, base="obj"):
        r = self.fresh_int(base)
        self.assume(z3.And(r > 0, z3.Not(z3.Select(self.alloc(), r))))
        self.heap["alloc"] = z3.Store(self.alloc(), r, z3.BoolVal(True))
        return r

    def assume_allocated(self, r) -> None:
        self.assume(z3.Or(r == 0, z3.Select(self.alloc(), r)))

    def havoc(self, names) -> None:
        for n in names:
            cur = self.heap.get(n)
            if cur is None:
                # force creation with the right sort, then replace
                if n.endswith("#el"):
                    cur = self.arr2(n)
                elif n == "dict#dom":
                    cur = self.arr2(n, True)
                elif n == "dict#val":
                    cur = self.arr2(n)
                elif n == "alloc":
                    cur = self.alloc()
                else:
                    cur = self.fld(n)
            self.heap[n] = z3.Const(self.fresh_name("H." + n), cur.sort())


class Vocab:
    """Field registry: which attribute names exist and what sort they have."""

    def __init__(self, fields: dict[str, str], getters: dict[str, Any] | None = None, classes=None):
        # kinds: 'ref', 'int', 'bool', 'seq:<ek>', 'list:<ek>', 'dict:<kk>:<vk>', 'set:<ek>'
        self.fields = dict(fields)
        self.getters = dict(getters or {})  # attr name -> ast.expr over `self`
        self.classes = classes or {}
        self.field_cls: dict[str, str] = {}

    def field_kind(self, name: str) -> str:
        if name.endswith("#len") or name in ("list#len",):
            return "int"
        if name not in self.fields:
            raise Unsupported(f"attribute `{name}` is not in the field vocabulary")
        return self.fields[name].split(":")[0]

    def has(self, name: str) -> bool:
        return name in self.fields
