"""Per-unit driver: symbolic execution -> obligations -> solver verdicts (picklable results)."""

from __future__ import annotations

import os
import struct
import subprocess
import tempfile
import time
import traceback

import z3

from . import solve

z3.Z3_toggle_warning_messages(False)  # rejected trigger patterns fall back to solver-chosen ones (contracts.common.forall)

from . import extract
from . import stmts as _stmts  # noqa: F401  (grafts statement methods onto Executor)
from .engine import Executor
from .values import Clause, Obligation, State, Unsupported


def build_obligations(spec, vocab, inst):
    """Symbolically execute the real body of ``spec`` and return (executor, obligations)."""
    fn = extract.find_function(spec.file, spec.qualname, spec.setter)
    ex = Executor(spec, vocab, inst)
    ex.fn_line = fn.lineno
    ex.register_loops(fn, "<main>")
    st = State(vocab)
    a = spec.setup(st, inst)
    ex.a = a
    ex.a_stack = [a]
    params = [p.arg for p in fn.args.posonlyargs + fn.args.args + fn.args.kwonlyargs]
    missing = [p for p in params if p not in a]
    if missing:
        raise Unsupported(f"parameters {missing} of {spec.qualname} have no symbolic value in the contract")
    extra = [k for k in a if k not in params and not k.startswith("_")]
    if extra:
        raise Unsupported(f"contract names parameters {extra} that {spec.qualname} does not have")
    for k, v in a.items():
        if not k.startswith("_"):
            st.env[k] = v
    for cl in spec.pre(st, a):
        st.assume(cl.z)
    ex.bindings = dict(spec.bind(st, a, inst) or {})
    # cover: the precondition is satisfiable (vacuity guard)
    ex.obligations.append(
        Obligation(f"{spec.prop}/{spec.short}/cover#pre", "cover", "aux", list(st.pc), z3.BoolVal(True), "", "sat")
    )
    old = st.snapshot()
    ex.old = old
    outs = ex.exec_block(extract.strip_docstring(fn.body), st)
    n_normal = 0
    for i, o in enumerate(outs):
        if o.kind in ("break", "continue"):
            raise Unsupported("break/continue outside loop")
        if o.kind in ("normal", "return"):
            n_normal += 1
            res = o.val if o.kind == "return" else None
            o.st.ghost.update(spec.ghost_update(old, o.st, a, res) or {})
            for cl in spec.post(old, o.st, a, res):
                if cl.tag == "lemma":
                    # auxiliary lemma: proved here, then assumed by the clauses that follow it
                    ex.oblige(o.st, "post", cl.name, cl.z, "aux")
                    o.st.assume(cl.z)
                else:
                    ex.oblige(o.st, "post", cl.name, cl.z, cl.tag)
            if n_normal <= 3:
                ex.obligations.append(
                    Obligation(f"{spec.prop}/{spec.short}/cover#exit{n_normal}", "cover", "aux", list(o.st.pc),
                               z3.BoolVal(True), "/".join(o.st.trace[-12:]), "sat")
                )
        else:
            cls = spec.post_exc(old, o.st, a, o.val)
            if cls is None:
                ex.oblige(o.st, "noraise", f"{o.val}", z3.BoolVal(False), "property")
            else:
                for cl in cls:
                    ex.oblige(o.st, "raises", f"{o.val}:{cl.name}", cl.z, cl.tag)
    ex.n_outcomes = len(outs)
    ex.n_normal = n_normal
    return ex, st.inputs


# ------------------------------------------------------------------------------ solving
def fp_to_float(v):
    if z3.is_fp_value(v) or z3.is_fp(v):
        try:
            if v.isNaN():
                return float("nan")
            if v.isInf():
                return float("-inf") if v.isNegative() else float("inf")
            bv = z3.simplify(z3.fpToIEEEBV(v))
            return struct.unpack(">d", bv.as_long().to_bytes(8, "big"))[0]
        except Exception:
            return str(v)
    return str(v)


def model_value(m, z):
    v = m.eval(z, model_completion=True)
    if z3.is_int_value(v):
        return v.as_long()
    if z3.is_true(v):
        return True
    if z3.is_false(v):
        return False
    if z3.is_fp(v):
        return fp_to_float(v)
    if z3.is_bv_value(v):
        return v.as_long()
    return str(v)


def run_cvc5(smt2: str, timeout_s: float) -> str:
    """cvc5 CLI on an SMT-LIB2 dump of the query; returns 'unsat' | 'sat' | 'unknown'."""
    exe = "/usr/bin/cvc5"
    if not os.path.exists(exe):
        return "unknown"
    with tempfile.NamedTemporaryFile("w", suffix=".smt2", delete=False, dir=os.environ.get("VERIF_SCRATCH", "/var/tmp")) as f:
        f.write("(set-logic ALL)\n" + smt2)
        path = f.name
    try:
        p = subprocess.run([exe, f"--tlimit={int(timeout_s * 1000)}", path], capture_output=True, text=True,
                           timeout=timeout_s + 5)
        out = p.stdout.strip().splitlines()
        r = out[0].strip() if out else "unknown"
        return r if r in ("sat", "unsat") else "unknown"
    except Exception:
        return "unknown"
    finally:
        try:
            os.unlink(path)
        except OSError:
            pass


def discharge(ob: Obligation, inputs, timeout_ms: int, use_cvc5: bool, both: bool = False):
    t0 = time.time()
    s = z3.Solver()
    s.set("timeout", timeout_ms)
    if ob.expect == "sat":
        # cover check: quantified lemmas (arithmetic axioms) are left out so that `sat` is decidable;
        # they are mathematical facts validated natively, not a source of vacuity
        s.set("timeout", min(timeout_ms, 5000))
        for c in ob.assumptions:
            if not z3.is_quantifier(c):
                s.add(c)
    else:
        for c in ob.assumptions:
            s.add(c)
    if ob.expect == "sat":
        r = solve.check(s, min(timeout_ms, 5000) / 1000.0 * 2 + 5)
        status = {"sat": "covered", "unsat": "vacuous", "unknown": "cover-unknown"}[str(r)]
        return {"status": status, "backend": "z3", "time": time.time() - t0, "model": None}
    s.add(z3.Not(ob.goal))
    hard = timeout_ms / 1000.0 * 2 + 5
    r = solve.check(s, hard)
    if r == z3.unknown:
        # quantified queries are sensitive to the solver's random choices: two more attempts with other seeds
        for seed in (7, 23):
            s2 = z3.Solver()
            s2.set("timeout", timeout_ms)
            s2.set("random_seed", seed)
            s2.set("smt.random_seed", seed)
            for c in ob.assumptions:
                s2.add(c)
            s2.add(z3.Not(ob.goal))
            r2 = solve.check(s2, hard)
            if r2 != z3.unknown:
                s, r = s2, r2
                break
    backend = "z3"
    model = None
    status = {"unsat": "proved", "sat": "refuted", "unknown": "unknown"}[str(r)]
    if r == z3.sat:
        m = s.model()
        model = {k: model_value(m, z) for k, z in inputs.items()}
    if (r == z3.unknown and use_cvc5) or (both and r != z3.unknown):
        c = run_cvc5(s.to_smt2(), timeout_ms / 1000.0)
        if r == z3.unknown:
            if c == "unsat":
                status, backend = "proved", "cvc5"
            elif c == "sat":
                status, backend = "refuted", "cvc5"
        else:
            if c != "unknown" and (c == "unsat") != (r == z3.unsat):
                status = "disagree"
            elif c != "unknown":
                backend = "z3+cvc5"
    return {"status": status, "backend": backend, "time": time.time() - t0, "model": model}


def _recheck_outside_known(ob, inputs, k, r, tmo):
    """
    A refuted obligation matches a known finding.  If the finding names the failing input
    class (`except=`), the obligation is re-posed *outside* that class: proved there -> only
    the known inputs fail (status 'known'); refuted there -> a different violation, reported.
    """
    if k["except"] is None:
        r = dict(r, status="known", known_key=k["key"], known_what=k["what"])
        return r
    ns = {n: getattr(z3, n) for n in ("And", "Or", "Not", "If", "fpIsNaN", "fpIsZero", "fpIsNegative", "fpIsInf")}
    ns.update(inputs)
    cls = eval(k["except"], {"__builtins__": {}}, ns)
    ob2 = Obligation(ob.oid, ob.kind, ob.tag, list(ob.assumptions) + [z3.Not(cls)], ob.goal, ob.path)
    r2 = discharge(ob2, inputs, tmo, True)
    if r2["status"] == "proved":
        return dict(r, status="known", known_key=k["key"], known_what=k["what"])
    r2.update({"oid": ob.oid, "kind": ob.kind, "tag": ob.tag, "path": ob.path, "goal": str(ob.goal)[:300],
               "outside_known_finding": k["key"]})
    return r2


def verify_unit(job):
    """Worker entry (must be picklable in and out): job = (contract module, spec index, instance, opts)."""
    modname, idx, inst, opts = job
    import importlib

    mod = importlib.import_module(modname)
    spec = mod.SPECS[idx]
    vocab = mod.VOCAB
    t0 = time.time()
    _trace = os.environ.get("VERIF_TRACE_UNITS")
    if _trace:
        with open(_trace, "a") as fh:
            fh.write(f"START {os.getpid()} {spec.short} {inst}\n")
    base = {
        "unit": spec.short,
        "file": spec.file,
        "qualname": spec.qualname,
        "inst": inst,
        "prop": spec.prop,
        "results": [],
        "error": None,
        "unsupported": None,
    }
    try:
        fn = extract.find_function(spec.file, spec.qualname, spec.setter)
        base["source_hash"] = extract.source_hash(fn)
        ex, inputs = build_obligations(spec, vocab, inst)
    except Unsupported as e:
        base["unsupported"] = str(e)
        base["wall"] = time.time() - t0
        return base
    except extract.ExtractionError as e:
        base["unsupported"] = "extraction: " + str(e)
        base["wall"] = time.time() - t0
        return base
    except Exception:
        base["error"] = traceback.format_exc()
        base["wall"] = time.time() - t0
        return base
    base["symex_s"] = time.time() - t0
    base["inlined"] = sorted(ex.inlined)
    base["callee_contracts"] = sorted(ex.used_contracts)
    base["bindings"] = sorted(ex.bindings.keys())
    base["paths"] = ex.n_outcomes
    base["normal_paths"] = ex.n_normal
    tmo = int(opts.get("timeout_ms", 10000) * getattr(spec, "timeout_factor", 1))  # units with heavy quantified invariants ask for a longer budget
    for ob in ex.obligations:
        try:
            r = discharge(ob, inputs, tmo, opts.get("cvc5", True), opts.get("both", False))
        except Exception:
            r = {"status": "error", "backend": "z3", "time": 0.0, "model": None, "error": traceback.format_exc()}
        r.update({"oid": ob.oid, "kind": ob.kind, "tag": ob.tag, "path": ob.path, "goal": str(ob.goal)[:300]})
        if r["status"] in ("refuted", "unknown") and opts.get("known"):
            from .driver import match_known

            k = match_known(opts["known"], ob.oid, inst)
            if k is not None and (r["status"] == "refuted" or k["except"] is None):
                # (an `unknown` on an obligation instance that is wholly listed as failing stays listed)
                r = _recheck_outside_known(ob, inputs, k, r, tmo)
        if r["status"] == "refuted" and opts.get("keep_smt", True):
            s = z3.Solver()
            for c in ob.assumptions:
                s.add(c)
            s.add(z3.Not(ob.goal))
            r["smt2_size"] = len(s.to_smt2())
        base["results"].append(r)
    # vacuity probe for contexts with quantified assumptions (which the cover checks leave out): per path, the richest assumption
    # set must NOT prove False.  `unsat` = contradictory contract/invariant/assumed callee contract -> every proof on that path is void.
    probes = {}
    for ob in ex.obligations:
        if ob.expect == "sat" or not any(z3.is_quantifier(c) for c in ob.assumptions):
            continue
        cur = probes.get(ob.path)
        if cur is None or len(ob.assumptions) > len(cur.assumptions):
            probes[ob.path] = ob
    for path, ob in probes.items():
        sv = z3.Solver()
        sv.set("timeout", int(opts.get("probe_ms", 1500)))
        for c in ob.assumptions:
            sv.add(c)
        tp = time.time()
        rv = str(solve.check(sv, 10))
        base["results"].append({"status": "vacuous" if rv == "unsat" else "covered", "backend": "z3", "time": time.time() - tp, "model": None,
                                "oid": f"{spec.prop}/{spec.short}/cover#no-contradiction", "kind": "cover", "tag": "aux", "path": path,
                                "goal": "the assumptions of this path (preconditions, invariants, callee contracts, axioms) do not prove False"})
    base["wall"] = time.time() - t0
    if _trace:
        with open(_trace, "a") as fh:
            fh.write(f"END {os.getpid()} {spec.short} {inst} {base['wall']:.1f}\n")
    return base
