"""Solver calls with a hard wall-clock stop.

z3's `timeout` parameter is a soft limit: some phases (preprocessing of large non-linear or quantified goals) do not poll it, and a query
has been seen to run for an hour when all cores were busy.  Every check goes through `check()`, which arms a watchdog that calls
Z3_interrupt (thread-safe by design) after `hard_s` seconds; an interrupted query is `unknown`, never a verdict.
"""

from __future__ import annotations

import threading

import z3


def check(s: z3.Solver, hard_s: float, *assumptions):
    timer = threading.Timer(hard_s, s.ctx.interrupt)
    timer.daemon = True
    timer.start()
    try:
        return s.check(*assumptions)
    except z3.Z3Exception:
        return z3.unknown
    finally:
        timer.cancel()
