"""Statement execution (mixed into Executor) and the per-unit driver ``run_unit``."""

from __future__ import annotations

import ast
import re

import z3

from . import arith, extract
from .calls import _bind_target, iter_items_concrete, iter_symbolic
from .engine import Executor, Out, Res
from .values import (
    Clause,
    State,
    Unsupported,
    VBool,
    VGlobal,
    VInt,
    VItState,
    VRef,
    VSeq,
    VTuple,
    lift_int,
    z_int,
)


def assigned_names(stmts) -> set[str]:
    names = set()
    for s in stmts:
        for n in ast.walk(s):
            if isinstance(n, ast.Name) and isinstance(n.ctx, (ast.Store, ast.Del)):
                names.add(n.id)
    return names


def mutated_receivers(stmts) -> set[str]:
    """Local names that are receivers of an in-place mutating method call (x.append(...), x.extend(...), ...)."""
    names = set()
    for s in stmts:
        for n in ast.walk(s):
            if (isinstance(n, ast.Call) and isinstance(n.func, ast.Attribute) and isinstance(n.func.value, ast.Name)
                    and n.func.attr in ("append", "extend", "pop", "insert", "remove", "clear", "add", "discard", "update", "setdefault", "sort", "reverse")):
                names.add(n.func.value.id)
            if isinstance(n, ast.Call) and isinstance(n.func, ast.Name) and n.func.id == "next" and n.args and isinstance(n.args[0], ast.Name):
                names.add(n.args[0].id)
    return names


class Stmts:
    # bookkeeping -----------------------------------------------------------------
    def local_calls(self):
        return getattr(self, "_local_calls", {})

    def note_inlined(self, h):
        self.inlined.add(f"{h.file}::{h.qualname}")

    def note_contract(self, c):
        self.used_contracts.add(c.key + (" [trusted]" if c.trusted else ""))

    def next_call(self):
        self.n_call += 1
        return self.n_call

    # blocks ----------------------------------------------------------------------
    def exec_block(self, stmts, st: State) -> list[Out]:
        outs: list[Out] = []
        cur = [st]
        for s in stmts:
            nxt = []
            for c in cur:
                for o in self.exec_stmt(s, c):
                    if o.kind == "normal":
                        nxt.append(o.st)
                    else:
                        outs.append(o)
            cur = nxt
            if len(cur) + len(outs) > self.MAX_PATHS:
                raise Unsupported("path explosion")
            if not cur:
                break
        outs += [Out("normal", c) for c in cur]
        return outs

    def exec_stmt(self, s: ast.stmt, st: State) -> list[Out]:
        m = getattr(self, "s_" + type(s).__name__, None)
        if m is None:
            raise Unsupported(f"statement {type(s).__name__}")
        return m(s, st)

    def _vals(self, rs: list[Res], outs: list[Out]):
        for r in rs:
            if r.kind == "raise":
                outs.append(Out("raise", r.st, r.val))
            else:
                yield r

    # simple statements --------------------------------------------------------------
    def s_Pass(self, s, st):
        return [Out("normal", st)]

    def s_Expr(self, s, st):
        if isinstance(s.value, ast.Constant):
            return [Out("normal", st)]
        outs: list[Out] = []
        for r in self._vals(self.eval(s.value, st), outs):
            outs.append(Out("normal", r.st))
        return outs

    def s_Return(self, s, st):
        if s.value is None:
            return [Out("return", st, None)]
        outs: list[Out] = []
        for r in self._vals(self.eval(s.value, st), outs):
            outs.append(Out("return", r.st, r.val))
        return outs

    def s_Raise(self, s, st):
        exc = "Exception"
        if s.exc is not None:
            e = s.exc
            if isinstance(e, ast.Call):
                e = e.func
            exc = ast.unparse(e).split(".")[-1]
        elif self.handling:
            exc = self.handling[-1]
        st.trace.append(f"raise {exc}")
        return [Out("raise", st, exc)]

    def s_Break(self, s, st):
        return [Out("break", st)]

    def s_Continue(self, s, st):
        return [Out("continue", st)]

    def s_Assert(self, s, st):
        outs: list[Out] = []
        for r in self._vals(self.eval(s.test, st), outs):
            t = self.truthy(r.val, r.st)
            if self.spec.asserts == "raise" or self.inline_depth > 0 and self.spec.asserts == "raise-inlined":
                for taken, bs in self.split(r.st, t):
                    if taken:
                        outs.append(Out("normal", bs))
                    else:
                        bs.trace.append("AssertionError")
                        outs.append(Out("raise", bs, "AssertionError"))
            else:
                self.n_assert += 1
                tz = z3.BoolVal(t) if isinstance(t, bool) else t
                self.oblige(r.st, "assert", f"{self.n_assert}:{ast.unparse(s.test)[:50]}", tz, "aux")
                r.st.assume(tz)
                outs.append(Out("normal", r.st))
        return outs

    def s_AnnAssign(self, s, st):
        if s.value is None:
            return [Out("normal", st)]
        ann = ast.unparse(s.annotation).replace(" ", "")
        m = re.match(r"^dict\[(\w+),(set|list|dict)\[.*\]\]$", ann)
        if m and isinstance(s.value, ast.Dict) and not s.value.keys and isinstance(s.target, ast.Name):
            # `x: dict[K, set[V]] = {}`: the annotation types the values as containers (so that x[k].add(...) / iteration / truthiness are modelled)
            outs = []
            for o in self._assign([s.target], s.value, st):
                if o.kind == "normal":
                    v = o.st.env.get(s.target.id)
                    if isinstance(v, VRef) and v.kinds and v.kinds[0] == "dict":
                        o.st.env[s.target.id] = VRef(v.z, v.cls, ("dict", "ref", "ref", m.group(2)))
                outs.append(o)
            return outs
        return self._assign([s.target], s.value, st)

    def s_Assign(self, s, st):
        return self._assign(s.targets, s.value, st)

    def _assign(self, targets, value, st):
        outs: list[Out] = []
        for r in self._vals(self.eval(value, st), outs):
            cur = [r.st]
            for t in targets:
                nxt = []
                for c in cur:
                    for o in self.assign_target(t, r.val, c):
                        if o.kind == "normal":
                            nxt.append(o.st)
                        else:
                            outs.append(o)
                cur = nxt
            outs += [Out("normal", c) for c in cur]
        return outs

    def assign_target(self, t, val, st) -> list[Out]:
        if isinstance(t, ast.Name):
            st.env[t.id] = val
            return [Out("normal", st)]
        if isinstance(t, (ast.Tuple, ast.List)) and isinstance(val, VSeq) and sum(isinstance(x, ast.Starred) for x in t.elts) == 1 \
                and isinstance(t.elts[-1], ast.Starred):
            # `a, b, *rest = seq` on a sequence of symbolic length: ValueError if too short, else the leading elements and the remaining sequence (a list)
            lead = len(t.elts) - 1
            outs = []
            for enough, bs in self.split(st, val.n >= lead):
                if not enough:
                    outs.append(Out("raise", bs, "ValueError"))
                    continue
                cur = [bs]
                for i, te in enumerate(t.elts[:-1]):
                    nxt = []
                    for c in cur:
                        for o in self.assign_target(te, self._elem(z3.Select(val.arr, i), val.ek, val.ecls, c), c):
                            (nxt if o.kind == "normal" else outs).append(o.st if o.kind == "normal" else o)
                    cur = nxt
                j = z3.Int("star!j")
                rest = VSeq(z3.Lambda([j], z3.Select(val.arr, j + lead)), z3.simplify(val.n - lead), val.ek, val.ecls)
                for c in cur:
                    outs += self.assign_target(t.elts[-1].value, rest, c)
            return outs
        if isinstance(t, (ast.Tuple, ast.List)):
            if isinstance(val, VSeq):
                n = z3.simplify(val.n)
                if z3.is_int_value(n) and n.as_long() == len(t.elts):
                    val = VTuple([self._elem(z3.Select(val.arr, i), val.ek, val.ecls, st) for i in range(len(t.elts))])
            if not isinstance(val, VTuple) or len(val.items) != len(t.elts):
                raise Unsupported("tuple unpacking of a non-tuple / wrong length")
            outs = []
            cur = [st]
            for te, v in zip(t.elts, val.items):
                nxt = []
                for c in cur:
                    for o in self.assign_target(te, v, c):
                        (nxt if o.kind == "normal" else outs).append(o.st if o.kind == "normal" else o)
                cur = nxt
            return outs + [Out("normal", c) for c in cur]
        if isinstance(t, ast.Attribute):
            outs: list[Out] = []
            for r in self._vals(self.eval(t.value, st), outs):
                base = r.val
                text = ast.unparse(t)
                setters = self.spec.globals.get("__setters__", {})
                if t.attr in setters:
                    from .calls import apply_handler

                    for rr in apply_handler(self, setters[t.attr], [base, val], {}, r.st, text + "="):
                        outs.append(Out("raise", rr.st, rr.val) if rr.kind == "raise" else Out("normal", rr.st))
                    continue
                if not isinstance(base, VRef):
                    raise Unsupported(f"attribute store on {base!r}")
                if not self.vocab.has(t.attr):
                    raise Unsupported(f"store to attribute `{t.attr}` outside the field vocabulary")
                for isnull, bs in self.split(r.st, base.z == 0):
                    if isnull:
                        outs.append(Out("raise", bs, "AttributeError"))
                    else:
                        self.write_field(base, t.attr, val, bs)
                        self.written.add(t.attr)
                        outs.append(Out("normal", bs))
            return outs
        if isinstance(t, ast.Subscript):
            outs = []
            acc, raises = self.eval_many([t.value, t.slice], st)
            outs += [Out("raise", r.st, r.val) for r in raises]
            for (base, idx), s2 in acc:
                outs += self.store_subscript(base, idx, val, s2, ast.unparse(t))
            return outs
        raise Unsupported(f"assignment target {type(t).__name__}")

    def store_subscript(self, base, idx, val, st, text) -> list[Out]:
        if isinstance(base, VRef) and base.kinds:
            k = base.kinds[0]
            r = base.z
            if k == "list":
                n = st.list_len(r)
                i = z_int(idx)
                j = z3.simplify(z3.If(i < 0, i + n, i))
                outs = []
                for ok, bs in self.split(st, z3.And(j >= 0, j < n)):
                    if ok:
                        bs.list_store(r, z3.Store(bs.list_arr(r), j, z_int(val)), bs.list_len(r))
                        outs.append(Out("normal", bs))
                    else:
                        bs.trace.append("IndexError")
                        outs.append(Out("raise", bs, "IndexError"))
                return outs
            if k == "dict":
                key = z_int(idx)
                st.dict_store(r, z3.Store(st.dict_dom(r), key, z3.BoolVal(True)), z3.Store(st.dict_vals(r), key, z_int(val)))
                return [Out("normal", st)]
        h = self.spec.globals.get("__setitem__")
        if h is not None:
            r = h(self, st, base, idx, val)
            if r is not None:
                return [Out("raise", x.st, x.val) if x.kind == "raise" else Out("normal", x.st) for x in r]
        raise Unsupported(f"subscript store on {base!r} ({text})")

    def s_AugAssign(self, s, st):
        load = ast.copy_location(_as_load(s.target), s.target)
        binop = ast.BinOp(left=load, op=s.op, right=s.value)
        return self._assign([s.target], binop, st)

    def s_Delete(self, s, st):
        outs: list[Out] = []
        cur = [st]
        for t in s.targets:
            nxt = []
            for c in cur:
                if isinstance(t, ast.Name):
                    c.env.pop(t.id, None)
                    nxt.append(c)
                    continue
                if not isinstance(t, ast.Subscript):
                    raise Unsupported("del of non-subscript")
                acc, raises = self.eval_many([t.value, t.slice], c)
                outs += [Out("raise", r.st, r.val) for r in raises]
                for (base, idx), s2 in acc:
                    if isinstance(base, VRef) and base.kinds and base.kinds[0] == "dict":
                        key = z_int(idx)
                        for has, bs in self.split(s2, s2.dict_has(base.z, key)):
                            if has:
                                bs.dict_store(base.z, z3.Store(bs.dict_dom(base.z), key, z3.BoolVal(False)), bs.dict_vals(base.z))
                                nxt.append(bs)
                            else:
                                bs.trace.append("KeyError")
                                outs.append(Out("raise", bs, "KeyError"))
                    else:
                        raise Unsupported(f"del on {base!r}")
            cur = nxt
        return outs + [Out("normal", c) for c in cur]

    # control flow ---------------------------------------------------------------------
    def s_If(self, s, st):
        outs: list[Out] = []
        for r in self._vals(self.eval(s.test, st), outs):
            for taken, bs in self.split(r.st, self.truthy(r.val, r.st)):
                bs.trace.append(f"L{s.lineno - self.fn_line}{'T' if taken else 'F'}")
                outs += self.exec_block(s.body if taken else s.orelse, bs)
        return outs

    def s_Match(self, s, st):
        outs: list[Out] = []
        for r in self._vals(self.eval(s.subject, st), outs):
            cur = r.st
            done = False
            for case in s.cases:
                cond = self.match_pattern(case.pattern, r.val, cur)
                if case.guard is not None:
                    # `case P if G`: the guard is evaluated (side-effect free, single outcome) with the captures of P bound
                    gs = self.eval(case.guard, cur)
                    if len(gs) != 1 or gs[0].kind != "val" or gs[0].st is not cur:
                        self.pure_mode = True
                        try:
                            gs = self.eval(case.guard, cur)
                        finally:
                            self.pure_mode = False
                        if len(gs) != 1 or gs[0].kind != "val":
                            raise Unsupported("match guard with several outcomes")
                    g = self.truthy(gs[0].val, cur)
                    c0 = z3.BoolVal(cond) if isinstance(cond, bool) else cond
                    cond = z3.simplify(z3.And(c0, z3.BoolVal(g) if isinstance(g, bool) else g))
                nxt = None
                for taken, bs in self.split(cur, cond):
                    if taken:
                        bs.trace.append(f"case@{case.pattern.lineno - self.fn_line}")
                        outs += self.exec_block(case.body, bs)
                    else:
                        nxt = bs
                if nxt is None:
                    done = True
                    break
                cur = nxt
            if not done:
                outs.append(Out("normal", cur))
        return outs

    def match_pattern(self, p, subj, st):
        if isinstance(p, ast.MatchValue):
            rs = self.eval(p.value, st)
            c = arith.equal(subj, rs[0].val)
            return c if isinstance(c, bool) else c.z
        if isinstance(p, ast.MatchSingleton):
            c = arith.identical(subj, p.value)
            return c if isinstance(c, bool) else c.z
        if isinstance(p, ast.MatchAs) and p.pattern is None:
            if p.name is not None:
                st.env[p.name] = subj
            return True
        if isinstance(p, ast.MatchClass):
            from .calls import b_isinstance

            rs = self.eval(p.cls, st)
            r = b_isinstance(self, st, [subj, rs[0].val], {})[0].val
            cond = z3.BoolVal(r) if isinstance(r, bool) else r.z
            if not p.patterns and not p.kwd_patterns:
                return r if isinstance(r, bool) else r.z
            # Class(pos..., attr=pattern...): positional sub-patterns go through the class's __match_args__ (given by the contract)
            attrs = list(p.kwd_attrs)
            subs = list(p.kwd_patterns)
            if p.patterns:
                margs = self.spec.globals.get("__match_args__", {}).get(ast.unparse(p.cls))
                if margs is None or len(p.patterns) > len(margs):
                    raise Unsupported(f"positional class pattern {ast.unparse(p.cls)} without __match_args__ in the contract")
                attrs = list(margs[: len(p.patterns)]) + attrs
                subs = list(p.patterns) + subs
            for attr, sub in zip(attrs, subs):
                vs = self.getattr(subj, attr, st, f"<match>.{attr}")
                if len(vs) != 1 or vs[0].kind != "val":
                    raise Unsupported("attribute of a matched object is not a plain value")
                c = self.match_pattern(sub, vs[0].val, st)
                cond = z3.And(cond, z3.BoolVal(c) if isinstance(c, bool) else c)
            return z3.simplify(cond)
        if isinstance(p, ast.MatchOr):
            cs = [self.match_pattern(q, subj, st) for q in p.patterns]
            cs = [z3.BoolVal(c) if isinstance(c, bool) else c for c in cs]
            return z3.simplify(z3.Or(*cs))
        raise Unsupported(f"match pattern {type(p).__name__}")

    # loops ------------------------------------------------------------------------------
    def s_While(self, s, st):
        if s.orelse:
            raise Unsupported("while/else")
        n = self.loop_ordinal(s)
        bound = getattr(self.cur_spec(), "unroll", {}).get(n)
        if bound is not None:
            return self._while_unrolled(s, st, bound, n)
        return self._loop(n, s, st, kind="while")

    def _while_unrolled(self, s, st, bound, n):
        """
        Complete unrolling: the loop is executed iteration by iteration; it is accepted only if EVERY path has left the loop within `bound`
        iterations (then no invariant is needed and nothing is cut); otherwise the unit is UNDECIDED.
        """
        outs: list[Out] = []
        cur = [st]
        for _ in range(bound + 1):
            nxt = []
            for c in cur:
                for r in self._vals(self.eval(s.test, c), outs):
                    for taken, bs in self.split(r.st, self.truthy(r.val, r.st)):
                        if not taken:
                            outs.append(Out("normal", bs))
                            continue
                        for o in self.exec_block(s.body, bs):
                            if o.kind in ("normal", "continue"):
                                nxt.append(o.st)
                            elif o.kind == "break":
                                outs.append(Out("normal", o.st))
                            else:
                                outs.append(o)
            cur = nxt
            if not cur:
                return outs
        raise Unsupported(f"loop #{n} did not terminate on every path within the declared unrolling bound {bound}")

    def s_For(self, s, st):
        if s.orelse:
            raise Unsupported("for/else")
        outs: list[Out] = []
        for r in self._vals(self.eval(s.iter, st), outs):
            itv = r.val
            if isinstance(itv, VRef) and itv.cls in self.spec.globals.get("__iterables__", {}):
                itv = self.spec.globals["__iterables__"][itv.cls](self, r.st, itv)
            items = iter_items_concrete(self, itv, r.st)
            if items is not None and len(items) <= 8:
                outs += self._for_unrolled(s, items, r.st)
                continue
            n = self.loop_ordinal(s)
            outs += self._loop(n, s, r.st, kind="for", itv=itv)
        return outs

    def _for_unrolled(self, s, items, st):
        outs = []
        cur = [st]
        for it in items:
            nxt = []
            for c in cur:
                for o0 in self.assign_target(s.target, it, c):
                    if o0.kind != "normal":
                        outs.append(o0)
                        continue
                    for o in self.exec_block(s.body, o0.st):
                        if o.kind in ("normal", "continue"):
                            nxt.append(o.st)
                        elif o.kind == "break":
                            outs.append(Out("normal", o.st))
                        else:
                            outs.append(o)
            cur = nxt
        return outs + [Out("normal", c) for c in cur]

    def _inv(self, spec, n, entry, st, lv):
        """The contract's invariant for loop #n; an invariant that names a local the code no longer has cannot be applied (UNDECIDED, not a crash)."""
        lv = dict(lv, outer=dict(getattr(self, "_loop_ks", {})))  # counters of the enclosing cut loops: {loop ordinal: k}
        try:
            return spec.inv(n, entry, st, self.a_stack[-1], lv)
        except KeyError as e:
            raise Unsupported(f"the invariant of loop #{n} of {spec.qualname} refers to {e}, which the code no longer defines") from e

    def _loop(self, n, s, st, kind, itv=None):
        """Cut the loop at its invariant: init, havoc, assume, one arbitrary iteration, exit."""
        spec = self.cur_spec()
        lv: dict = {}
        k = None
        if kind == "for":
            elem_of, length = iter_symbolic(self, itv, st)
            k0 = z3.IntVal(0)
            lv = {"k": k0, "n": length, "iter": itv, "elem": elem_of}
        entry = st.snapshot()
        inv0 = self._inv(spec, n, entry, st, dict(lv, env=st.env))
        if inv0 is None:
            raise Unsupported(f"loop #{n} of {spec.qualname} has no invariant in the contract file")
        for cl in inv0:
            self.oblige(st, "inv-init", f"{n}:{cl.name}", cl.z, cl.tag)
        # havoc: assigned locals + heap written in the body (syntactic write set + callee frames)
        body_names = assigned_names(s.body) | (assigned_names([s.target]) if kind == "for" else set())
        if kind == "while":
            body_names |= assigned_names([ast.Expr(s.test)])
        # lists held BY VALUE in a local name (list displays / comprehension results) are rebound by x.append(...): they change in the loop too
        body_names |= {nm for nm in mutated_receivers(s.body) if isinstance(st.env.get(nm), (VTuple, VSeq, VItState))}
        h = st.fork()
        for name in body_names:
            if name in h.env:
                h.env[name] = self.havoc_value(h.env[name], h, name)
        wr = self.write_set(s.body + ([ast.Expr(s.test)] if kind == "while" else []))
        h.havoc(sorted(wr[0]))
        if getattr(spec, "loop_alloc", False):
            # opt-in: objects allocated by earlier iterations stay allocated (the allocation map only grows), so an object created in this
            # iteration is distinct from every object the invariant says is allocated
            a0 = h.alloc()
            h.havoc(["alloc"])
            o_ = z3.Int("la!o")
            h.assume(z3.ForAll([o_], z3.Implies(z3.Select(a0, o_), z3.Select(h.alloc(), o_))))
        for g in set(wr[1]) | set(getattr(spec, "loop_ghosts", ())):
            if g in h.ghost:
                h.ghost[g] = h.fresh("G." + g, h.ghost[g].sort())
        if kind == "for":
            k = h.fresh_int(f"k{n}")
            h.assume(z3.And(k >= 0, k <= length))
            lv = {"k": k, "n": length, "iter": itv, "elem": elem_of}
        for cl in self._inv(spec, n, entry, h, dict(lv, env=h.env)):
            h.assume(cl.z)
        outs: list[Out] = []
        # --- one arbitrary iteration -------------------------------------------------
        if kind == "while":
            pairs = []
            for r in self._vals(self.eval(s.test, h.fork()), outs):
                for taken, bs in self.split(r.st, self.truthy(r.val, r.st)):
                    pairs.append((taken, bs))
        else:
            pairs = self.split(h.fork(), k < length)
        for taken, bs in pairs:
            if not taken:
                bs.trace.append(f"loop{n}-exit")
                if kind == "for":
                    bs.assume(k == length)
                outs.append(Out("normal", bs))
                continue
            bs.trace.append(f"loop{n}-iter")
            starts = [bs]
            if kind == "for":
                starts = []
                for o0 in self.assign_target(s.target, elem_of(k, bs), bs):
                    if o0.kind == "normal":
                        starts.append(o0.st)
                    else:
                        outs.append(o0)
            for b0 in starts:
                if not hasattr(self, "_loop_ks"):
                    self._loop_ks = {}
                if kind == "for":
                    self._loop_ks[n] = k
                try:
                    body_outs = self.exec_block(s.body, b0)
                finally:
                    self._loop_ks.pop(n, None)
                for o in body_outs:
                    if o.kind in ("normal", "continue"):
                        lv2 = dict(lv)
                        if kind == "for":
                            lv2["k"] = k + 1
                        for cl in self._inv(spec, n, entry, o.st, dict(lv2, env=o.st.env)):
                            if cl.tag == "lemma":
                                # auxiliary invariant clause: proved here, then available to the clauses that follow it
                                self.oblige(o.st, "inv-pres", f"{n}:{cl.name}", cl.z, "aux")
                                o.st.assume(cl.z)
                            else:
                                self.oblige(o.st, "inv-pres", f"{n}:{cl.name}", cl.z, cl.tag)
                        # path ends here (the invariant carries everything past the loop)
                    elif o.kind == "break":
                        outs.append(Out("normal", o.st))
                    else:
                        outs.append(o)
        return outs

    def havoc_value(self, v, st, name):
        if isinstance(v, VRef):
            r = VRef(st.fresh_int("hv." + name), v.cls, v.kinds)
            st.assume_allocated(r.z)
            return r
        if isinstance(v, (VInt, int)) and not isinstance(v, bool):
            return VInt(st.fresh_int("hv." + name))
        if isinstance(v, (VBool, bool)):
            return VBool(st.fresh_bool("hv." + name))
        if v is None:
            # a local that starts as None and is reassigned in the loop: the contract must type it
            t = self.spec.globals.get("__local_types__", {}).get(name)
            if t is not None:
                return t(st)
            raise Unsupported(f"cannot havoc local `{name}` initialised to None (give it a type in the contract)")
        if isinstance(v, VSeq):
            return VSeq(st.fresh("hv." + name, v.arr.sort()), st.fresh_int("hv.n." + name), v.ek, v.ecls)
        if isinstance(v, VItState):
            p = st.fresh_int("hv.pos." + name)
            st.assume(z3.And(p >= 0, p <= v.seq.n))
            return VItState(v.seq, p)
        if isinstance(v, VTuple) and v.is_list:
            # a local list (held by value) that the loop appends to: arbitrary contents, non-negative length
            n = st.fresh_int("hv.n." + name)
            st.assume(n >= 0)
            return VSeq(st.fresh("hv." + name, z3.ArraySort(z3.IntSort(), z3.IntSort())), n, "ref", None)
        raise Unsupported(f"cannot havoc local `{name}` of kind {type(v).__name__}")

    def write_set(self, stmts):
        """Syntactic write set of a statement list: (heap array names, ghost names)."""
        heap: set[str] = set()
        ghost: set[str] = set()
        for s in stmts:
            for node in ast.walk(s):
                if isinstance(node, ast.Attribute) and isinstance(node.ctx, (ast.Store, ast.Del)):
                    self._wr_field(node.attr, heap)
                    setters = self.spec.globals.get("__setters__", {})
                    if node.attr in setters:
                        self._wr_handler(setters[node.attr], heap, ghost)
                elif isinstance(node, ast.Subscript) and isinstance(node.ctx, (ast.Store, ast.Del)):
                    heap.update(["list#len", "list#el", "dict#dom", "dict#val"])
                    h = self.spec.globals.get("__setitem_frame__")
                    if h:
                        self._wr_handler(h, heap, ghost)
                elif isinstance(node, ast.Call):
                    text = ast.unparse(node.func)
                    h = None
                    for table in (self.local_calls(), self.cur_spec().calls, self.cur_spec().inline,
                                  self.spec.calls, self.spec.inline):
                        if text in table:
                            h = table[text]
                            break
                        if isinstance(node.func, ast.Attribute) and "." + node.func.attr in table:
                            h = table["." + node.func.attr]
                            break
                    if h is not None:
                        self._wr_handler(h, heap, ghost)
                    elif isinstance(node.func, ast.Attribute) and node.func.attr in (
                        "append", "pop", "clear", "add", "discard", "remove", "insert", "extend", "update", "setdefault",
                    ):
                        heap.update(["list#len", "list#el", "dict#dom", "dict#val"])
        return heap, ghost

    def _wr_field(self, attr, heap):
        if not self.vocab.has(attr):
            return
        if self.vocab.fields[attr].startswith("seq"):
            heap.update([attr + "#len", attr + "#el"])
        else:
            heap.add(attr)

    def _wr_handler(self, h, heap, ghost, depth=0):
        from .spec import Builtin, Inline, Spec

        if isinstance(h, Spec):
            heap.update(h.modifies)
            ghost.update(h.ghost_modifies)
        elif isinstance(h, Inline) and depth < 6:
            fn = extract.find_function(h.file, h.qualname, h.setter)
            hs, gs = self.write_set(fn.body)
            heap.update(hs)
            ghost.update(gs)
        elif isinstance(h, Builtin):
            heap.update(getattr(h.fn, "modifies", []))
            ghost.update(getattr(h.fn, "ghost_modifies", []))

    # try/except: only `try: BODY except E [as x]: HANDLER` --------------------------------
    def s_Try(self, s, st):
        if s.orelse:
            raise Unsupported("try/else")
        if s.finalbody:
            # try: BODY [except ...] finally: FIN  ==  run FIN on every way out of the inner statement; if FIN completes normally the
            # original outcome (normal / return / raise / break / continue) is resumed, otherwise FIN's outcome replaces it
            inner = ast.Try(body=s.body, handlers=s.handlers, orelse=[], finalbody=[])
            ast.copy_location(inner, s)
            first = self.s_Try(inner, st) if s.handlers else self.exec_block(s.body, st)
            outs = []
            for o in first:
                for f in self.exec_block(s.finalbody, o.st):
                    outs.append(Out(o.kind, f.st, o.val) if f.kind == "normal" else f)
            return outs
        outs: list[Out] = []
        for o in self.exec_block(s.body, st):
            if o.kind != "raise":
                outs.append(o)
                continue
            handled = False
            for h in s.handlers:
                names = _handler_names(h)
                if names is None or o.val in names or _is_subclass(o.val, names):
                    self.handling.append(o.val)
                    if h.name:
                        # `except E as e`: the exception object is an opaque fresh reference
                        o.st.env[h.name] = VRef(o.st.fresh_int("exc"), "Exception")
                    try:
                        outs += self.exec_block(h.body, o.st)
                    finally:
                        self.handling.pop()
                    handled = True
                    break
            if not handled:
                outs.append(o)
        return outs

    def s_Import(self, s, st):
        return [Out("normal", st)]

    def s_ImportFrom(self, s, st):
        return [Out("normal", st)]


_EXC_PARENTS = {
    "IndexError": ["LookupError", "Exception"],
    "KeyError": ["LookupError", "Exception"],
    "ZeroDivisionError": ["ArithmeticError", "Exception"],
    "ValueError": ["Exception"],
    "AssertionError": ["Exception"],
    "AttributeError": ["Exception"],
    "StopIteration": ["Exception"],
    "VerifyException": ["DiagnosticException", "Exception"],
    "InterpretationError": ["Exception"],
    "PassFailedException": ["DiagnosticException", "Exception"],
}


def _is_subclass(exc, names):
    return any(p in names for p in _EXC_PARENTS.get(exc, ["Exception"]))


def _handler_names(h: ast.ExceptHandler):
    if h.type is None:
        return None
    if isinstance(h.type, ast.Tuple):
        return [ast.unparse(t).split(".")[-1] for t in h.type.elts]
    return [ast.unparse(h.type).split(".")[-1]]


def _as_load(t):
    t2 = ast.parse(ast.unparse(t), mode="eval").body
    return t2


# graft statement methods onto Executor
for _k, _v in list(Stmts.__dict__.items()):
    if not _k.startswith("__"):
        setattr(Executor, _k, _v)
