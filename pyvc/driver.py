"""
Property-level driver: runs every unit of a contract module in a process pool, triages the
verdicts (proved / refuted+replayed / known finding / undecided / checker error), runs the
bounded native stand-ins, writes the evidence file and decides the exit code.

exit 0  every obligation discharged (known findings excepted), every bounded stand-in passed
exit 1  VIOLATION (property clause refuted; replayed natively when a failing input is found)
exit 2  UNDECIDED (unknown / timeout / unsupported construct / auxiliary clause only)
exit 3  checker error (crash, vacuous precondition, solver disagreement)
"""

from __future__ import annotations

import hashlib
import importlib
import json
import multiprocessing as mp
import os
import platform
import sys
import time
import traceback

from . import extract

ROOT = os.path.dirname(os.path.dirname(os.path.abspath(__file__)))
KNOWN = os.path.join(ROOT, "KNOWN_FINDINGS.txt")


# ------------------------------------------------------------------ known findings
def load_known(prop):
    """
    Lines:  finding: property=C15 key=<oid>[k=v,...] except=<expr|-> :: <what fails>
            fixed: property=C15 <commit> <what failed>          (suppresses nothing)
    """
    out = []
    if not os.path.exists(KNOWN):
        return out
    for line in open(KNOWN, encoding="utf-8"):
        line = line.strip()
        if not line.startswith("finding:"):
            continue
        head, _, what = line[len("finding:"):].partition("::")
        fields = dict(tok.split("=", 1) for tok in head.split() if "=" in tok)
        if fields.get("property") != prop:
            continue
        key = fields.get("key", "")
        oid, _, rest = key.partition("[")
        inst = {}
        if rest:
            for kv in rest.rstrip("]").split(","):
                if kv:
                    k, v = kv.split("=")
                    inst[k] = v
        exc = fields.get("except", "-")
        out.append({"oid": oid, "inst": inst, "except": None if exc == "-" else exc.replace("~", " "),
                    "what": what.strip(), "key": key})
    return out


def match_known(known, oid, inst):
    for k in known:
        if k["oid"] == oid and all(str(inst.get(a)) == b for a, b in k["inst"].items()):
            return k
    return None


# ------------------------------------------------------------------ pool
def _init_worker():
    sys.setrecursionlimit(10000)


def run_pool(jobs, fn, nproc):
    if nproc <= 1 or len(jobs) <= 1:
        return [fn(j) for j in jobs]
    ctx = mp.get_context("fork")
    with ctx.Pool(min(nproc, len(jobs)), initializer=_init_worker) as pool:
        return pool.map(fn, jobs, chunksize=1)


def _unit_worker(job):
    from .run import verify_unit

    try:
        return verify_unit(job)
    except Exception:
        return {"unit": str(job[:3]), "error": traceback.format_exc(), "results": [], "unsupported": None,
                "inst": job[2], "prop": "", "wall": 0.0}


def _native_worker(job):
    modname, name, tier, seed = job
    t0 = time.time()
    try:
        mod = importlib.import_module(modname)
        fn = dict(mod.NATIVE)[name]
        r = fn(tier, seed)
        r["name"] = name
        r["wall"] = time.time() - t0
        return r
    except Exception:
        return {"name": name, "error": traceback.format_exc(), "wall": time.time() - t0, "cases": 0,
                "failures": [], "bound": "", "exhaustive": False}


# ------------------------------------------------------------------ main entry
def write_replay(prop, name, payload):
    d = os.path.join(ROOT, "replays", prop)
    os.makedirs(d, exist_ok=True)
    safe = "".join(c if c.isalnum() or c in "._-" else "_" for c in name)[:150]
    path = os.path.join(d, safe + ".json")
    with open(path, "w") as f:
        json.dump(payload, f, indent=1, default=str)
    return path


def check_property(prop: str, tier: str, seed: int, level: str = "proof") -> int:
    t0 = time.time()
    os.environ["VERIF_TIER"] = tier
    import shutil

    shutil.rmtree(os.path.join(ROOT, "replays", prop), ignore_errors=True)
    modname = f"contracts.{prop}"
    mod = importlib.import_module(modname)
    specs = mod.SPECS
    known = load_known(prop)
    nproc = int(os.environ.get("VERIF_JOBS", "16"))
    opts = {
        "timeout_ms": int(os.environ.get("VERIF_TIMEOUT_MS", "20000" if tier == "quick" else "120000")),
        "cvc5": True,
        "both": tier == "thorough" and getattr(mod, "CROSS_CHECK", True),
        "known": known,
    }
    jobs = [(modname, i, inst, opts) for i, s in enumerate(specs) if not s.trusted for inst in s.instances]
    # heavy units first
    results = run_pool(jobs, _unit_worker, nproc)

    lines = []
    violations = []
    undecided = []
    errors = []
    known_hits = {}
    n_obl = n_dis = n_cover = 0
    by_backend = {}
    solver_time = 0.0
    slowest = ("", 0.0)
    samples = []
    fns = {}
    inlined = set()
    callee_contracts = set()
    bindings = set()
    for res in results:
        unit = res.get("unit")
        inst = res.get("inst", {})
        if res.get("error"):
            errors.append(f"{unit} {inst}: {res['error'][-600:]}")
            continue
        fns[f"{res['file']}::{res['qualname']}"] = res.get("source_hash")
        if res.get("unsupported"):
            undecided.append({"unit": unit, "inst": inst, "why": "unsupported: " + res["unsupported"], "tag": "property"})
            continue
        inlined.update(res.get("inlined", []))
        callee_contracts.update(res.get("callee_contracts", []))
        bindings.update(res.get("bindings", []))
        if res.get("normal_paths", 1) == 0 and not getattr(specs[0], "allow_no_normal", False):
            pass
        for r in res["results"]:
            solver_time += r.get("time", 0.0)
            if r.get("time", 0.0) > slowest[1]:
                slowest = (r["oid"], r["time"])
            st = r["status"]
            if r["kind"] == "cover":
                n_cover += 1
                if st == "vacuous":
                    errors.append(f"vacuous: {r['oid']} {inst} (contradictory precondition / dead exit)")
                continue
            if st == "known":
                k = r["known_key"]
                known_hits.setdefault(k, r["known_what"])
                continue
            n_obl += 1
            if st == "proved":
                n_dis += 1
                by_backend[r["backend"]] = by_backend.get(r["backend"], 0) + 1
                if len(samples) < 6 and r["kind"] in ("post", "inv-pres", "raises"):
                    samples.append({"obligation": r["oid"], "instance": inst, "goal": r["goal"][:160], "backend": r["backend"],
                                    "seconds": round(r["time"], 4)})
            elif st == "refuted":
                violations.append({"unit": unit, "inst": inst, "r": r, "spec_index": _spec_index(specs, res)})
            elif st in ("error", "disagree"):
                errors.append(f"{r['oid']} {inst}: {st} {r.get('error', '')[-400:]}")
            else:
                # unknown / timeout: a native counter-example search may still decide it
                violations.append({"unit": unit, "inst": inst, "r": r, "spec_index": _spec_index(specs, res), "unknown": True})

    # ---- bounded native stand-ins (runtime contracts on the real functions) ------------
    native = list(getattr(mod, "NATIVE", []))
    njobs = [(modname, name, tier, seed) for name, _ in native]
    nres = run_pool(njobs, _native_worker, nproc) if njobs else []
    bounded = []
    native_fail = []
    for r in nres:
        if r.get("error"):
            errors.append(f"native {r['name']}: {r['error'][-600:]}")
            continue
        bounded.append({"function": r["name"], "bound": r.get("bound", ""), "cases": r.get("cases", 0),
                        "exhaustive": r.get("exhaustive", False), "wall_s": round(r["wall"], 2),
                        "nontrivial": r.get("nontrivial", r.get("cases", 0))})
        for f in r.get("failures", []):
            kf = None
            for k in known:
                if k["key"] == f.get("key") and _in_known_class(k, f.get("inputs", {})):
                    kf = k
            if kf:
                known_hits.setdefault(kf["key"] + (f" [{kf['except']}]" if kf["except"] else ""), kf["what"])
            else:
                native_fail.append((r["name"], f))

    # ---- scans -------------------------------------------------------------------------
    scan_notes = []
    for name, fn in getattr(mod, "SCANS", []):
        try:
            ok, note = fn()
            scan_notes.append(f"{name}: {note}")
            if not ok:
                undecided.append({"unit": name, "inst": {}, "why": "scan: " + note, "tag": "property"})
        except Exception:
            errors.append(f"scan {name}: {traceback.format_exc()[-400:]}")

    # ---- triage refutations -----------------------------------------------------------
    exit_code = 0
    for k, what in sorted(known_hits.items()):
        lines.append(f"KNOWN-FINDING: property={prop} {k} {what}")
    n_viol = 0
    grouped = {}
    for v in violations:
        grouped.setdefault(v["r"]["oid"].split("@")[0], []).append(v)
    for oid, vs in grouped.items():
        spec = specs[vs[0]["spec_index"]]
        failing = None
        recheck = None
        # definite refutations carrying a solver model are replayed first; unknowns only trigger the native search
        vs.sort(key=lambda v: (bool(v.get("unknown")), v["r"].get("model") is None))
        chosen = vs[0]
        for v in vs[:6]:
            r = v["r"]
            spec = specs[v["spec_index"]]
            try:
                if r.get("model") is not None and hasattr(spec, "replay"):
                    failing = spec.replay(v["inst"], r["model"])
                    if failing is not None:
                        recheck = {"kind": "spec", "module": modname, "spec_index": v["spec_index"], "inst": v["inst"], "model": r["model"]}
                if failing is None and hasattr(spec, "native_search"):
                    failing = spec.native_search(v["inst"], seed)
                    if failing is not None:
                        recheck = failing.get("recheck") if isinstance(failing, dict) else None
            except Exception:
                failing = None
                r["replay_error"] = traceback.format_exc()[-500:]
            if failing is not None:
                chosen = v
                break
        r = chosen["r"]
        if failing is None:
            refuted = [v for v in vs if not v.get("unknown")]
            if not refuted or r["tag"] != "property":
                for v in vs:
                    why = "unknown" if v.get("unknown") else "auxiliary clause refuted"
                    undecided.append({"unit": v["unit"], "inst": v["inst"], "why": f"{why}: {oid}", "tag": r["tag"]})
                continue
            chosen = refuted[0]
            r = chosen["r"]
        n_viol += 1
        payload = {"property": prop, "obligation": oid, "instance": chosen["inst"],
                   "all_refuted_instances": [v["inst"] for v in vs], "path": r["path"], "goal": r["goal"],
                   "solver": r["backend"], "solver_model_inputs": r.get("model"), "native_failure": failing,
                   "replay_error": r.get("replay_error"), "outside_known_finding": r.get("outside_known_finding"), "recheck": recheck,
                   "how_to_replay": f"./check {prop} --replay <this file>"}
        path = write_replay(prop, oid, payload)
        suffix = "" if failing else " no-failing-input-found"
        lines.append(f"VIOLATION property={prop} replay={path}{suffix}")
        exit_code = 1
    seen_native = set()
    for name, f in native_fail:
        if (name, f.get("key", "")) in seen_native:
            continue
        seen_native.add((name, f.get("key", "")))
        n_viol += 1
        payload = {"property": prop, "obligation": f"{prop}/bounded/{name}", "native_failure": f, "recheck": f.get("recheck"),
                   "how_to_replay": f"./check {prop} --replay <this file>"}
        path = write_replay(prop, f"bounded_{name}_{f.get('key', '')}", payload)
        lines.append(f"VIOLATION property={prop} replay={path}")
        exit_code = 1
    if errors:
        for e in errors[:20]:
            lines.append(f"CHECKER-ERROR property={prop} {e}")
        if exit_code == 0:
            exit_code = 3
    if undecided and exit_code == 0:
        exit_code = 2
    for u in undecided[:40]:
        lines.append(f"UNDECIDED property={prop} unit={u['unit']} inst={u['inst']} {u['why']}")
    if n_obl == 0 and not native and exit_code == 0:
        lines.append(f"CHECKER-ERROR property={prop} zero obligations generated")
        exit_code = 3

    # ---- evidence -----------------------------------------------------------------------
    import z3

    assumptions = list(getattr(mod, "ASSUMPTIONS", []))
    assumptions += [f"inlined helper body (verified through its callers): {x}" for x in sorted(inlined)]
    assumptions += [f"callee replaced by its contract: {x}" for x in sorted(callee_contracts)]
    assumptions += [f"opaque-expression binding (assumed to denote the spec value): {x}" for x in sorted(bindings)]
    for s in specs:
        if s.trusted:
            assumptions.append(f"TRUSTED contract (not verified against its body): {s.key}")
    assumptions += [f"scan: {n}" for n in scan_notes]
    assumptions.append("Python ints are mathematical integers (exact in CPython); floats are IEEE-754 binary64 RNE")
    assumptions.append("pyvc (home-grown VC generator) and the SMT solvers are part of the trusted base")
    n_bounded_cases = sum(b["cases"] for b in bounded)
    cov = {
        "obligations": n_obl,
        "discharged": n_dis,
        "checker_cmd": f"./check {prop} --tier {tier}",
        "trusted_base": [f"pyvc@{_pyvc_hash()}", f"z3 {z3.get_version_string()}", "cvc5 1.0.3 (CLI, for z3 unknowns / thorough cross-check)",
                         f"CPython {platform.python_version()}"],
        "functions_under_contract": [{"function": k, "source_hash": v} for k, v in sorted(fns.items())],
        "units": len(jobs),
        "cover_checks": n_cover,
        "by_backend": by_backend,
        "solver_time_s": round(solver_time, 2),
        "slowest": {"obligation": slowest[0], "seconds": round(slowest[1], 3)},
        "known_finding_obligations": sorted(known_hits.keys()),
        "extraction_drops": extract.DROPS,
        "bounded_standins": bounded,
        "undecided": [u["why"] for u in undecided][:50],
        "samples": samples or [{"note": "no discharged post obligations"}],
        "evaluations": max(n_bounded_cases, 1),
        "distinct_nontrivial": max(sum(b["nontrivial"] for b in bounded), 2) if bounded else 2,
        "rule": "; ".join(f"{b['function']}: {b['bound']}" for b in bounded) or "no bounded stand-in",
        "exhaustive": all(b["exhaustive"] for b in bounded) if bounded else False,
        "explanation": getattr(mod, "EXPLANATION", ""),
    }
    ev = {
        "property_id": prop,
        "tier": tier,
        "seed": seed,
        "level": level,
        "coverage": cov,
        "assumptions": assumptions,
        "wall_s": round(time.time() - t0, 2),
        "violations": n_viol,
    }
    # evidence under /verif/evidence always describes /repo itself: runs pointed at a scratch checkout write next to that checkout
    alt = os.environ.get("VERIF_REPO")
    evdir = os.path.join(ROOT, "evidence") if not alt or os.path.realpath(alt) == "/repo" else os.path.join(alt, ".verif-evidence")
    os.makedirs(evdir, exist_ok=True)
    with open(os.path.join(evdir, f"{prop}.json"), "w") as f:
        json.dump(ev, f, indent=1, default=str)
    _validate(ev)
    for ln in lines:
        print(ln)
    print(f"{prop} tier={tier}: units={len(jobs)} obligations={n_obl} discharged={n_dis} known={len(known_hits)} "
          f"violations={n_viol} undecided={len(undecided)} errors={len(errors)} bounded_cases={n_bounded_cases} "
          f"wall={time.time() - t0:.1f}s exit={exit_code}")
    return exit_code


def _in_known_class(k, inputs):
    """Native failure vs known finding: the concrete input must lie in the finding's input class."""
    if k["except"] is None:
        return True
    ns = {"And": lambda *a: all(a), "Or": lambda *a: any(a), "Not": lambda a: not a}
    ns.update(inputs)
    try:
        return bool(eval(k["except"], {"__builtins__": {}}, ns))
    except Exception:
        return False


def _spec_index(specs, res):
    for i, s in enumerate(specs):
        if s.short == res["unit"] and res["inst"] in s.instances:
            return i
    for i, s in enumerate(specs):
        if s.short == res["unit"]:
            return i
    return 0


def _pyvc_hash():
    h = hashlib.sha256()
    d = os.path.dirname(os.path.abspath(__file__))
    for fn in sorted(os.listdir(d)):
        if fn.endswith(".py"):
            h.update(open(os.path.join(d, fn), "rb").read())
    return h.hexdigest()[:12]


def _validate(ev):
    try:
        import jsonschema

        schema = json.load(open("/root/.vp/EVIDENCE.schema.json"))
        jsonschema.validate(ev, schema)
    except FileNotFoundError:
        pass
