"""Contract objects: one Spec per real function under contract."""

from __future__ import annotations

from dataclasses import dataclass, field
from typing import Any, Callable


@dataclass
class Inline:
    """Callee executed by descending into its real body (extracted from /repo)."""

    file: str
    qualname: str
    setter: bool = False
    pass_receiver: bool = False  # receiver is an object even if it evaluates to a global name (enum members)


@dataclass
class Builtin:
    """Callee modelled by a Python handler ``fn(ex, st, args, kwargs) -> list[Result]``."""

    fn: Callable
    note: str = ""


class Spec:
    """
    Contract of one real function.  Subclass or instantiate with keyword callables.

    setup(st, inst)            -> dict param name -> symbolic value (may st.assume typing facts)
    pre(st, a)                 -> list[Clause]
    post(old, st, a, result)   -> list[Clause]            (normal exit)
    post_exc(old, st, a, exc)  -> list[Clause] | None     (exceptional exit; None = must not raise)
    inv(n, entry, st, a, lv)   -> list[Clause]            (loop with ordinal n; lv: loop vars)
    bind(st, a, inst)          -> dict expr-text -> value (opaque-expression bindings)
    """

    prop = ""
    file = ""
    qualname = ""
    setter = False
    instances: list[dict] = [{}]
    inline: dict[str, Inline] = {}
    calls: dict[str, Any] = {}
    modifies: list[str] = []
    ghost_modifies: list[str] = []
    asserts = "prove"  # in-code asserts: 'prove' | 'raise'
    globals: dict[str, Any] = {}
    trusted = False  # contract only assumed (never verified against the body): listed
    notes: list[str] = []
    raises_ok: tuple = ()  # exception names allowed with post_exc

    def __init__(self, **kw):
        for k, v in kw.items():
            setattr(self, k, v)

    # defaults -----------------------------------------------------------------
    def setup(self, st, inst):
        return {}

    def pre(self, st, a):
        return []

    def post(self, old, st, a, result):
        return []

    def post_exc(self, old, st, a, exc):
        return None

    def inv(self, n, entry, st, a, lv):
        return None

    def bind(self, st, a, inst):
        return {}

    def ghost_update(self, old, st, a, result):
        """Witness for the post-state ghost terms: dict ghost name -> term over the old ghost/new heap."""
        return {}

    def result_value(self, st, a):
        """Fresh symbolic result when used as a callee contract."""
        return None

    def exc_cases(self, st, a):
        """When used as a callee: list of (exc name, z3 condition) under which it raises."""
        return []

    @property
    def key(self) -> str:
        return f"{self.file}::{self.qualname}"

    @property
    def short(self) -> str:
        mod = self.file[:-3].replace("/", ".")
        return f"{mod}.{self.qualname}" + (".setter" if self.setter else "")
