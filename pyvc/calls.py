"""Call handling: builtins, container methods, inlined callees, callee contracts."""

from __future__ import annotations

import ast

import z3

from . import arith, extract
from .spec import Builtin, Inline, Spec
from .values import (
    Clause,
    F64,
    State,
    Unsupported,
    VBool,
    VBound,
    VFloat,
    VGlobal,
    VInt,
    VIter,
    VItState,
    VOpaque,
    VRange,
    VRef,
    VSeq,
    VTuple,
    is_concrete,
    lift_bool,
    lift_int,
    z_float,
    z_int,
)


def Res(kind, val, st):
    from .engine import Res as R

    return R(kind, val, st)


def eval_call(ex, e: ast.Call, st: State):
    text = ast.unparse(e.func)
    spec = ex.spec
    # generator / comprehension arguments of all/any/tuple/sum are handled before evaluation
    if isinstance(e.func, ast.Name) and e.func.id in ("all", "any", "tuple", "sum", "list", "set", "frozenset", "next") and e.args:
        if isinstance(e.args[0], (ast.GeneratorExp, ast.ListComp)):
            return comprehension_call(ex, e.func.id, e, st)
    if isinstance(e.func, ast.Name) and e.func.id == "next" and len(e.args) == 1 and isinstance(e.args[0], ast.Name) and isinstance(st.env.get(e.args[0].id), VItState):
        # next(it) on an iterator held in a local name: yields the next item and advances, or raises StopIteration when exhausted
        name = e.args[0].id
        it = st.env[name]
        out = []
        for more, bs in ex.split(st, it.pos < it.seq.n):
            if more:
                bs.env[name] = VItState(it.seq, z3.simplify(it.pos + 1))
                out.append(Res("val", ex._elem(z3.Select(it.seq.arr, it.pos), it.seq.ek, it.seq.ecls, bs), bs))
            else:
                bs.trace.append("StopIteration")
                out.append(Res("raise", "StopIteration", bs))
        return out
    handler = None
    for table in (ex.local_calls(), spec.calls, spec.inline):
        if text in table:
            handler = table[text]
            break
    # evaluate receiver (for methods) and arguments
    recv = None
    out = []
    if handler is None and isinstance(e.func, ast.Attribute):
        recvs = ex.eval(e.func.value, st)
    else:
        recvs = [Res("val", None, st)]
    for rr in recvs:
        if rr.kind == "raise":
            out.append(rr)
            continue
        recv = rr.val
        arg_es = [a for a in e.args]
        if any(isinstance(a, ast.Starred) for a in arg_es):
            raise Unsupported("*args at call site")
        acc, raises = ex.eval_many(arg_es + [k.value for k in e.keywords], rr.st)
        out += raises
        for vals, s in acc:
            args = vals[: len(arg_es)]
            kwargs = {k.arg: v for k, v in zip(e.keywords, vals[len(arg_es) :])}
            out += dispatch(ex, e, text, handler, recv, args, kwargs, s)
    return out


def dispatch(ex, e, text, handler, recv, args, kwargs, st):
    spec = ex.spec
    if handler is None and isinstance(e.func, ast.Attribute):
        name = e.func.attr
        # method-name keyed tables ('.add_use')
        for table in (ex.local_calls(), spec.calls, spec.inline):
            if "." + name in table:
                handler = table["." + name]
                args = [recv] + args
                break
        else:
            if isinstance(recv, VRef) and recv.kinds:
                return container_method(ex, recv, name, args, kwargs, st)
            if isinstance(recv, VGlobal):
                full = f"{recv.text}.{name}"
                if full in GLOBAL_BUILTINS:
                    return GLOBAL_BUILTINS[full](ex, st, args, kwargs)
            if isinstance(recv, (VTuple, VSeq)) and name in ("append", "extend") and isinstance(e.func.value, ast.Name):
                # local list held by value in a local name: rebind the name
                if not (isinstance(recv, VSeq) or recv.is_list):
                    raise Unsupported("append on a tuple")
                add = VTuple([args[0]], True) if name == "append" else ex.to_seq_value(args[0], st)
                if isinstance(recv, VTuple) and isinstance(add, VTuple):
                    new = VTuple(recv.items + add.items, True)
                else:
                    new = arith.seq_concat(arith.as_seq(recv), arith.as_seq(add))
                st.env[e.func.value.id] = new
                return [Res("val", None, st)]
            if isinstance(recv, (VTuple, VSeq)) and name in ("index", "count"):
                raise Unsupported(f"tuple.{name}")
            raise Unsupported(f"call to `{text}` has no contract, inline declaration or model")
    elif handler is not None and isinstance(e.func, ast.Attribute) and not isinstance(handler, Builtin):
        # text-keyed method: evaluate receiver now unless it is a class/static reference
        if not getattr(handler, "static", False):
            rs = ex.eval(e.func.value, st)
            outs = []
            for r in rs:
                if r.kind == "raise":
                    outs.append(r)
                    continue
                if isinstance(r.val, VGlobal) and not getattr(handler, "pass_receiver", False):
                    outs += apply_handler(ex, handler, args, kwargs, r.st, text)
                else:
                    outs += apply_handler(ex, handler, [r.val] + args, kwargs, r.st, text)
            return outs
    if handler is None:
        name = text
        if name.startswith("list[") or name.startswith("dict[") and not args:
            if name.startswith("list["):
                return [Res("val", VTuple([], True), st)]
            # dict[K, V](): a fresh empty dict
            r = st.new_object("dict")
            st.dict_store(r, z3.K(z3.IntSort(), z3.BoolVal(False)), z3.K(z3.IntSort(), z3.IntVal(0)))
            return [Res("val", VRef(r, "dict", ("dict", "ref", "ref")), st)]
        if name in GLOBAL_BUILTINS:
            return GLOBAL_BUILTINS[name](ex, st, args, kwargs)
        raise Unsupported(f"call to `{text}` has no contract, inline declaration or model")
    return apply_handler(ex, handler, args, kwargs, st, text)


def apply_handler(ex, handler, args, kwargs, st, text):
    if isinstance(handler, Builtin):
        # a modelled callee may update ghost state only if it DECLARES it (fn.ghost_modifies): loops havoc exactly the declared ghosts,
        # so an undeclared update would silently escape the loop rule -> the unit is UNDECIDED instead
        before = dict(st.ghost)
        res = handler.fn(ex, st, args, kwargs)
        declared = set(getattr(handler.fn, "ghost_modifies", ()))
        for r in res:
            for k, v in r.st.ghost.items():
                if k.startswith("_") or k in declared:
                    continue
                b = before.get(k)
                same = b is v or (b is not None and hasattr(b, "eq") and hasattr(v, "eq") and b.eq(v))
                if not same:
                    raise Unsupported(f"model of `{text}` updates ghost `{k}` without declaring it (ghost_modifies)")
        return res
    if isinstance(handler, Inline):
        return inline_call(ex, handler, args, kwargs, st, text)
    if isinstance(handler, Spec):
        return contract_call(ex, handler, args, kwargs, st, text)
    raise Unsupported(f"bad handler for {text}")


def bind_params(ex, fn: ast.FunctionDef, args, kwargs, st):
    a = fn.args
    names = [p.arg for p in a.posonlyargs + a.args]
    env = {}
    if len(args) > len(names):
        if a.vararg:
            raise Unsupported("varargs")
        raise Unsupported(f"too many arguments for {fn.name}")
    for n, v in zip(names, args):
        env[n] = v
    defaults = a.defaults
    dnames = names[len(names) - len(defaults) :] if defaults else []
    for n, d in zip(dnames, defaults):
        if n not in env and n not in kwargs:
            env[n] = const_default(d)
    for p, d in zip(a.kwonlyargs, a.kw_defaults):
        if p.arg in kwargs:
            continue
        if d is None:
            raise Unsupported(f"missing keyword-only argument {p.arg}")
        env[p.arg] = const_default(d)
    for k, v in kwargs.items():
        env[k] = v
    for n in names:
        if n not in env:
            raise Unsupported(f"missing argument {n} for {fn.name}")
    return env


def const_default(d: ast.expr):
    if isinstance(d, ast.Constant):
        return d.value
    if isinstance(d, ast.Tuple) and not d.elts:
        return VTuple([])
    if isinstance(d, ast.Dict) and not d.keys:
        return VOpaque("{}")
    raise Unsupported(f"non-constant default {ast.unparse(d)}")


def inline_call(ex, h: Inline, args, kwargs, st, text):
    fn = extract.find_function(h.file, h.qualname, h.setter)
    ex.note_inlined(h)
    if ex.inline_depth > 6:
        raise Unsupported("inline depth")
    env = bind_params(ex, fn, args, kwargs, st)
    saved_env = st.env
    saved_bind = ex.bindings
    st.env = env
    ex.bindings = dict(saved_bind) if getattr(ex.spec, "bind_in_inlined", False) else {}
    ex.inline_depth += 1
    ex.fn_stack.append(h.qualname)
    ex.register_loops(fn, h.qualname)
    try:
        outs = ex.exec_block(extract.strip_docstring(fn.body), st)
    finally:
        ex.inline_depth -= 1
        ex.fn_stack.pop()
        ex.bindings = saved_bind
    res = []
    for o in outs:
        o.st.env = dict(saved_env)
        if o.kind in ("normal",):
            res.append(Res("val", None, o.st))
        elif o.kind == "return":
            res.append(Res("val", o.val, o.st))
        elif o.kind == "raise":
            res.append(Res("raise", o.val, o.st))
        else:
            raise Unsupported("break/continue escaped inlined call")
    # NB: callee-local walrus targets etc. are discarded with env
    return res


def contract_call(ex, callee: Spec, args, kwargs, st, text):
    """Modular call: assert pre, havoc frame, assume post (and fork the declared raise cases)."""
    fn = extract.find_function(callee.file, callee.qualname, callee.setter)
    a = bind_params(ex, fn, args, kwargs, st)
    ex.note_contract(callee)
    n = ex.next_call()
    for cl in callee.pre(st, a):
        if cl.tag != "axiom":  # world axioms / arithmetic lemmas are not obligations of the caller
            ex.oblige(st, "call-pre", f"{n}:{callee.qualname}:{cl.name}", cl.z, cl.tag)
        st.assume(cl.z)
    out = []
    cur = st
    for exc, cond in callee.exc_cases(cur, a):
        nxt = None
        for taken, bs in ex.split(cur, cond):
            if taken:
                old = bs.snapshot()
                cls = callee.post_exc(old, bs, a, exc) or []
                for c in cls:
                    bs.assume(c.z)
                bs.trace.append(f"{callee.qualname}!{exc}")
                out.append(Res("raise", exc, bs))
            else:
                nxt = bs
        if nxt is None:
            return out
        cur = nxt
    old = cur.snapshot()
    cur.havoc(callee.modifies)
    result = callee.result_value(cur, a)
    upd = callee.ghost_update(old, cur, a, result) or {}
    # ghost frame: a ghost the callee declares it may change, and for which it gives no exact witness, is havocked
    # (its post-state is then only what the callee's postconditions say about it)
    for g in callee.ghost_modifies:
        if g not in upd and g in cur.ghost:
            cur.ghost[g] = cur.fresh("G." + g, cur.ghost[g].sort())
    for g, term in upd.items():
        fresh = cur.fresh("G." + g, term.sort())
        cur.ghost[g] = fresh
        cur.assume(fresh == term)
    for cl in callee.post(old, cur, a, result):
        cur.assume(cl.z)
    out.append(Res("val", result, cur))
    return out


# ------------------------------------------------------------------ container methods
def container_method(ex, recv: VRef, name, args, kwargs, st):
    k = recv.kinds[0]
    r = recv.z
    if k == "list":
        ek = recv.kinds[1]
        ecls = recv.kinds[2] if len(recv.kinds) > 2 else None
        n = st.list_len(r)
        if name == "append":
            st.list_store(r, z3.Store(st.list_arr(r), n, z_int(args[0])), z3.simplify(n + 1))
            return [Res("val", None, st)]
        if name == "pop" and not args:
            out = []
            for ok, bs in ex.split(st, n > 0):
                if ok:
                    v = ex._elem(bs.list_el(r, n - 1), ek, ecls, bs)
                    bs.list_store(r, bs.list_arr(r), z3.simplify(n - 1))
                    out.append(Res("val", v, bs))
                else:
                    bs.trace.append("IndexError")
                    out.append(Res("raise", "IndexError", bs))
            return out
        if name == "popleft" and not args:
            # collections.deque.popleft: removes and returns the leftmost element
            out = []
            for ok, bs in ex.split(st, n > 0):
                if ok:
                    v = ex._elem(bs.list_el(r, 0), ek, ecls, bs)
                    j = z3.Int("j!pl")
                    bs.list_store(r, z3.Lambda([j], z3.Select(bs.list_arr(r), j + 1)), z3.simplify(n - 1))
                    out.append(Res("val", v, bs))
                else:
                    bs.trace.append("IndexError")
                    out.append(Res("raise", "IndexError", bs))
            return out
        if name == "clear":
            st.list_store(r, st.list_arr(r), z3.IntVal(0))
            return [Res("val", None, st)]
        if name == "extend":
            # list.extend(iterable): the elements of a snapshot of the argument are appended in order (self-extension included)
            add = arith.as_seq(ex.to_seq_value(args[0], st))
            cur = arith.as_seq(VSeq(st.list_arr(r), n, ek, ecls))
            new = arith.seq_concat(cur, add)
            st.list_store(r, new.arr, z3.simplify(new.n))
            return [Res("val", None, st)]
        if name == "remove":
            # removes the FIRST occurrence; ValueError if absent
            v = z_int(args[0])
            arr = st.list_arr(r)
            j = z3.Int("j!rm")
            present = z3.Exists([j], z3.And(j >= 0, j < n, z3.Select(arr, j) == v))
            out = []
            for has, bs in ex.split(st, present):
                if not has:
                    bs.trace.append("ValueError")
                    out.append(Res("raise", "ValueError", bs))
                    continue
                p = bs.fresh_int("rmpos")
                bs.assume(z3.And(p >= 0, p < n, z3.Select(arr, p) == v,
                                 z3.ForAll([j], z3.Implies(z3.And(j >= 0, j < p), z3.Select(arr, j) != v))))
                new = z3.Lambda([j], z3.If(j < p, z3.Select(arr, j), z3.Select(arr, j + 1)))
                bs.list_store(r, new, z3.simplify(n - 1))
                out.append(Res("val", None, bs))
            return out
    if k == "dict":
        vk = recv.kinds[2]
        vcls = recv.kinds[3] if len(recv.kinds) > 3 else None
        if name == "get":
            key = z_int(args[0])
            default = args[1] if len(args) > 1 else kwargs.get("default")
            if vk == "ref" and (default is None or isinstance(default, VRef)):
                # no path split needed: a reference or the default
                dz = z3.IntVal(0) if default is None else default.z
                return [Res("val", VRef(z3.If(st.dict_has(r, key), st.dict_val(r, key), dz), vcls), st)]
            out = []
            for has, bs in ex.split(st, st.dict_has(r, key)):
                if has:
                    out.append(Res("val", ex._elem(bs.dict_val(r, key), vk, vcls, bs), bs))
                else:
                    out.append(Res("val", default, bs))
            return out
        if name == "setdefault" and len(args) == 2:
            # d.setdefault(k, v): the existing value if k is a key, else v is stored and returned
            key = z_int(args[0])
            out = []
            for has, bs in ex.split(st, st.dict_has(r, key)):
                if has:
                    out.append(Res("val", ex._elem(bs.dict_val(r, key), vk, vcls, bs), bs))
                else:
                    bs.dict_store(r, z3.Store(bs.dict_dom(r), key, z3.BoolVal(True)), z3.Store(bs.dict_vals(r), key, z_int(args[1])))
                    out.append(Res("val", args[1], bs))
            return out
        if name == "pop":
            key = z_int(args[0])
            out = []
            for has, bs in ex.split(st, st.dict_has(r, key)):
                if has:
                    v = ex._elem(bs.dict_val(r, key), vk, vcls, bs)
                    bs.dict_store(r, z3.Store(bs.dict_dom(r), key, z3.BoolVal(False)), bs.dict_vals(r))
                    out.append(Res("val", v, bs))
                elif len(args) > 1:
                    out.append(Res("val", args[1], bs))
                else:
                    out.append(Res("raise", "KeyError", bs))
            return out
        if name == "keys":
            # d.keys(): a live view of the keys - modelled as the dict itself used as a key set
            return [Res("val", VRef(r, "set", ("set", recv.kinds[1], None, "dictkeys")), st)]
        if name == "copy":
            nr = st.new_object("dict")
            st.dict_store(nr, st.dict_dom(r), st.dict_vals(r))
            return [Res("val", VRef(nr, "dict", recv.kinds), st)]
    if k == "set":
        if name == "add":
            st.dict_store(r, z3.Store(st.dict_dom(r), z_int(args[0]), z3.BoolVal(True)), st.dict_vals(r))
            return [Res("val", None, st)]
        if name == "remove":
            out = []
            for has, bs in ex.split(st, st.dict_has(r, z_int(args[0]))):
                if has:
                    bs.dict_store(r, z3.Store(bs.dict_dom(r), z_int(args[0]), z3.BoolVal(False)), bs.dict_vals(r))
                    out.append(Res("val", None, bs))
                else:
                    out.append(Res("raise", "KeyError", bs))
            return out
        if name == "isdisjoint":
            o = args[0]
            if not (isinstance(o, VRef) and o.kinds and o.kinds[0] in ("set", "dict")):
                raise Unsupported("isdisjoint with a non-set argument")
            x = z3.Int("x!dj")
            return [Res("val", lift_bool(z3.Not(z3.Exists([x], z3.And(z3.Select(st.dict_dom(r), x), z3.Select(st.dict_dom(o.z), x))))), st)]
        if name == "update":
            # set.update(iterable): union with another set, or with the elements of a sequence
            o = args[0]
            if isinstance(o, VRef) and o.kinds and o.kinds[0] == "set":
                x = z3.Int("x!upd")
                d1, d2 = st.dict_dom(r), st.dict_dom(o.z)
                st.dict_store(r, z3.Lambda([x], z3.Or(z3.Select(d1, x), z3.Select(d2, x))), st.dict_vals(r))
                return [Res("val", None, st)]
            sq = arith.as_seq(ex.to_seq_value(args[0], st))
            dom = st.dict_dom(r)
            x, j = z3.Int("x!upd"), z3.Int("j!upd")
            new = z3.Lambda([x], z3.Or(z3.Select(dom, x), z3.Exists([j], z3.And(j >= 0, j < sq.n, z3.Select(sq.arr, j) == x))))
            st.dict_store(r, new, st.dict_vals(r))
            return [Res("val", None, st)]
        if name in ("discard",):
            st.dict_store(r, z3.Store(st.dict_dom(r), z_int(args[0]), z3.BoolVal(False)), st.dict_vals(r))
            return [Res("val", None, st)]
        if name == "copy" and not args:
            c = st.new_object("set_copy")
            st.dict_store(c, st.dict_dom(r), st.dict_vals(r))
            return [Res("val", VRef(c, "set", recv.kinds), st)]
    raise Unsupported(f"{k}.{name}")


CARD = z3.Function("cardinality_of_membership_array", z3.ArraySort(z3.IntSort(), z3.BoolSort()), z3.IntSort())


# ------------------------------------------------------------------ global builtins
def b_len(ex, st, args, kw):
    v = args[0]
    if isinstance(v, VTuple):
        return [Res("val", len(v.items), st)]
    if isinstance(v, VSeq):
        return [Res("val", lift_int(v.n), st)]
    if isinstance(v, VRef) and v.kinds:
        if v.kinds[0] == "list":
            return [Res("val", lift_int(st.list_len(v.z)), st)]
    h = ex.spec.globals.get("__len__")
    if h is None and isinstance(v, VRef) and v.kinds and v.kinds[0] in ("dict", "set"):
        # the number of keys / members: an uninterpreted cardinality of the membership array (only: it is a function of the content and non-negative)
        n = CARD(st.dict_dom(v.z))
        st.assume(n >= 0)
        return [Res("val", lift_int(n), st)]
    if h is not None:
        r = h(ex, st, v)
        if r is not None:
            return [Res("val", r, st)]
    raise Unsupported(f"len of {v!r}")


def b_abs(ex, st, args, kw):
    v = args[0]
    if is_concrete(v):
        return [Res("val", abs(v), st)]
    if isinstance(v, VFloat):
        return [Res("val", VFloat(z3.fpAbs(v.z)), st)]
    x = z_int(v)
    return [Res("val", lift_int(z3.If(x >= 0, x, -x)), st)]


def _minmax(is_min):
    def f(ex, st, args, kw):
        if len(args) == 1:
            raise Unsupported("min/max of iterable")
        cur = args[0]
        for nxt in args[1:]:
            # CPython: min(a, b) -> b if b < a else a ; max(a, b) -> b if b > a else a
            if is_concrete(cur) and is_concrete(nxt):
                cur = (nxt if nxt < cur else cur) if is_min else (nxt if nxt > cur else cur)
                continue
            c = arith.compare("<" if is_min else ">", nxt, cur)
            if isinstance(c, bool):
                cur = nxt if c else cur
            elif arith.is_float(cur) or arith.is_float(nxt):
                cur = VFloat(z3.If(c.z, z_float(nxt), z_float(cur)))
            else:
                cur = lift_int(z3.If(c.z, z_int(nxt), z_int(cur)))
        return [Res("val", cur, st)]

    return f


def b_isnan(ex, st, args, kw):
    v = args[0]
    if isinstance(v, float):
        return [Res("val", v != v, st)]
    if isinstance(v, int):
        return [Res("val", False, st)]
    return [Res("val", lift_bool(z3.fpIsNaN(z_float(v))), st)]


def b_copysign(ex, st, args, kw):
    x, y = z_float(args[0]), z_float(args[1])
    mag = z3.fpAbs(x)
    return [Res("val", VFloat(z3.If(z3.fpIsNegative(y), z3.fpNeg(mag), mag)), st)]


def b_float(ex, st, args, kw):
    v = args[0]
    if isinstance(v, str):
        s = v.strip().lower()
        if s in ("nan", "+nan", "-nan"):
            return [Res("val", VFloat(z3.fpNaN(F64)), st)]
        if s in ("inf", "+inf", "infinity"):
            return [Res("val", VFloat(z3.fpPlusInfinity(F64)), st)]
        if s == "-inf":
            return [Res("val", VFloat(z3.fpMinusInfinity(F64)), st)]
        return [Res("val", float(v), st)]
    if isinstance(v, (int, float)):
        return [Res("val", float(v), st)]
    if isinstance(v, VFloat):
        return [Res("val", v, st)]
    raise Unsupported("float() of symbolic non-float")


def b_bool(ex, st, args, kw):
    t = ex.truthy(args[0], st)
    return [Res("val", t if isinstance(t, bool) else lift_bool(t), st)]


def b_int(ex, st, args, kw):
    v = args[0]
    if isinstance(v, (VInt, int)) and not isinstance(v, bool):
        return [Res("val", v, st)]
    if isinstance(v, (bool, VBool)):
        return [Res("val", lift_int(z_int(v)), st)]
    raise Unsupported("int() of non-int")


def b_cast(ex, st, args, kw):
    return [Res("val", args[1], st)]


def b_tuple(ex, st, args, kw):
    if not args:
        return [Res("val", VTuple([]), st)]
    v = args[0]
    if isinstance(v, VTuple):
        return [Res("val", VTuple(list(v.items)), st)]
    if isinstance(v, VSeq):
        return [Res("val", v, st)]
    return [Res("val", ex.to_seq_value(v, st), st)]


def b_list(ex, st, args, kw):
    if not args:
        return [Res("val", VTuple([], True), st)]
    v = args[0]
    if isinstance(v, VTuple):
        return [Res("val", VTuple(list(v.items), True), st)]
    if isinstance(v, VRange):
        j = z3.Int("j!rng")
        lo = z_int(v.lo)
        n = z3.simplify(z3.If(z_int(v.hi) > lo, z_int(v.hi) - lo, 0))
        return [Res("val", VSeq(z3.Lambda([j], j + lo), n, "int"), st)]
    return [Res("val", ex.to_seq_value(v, st), st)]


def b_set(ex, st, args, kw):
    """set() / set(sequence): a fresh set object (with the elements of the sequence)."""
    if args:
        h = ex.spec.globals.get("__set_of__")
        dom = h(ex, st, args[0]) if h is not None else None
        if dom is None:
            sq = arith.as_seq(ex.to_seq_value(args[0], st))
            x, j = z3.Int("x!set"), z3.Int("j!set")
            dom = z3.Lambda([x], z3.Exists([j], z3.And(j >= 0, j < sq.n, z3.Select(sq.arr, j) == x)))
        r = st.new_object("set")
        st.dict_store(r, dom, z3.K(z3.IntSort(), z3.IntVal(0)))
        return [Res("val", VRef(r, "set", ("set", "ref")), st)]
    r = st.new_object("set")
    st.dict_store(r, z3.K(z3.IntSort(), z3.BoolVal(False)), z3.K(z3.IntSort(), z3.IntVal(0)))
    return [Res("val", VRef(r, "set", ("set", "ref")), st)]


def b_iter(ex, st, args, kw):
    """iter(x) over a tuple / sequence value: a fresh iterator positioned at the start."""
    v = args[0]
    return [Res("val", VItState(arith.as_seq(ex.to_seq_value(v, st)), z3.IntVal(0)), st)]


def b_range(ex, st, args, kw):
    if len(args) == 1:
        return [Res("val", VRange(0, args[0]), st)]
    if len(args) == 2:
        return [Res("val", VRange(args[0], args[1]), st)]
    raise Unsupported("range with step")


def b_zip(ex, st, args, kw):
    return [Res("val", VIter("zip", list(args) + [bool(kw.get("strict", False))]), st)]


def b_enumerate(ex, st, args, kw):
    return [Res("val", VIter("enumerate", list(args)), st)]


def b_reversed(ex, st, args, kw):
    return [Res("val", VIter("reversed", list(args)), st)]


def b_isinstance(ex, st, args, kw):
    h = ex.spec.globals.get("__isinstance__")
    if h is not None:
        r = h(ex, st, args[0], args[1])
        if r is not None:
            return [Res("val", r, st)]
    v, c = args
    if isinstance(c, VGlobal):
        if isinstance(v, (int, VInt)) and not isinstance(v, bool):
            return [Res("val", c.text == "int", st)]
    raise Unsupported(f"isinstance({v!r}, {c!r})")


def b_sum(ex, st, args, kw):
    v = args[0]
    if isinstance(v, VTuple):
        tot = args[1] if len(args) > 1 else 0
        for it in v.items:
            tot = arith.binop("+", tot, it, lambda *a: None)
        return [Res("val", tot, st)]
    raise Unsupported("sum over a symbolic-length sequence")


def b_super(ex, st, args, kw):
    """super() inside a method: the receiver itself; WHICH base-class method runs is fixed by the contract's callee table (text `super().m`)."""
    if args or "self" not in st.env:
        raise Unsupported("super() with arguments / outside a method")
    return [Res("val", st.env["self"], st)]


GLOBAL_BUILTINS = {
    "super": b_super,
    "sum": b_sum,
    "len": b_len,
    "abs": b_abs,
    "min": _minmax(True),
    "max": _minmax(False),
    "isnan": b_isnan,
    "math.isnan": b_isnan,
    "copysign": b_copysign,
    "math.copysign": b_copysign,
    "float": b_float,
    "bool": b_bool,
    "int": b_int,
    "cast": b_cast,
    "tuple": b_tuple,
    "SSAValues": b_tuple,
    "list": b_list,
    "set": b_set,
    "range": b_range,
    "iter": b_iter,
    "zip": b_zip,
    "enumerate": b_enumerate,
    "reversed": b_reversed,
    "isinstance": b_isinstance,
}


# ------------------------------------------------------------------ comprehensions
def comprehension_call(ex, fname, e: ast.Call, st):
    comp = e.args[0]
    if len(comp.generators) != 1 or comp.generators[0].is_async:
        raise Unsupported("nested comprehension")
    gen = comp.generators[0]
    out = []
    for r in ex.eval(gen.iter, st):
        if r.kind == "raise":
            out.append(r)
            continue
        mark = (len(ex.obligations), ex.n_call)
        try:
            out += _comp_over(ex, fname, comp, gen, r.val, r.st.fork(), e)
        except Unsupported as u:
            # the pure attempt is abandoned: nothing it recorded (obligations, call / loop ordinals) may survive
            del ex.obligations[mark[0]:]
            ex.n_call = mark[1]
            if fname in ("all", "any") and "impure" in str(u) and not gen.ifs:
                out += _all_any_as_loop(ex, fname, comp, gen, r.st)
            elif fname in ("list", "tuple") and "impure" in str(u) and not gen.ifs:
                out += _listcomp_as_loop(ex, fname, comp, gen, r.st)
            else:
                raise
    return out


def _all_any_as_loop(ex, fname, comp, gen, st):
    """
    all(E for x in it) / any(...) whose element has effects (calls a contract that mutates state):
    desugared mechanically to the short-circuiting loop CPython runs,
        acc = True;  for x in it:  if not E: acc = False; break
    which is then cut at the invariant the contract file gives for that loop ordinal.
    """
    acc = "__allany_acc"
    is_all = fname == "all"
    test = ast.UnaryOp(op=ast.Not(), operand=comp.elt) if is_all else comp.elt
    body = [ast.If(test=test, body=[ast.Assign(targets=[ast.Name(id=acc, ctx=ast.Store())], value=ast.Constant(value=not is_all)),
                                   ast.Break()], orelse=[])]
    loop = ast.For(target=gen.target, iter=gen.iter, body=body, orelse=[])
    loop._loop_key = (ex.fn_stack[-1] if ex.fn_stack else "<main>", comp.lineno, comp.col_offset)
    init = ast.Assign(targets=[ast.Name(id=acc, ctx=ast.Store())], value=ast.Constant(value=is_all))
    mod = ast.Module(body=[init, loop], type_ignores=[])
    ast.fix_missing_locations(mod)
    for n in ast.walk(mod):
        if not hasattr(n, "lineno"):
            n.lineno = getattr(comp, "lineno", 0)
    out = []
    for o in ex.exec_block(mod.body, st):
        if o.kind == "normal":
            v = o.st.env.pop(acc)
            out.append(Res("val", v, o.st))
        elif o.kind == "raise":
            out.append(Res("raise", o.val, o.st))
        else:
            raise Unsupported("control flow escaping all()/any()")
    return out


def _listcomp_as_loop(ex, fname, comp, gen, st):
    """
    [E for x in it] whose element has effects, over a symbolic-length iterable: desugared mechanically to
        acc = [];  for x in it: acc.append(E)
    with `acc` a fresh heap list (local name `__comp_acc`); the loop is cut at the invariant the contract gives for its ordinal.
    """
    acc = "__comp_acc"
    r = st.new_object("list")
    st.list_store(r, z3.K(z3.IntSort(), z3.IntVal(0)), z3.IntVal(0))
    st.env[acc] = VRef(r, "list", ("list", "ref"))
    call = ast.Expr(ast.Call(func=ast.Attribute(value=ast.Name(id=acc, ctx=ast.Load()), attr="append", ctx=ast.Load()), args=[comp.elt], keywords=[]))
    loop = ast.For(target=gen.target, iter=gen.iter, body=[call], orelse=[])
    loop._loop_key = (ex.fn_stack[-1] if ex.fn_stack else "<main>", comp.lineno, comp.col_offset)
    mod = ast.Module(body=[loop], type_ignores=[])
    ast.fix_missing_locations(mod)
    for n in ast.walk(mod):
        if not hasattr(n, "lineno"):
            n.lineno = getattr(comp, "lineno", 0)
    out = []
    for o in ex.exec_block(mod.body, st):
        if o.kind == "normal":
            v = o.st.env.pop(acc)
            out.append(Res("val", v, o.st))
        elif o.kind == "raise":
            out.append(Res("raise", o.val, o.st))
        else:
            raise Unsupported("control flow escaping a comprehension")
    return out


def comprehension_seq(ex, comp, st, is_list):
    fake = ast.Call(func=ast.Name(id="list" if is_list else "tuple"), args=[comp], keywords=[])
    return comprehension_call(ex, "list", fake, st)


def _bind_target(target, val, env):
    if isinstance(target, ast.Name):
        env[target.id] = val
    elif isinstance(target, ast.Tuple):
        if not isinstance(val, VTuple) or len(val.items) != len(target.elts):
            raise Unsupported("comprehension target unpacking")
        for t, v in zip(target.elts, val.items):
            _bind_target(t, v, env)
    else:
        raise Unsupported("comprehension target")


def _comp_over(ex, fname, comp, gen, itv, st, call):
    """
    Pure element expressions only: concrete-length iterables are unrolled; symbolic-length
    sequences become a bounded quantifier / index-wise lambda over a fresh index.
    """
    items = iter_items_concrete(ex, itv, st)
    if items is not None:
        # unroll (short-circuit order of CPython for all/any is preserved by path splitting)
        return _comp_unrolled(ex, fname, comp, gen, items, st, call)
    # symbolic length: element expression must be pure
    elem_of, n = iter_symbolic(ex, itv, st)
    j = st.fresh_int("q")
    s2 = st.fork()
    _bind_target(gen.target, elem_of(j, s2), s2.env)
    conds = []
    for c in gen.ifs:
        rs = ex.eval(c, s2)
        if len(rs) != 1 or rs[0].kind != "val" or len(rs[0].st.pc) != len(s2.pc):
            raise Unsupported("impure / branching comprehension filter over a symbolic sequence")
        conds.append(ex.truthy(rs[0].val, s2))
    # purity is judged against a snapshot taken BEFORE the evaluation (callees mutate the state object in place)
    heap0, ghost0, npc0 = dict(s2.heap), dict(s2.ghost), len(s2.pc)
    ex.pure_mode = True
    try:
        rs = ex.eval(comp.elt, s2)
    finally:
        ex.pure_mode = False

    def _same(d0, d1):
        for k, v in d1.items():
            if k in d0:
                if not (d0[k] is v or (hasattr(v, "eq") and hasattr(d0[k], "eq") and d0[k].eq(v))):
                    return False
            elif not (z3.is_const(v) and v.decl().name() == f"H0.{k}"):
                return False  # (a field first touched by the element expression must still be its initial array: read, not written)
        return all(k in d1 for k in d0)

    if len(rs) != 1 or rs[0].kind != "val" or not _same(heap0, rs[0].st.heap) or not _same(ghost0, rs[0].st.ghost):
        # allow path splits that are pure (pc grew) by folding into an If is not attempted
        raise Unsupported("impure / branching comprehension element over a symbolic sequence")
    v = rs[0].val
    rng = z3.And(j >= 0, j < n)
    if fname in ("all", "any"):
        if conds:
            raise Unsupported("filtered all/any")
        t = ex.truthy(v, s2)
        t = z3.BoolVal(t) if isinstance(t, bool) else t
        q = z3.ForAll([j], z3.Implies(rng, t)) if fname == "all" else z3.Exists([j], z3.And(rng, t))
        return [Res("val", lift_bool(q), st)]
    if fname in ("tuple", "list"):
        if conds:
            raise Unsupported("filtered comprehension over a symbolic sequence")
        ek = "ref" if isinstance(v, VRef) else "int"
        arr = z3.Lambda([j], z_int(v))
        return [Res("val", VSeq(arr, n, ek, v.cls if isinstance(v, VRef) else None), st)]
    raise Unsupported(f"{fname}(comprehension) over a symbolic sequence")


def _comp_unrolled(ex, fname, comp, gen, items, st, call):
    # states: list of (acc values, state); all/any short-circuit
    states = [([], st)]
    finished = []
    for it in items:
        nxt = []
        for acc, s in states:
            s = s.fork()
            saved = dict(s.env)
            _bind_target(gen.target, it, s.env)
            keep_states = [(True, s)]
            for c in gen.ifs:
                ks = []
                for _, s1 in keep_states:
                    for r in ex.eval(c, s1):
                        if r.kind == "raise":
                            finished.append(r)
                            continue
                        for taken, bs in ex.split(r.st, ex.truthy(r.val, r.st)):
                            if taken:
                                ks.append((True, bs))
                            else:
                                bs.env = dict(saved)
                                nxt.append((acc, bs))
                keep_states = ks
            for _, s1 in keep_states:
                for r in ex.eval(comp.elt, s1):
                    if r.kind == "raise":
                        finished.append(r)
                        continue
                    if fname in ("all", "any"):
                        for taken, bs in ex.split(r.st, ex.truthy(r.val, r.st)):
                            bs.env = dict(saved)
                            if (fname == "all" and not taken) or (fname == "any" and taken):
                                finished.append(Res("val", fname == "any", bs))
                            else:
                                nxt.append((acc, bs))
                    else:
                        r.st.env = dict(saved)
                        nxt.append((acc + [r.val], r.st))
        states = nxt
    out = list(finished)
    for acc, s in states:
        if fname == "all":
            out.append(Res("val", True, s))
        elif fname == "any":
            out.append(Res("val", False, s))
        elif fname == "sum":
            tot = 0
            for v in acc:
                tot = arith.binop("+", tot, v, lambda *a: None)
            out.append(Res("val", tot, s))
        elif fname == "next":
            out.append(Res("val", acc[0], s) if acc else Res("raise", "StopIteration", s))
        else:
            out.append(Res("val", VTuple(acc, fname == "list"), s))
    return out


def iter_items_concrete(ex, itv, st):
    """List of element values if the iterable has a concrete length, else None."""
    if isinstance(itv, VTuple):
        return list(itv.items)
    if isinstance(itv, VRange) and isinstance(itv.lo, int) and isinstance(itv.hi, int):
        return list(range(itv.lo, itv.hi))
    if isinstance(itv, VSeq):
        n = z3.simplify(itv.n)
        if z3.is_int_value(n):
            return [ex._elem(z3.simplify(z3.Select(itv.arr, i)), itv.ek, itv.ecls, st) for i in range(n.as_long())]
        return None
    if isinstance(itv, VIter):
        if itv.kind == "zip":
            strict = itv.parts[-1]
            parts = [iter_items_concrete(ex, p, st) for p in itv.parts[:-1]]
            if any(p is None for p in parts):
                return None
            if strict and len({len(p) for p in parts}) > 1:
                raise Unsupported("zip(strict=True) of different concrete lengths")
            return [VTuple(list(t)) for t in zip(*parts)]
        if itv.kind == "enumerate":
            p = iter_items_concrete(ex, itv.parts[0], st)
            if p is None:
                return None
            return [VTuple([i, v]) for i, v in enumerate(p)]
        if itv.kind == "reversed":
            p = iter_items_concrete(ex, itv.parts[0], st)
            return None if p is None else list(reversed(p))
    return None


def iter_symbolic(ex, itv, st):
    """(elem_of(j, state) -> value, length) for symbolic-length iterables."""
    if isinstance(itv, VSeq):
        return (lambda j, s: ex._elem(z3.Select(itv.arr, j), itv.ek, itv.ecls, s)), itv.n
    if isinstance(itv, VRange):
        lo, hi = z_int(itv.lo), z_int(itv.hi)
        return (lambda j, s: lift_int(lo + j)), z3.simplify(z3.If(hi > lo, hi - lo, 0))
    if isinstance(itv, VRef) and itv.kinds and itv.kinds[0] == "list":
        arr, n = st.list_arr(itv.z), st.list_len(itv.z)
        ek = itv.kinds[1]
        ecls = itv.kinds[2] if len(itv.kinds) > 2 else None
        return (lambda j, s: ex._elem(z3.Select(arr, j), ek, ecls, s)), n
    if isinstance(itv, VIter):
        if itv.kind == "zip":
            subs = [iter_symbolic_or_concrete(ex, p, st) for p in itv.parts[:-1]]
            n = subs[0][1]
            for _, m in subs[1:]:
                n = z3.If(m < n, m, n)
            return (lambda j, s: VTuple([f(j, s) for f, _ in subs])), z3.simplify(n)
        if itv.kind == "enumerate":
            f, n = iter_symbolic_or_concrete(ex, itv.parts[0], st)
            return (lambda j, s: VTuple([lift_int(j), f(j, s)])), n
        if itv.kind == "reversed":
            f, n = iter_symbolic_or_concrete(ex, itv.parts[0], st)
            return (lambda j, s: f(n - 1 - j, s)), n
    h = ex.spec.globals.get("__iter__")
    if h is not None:
        r = h(ex, st, itv)
        if r is not None:
            return r
    raise Unsupported(f"iteration over {itv!r}")


def iter_symbolic_or_concrete(ex, itv, st):
    if isinstance(itv, VTuple):
        s = arith.as_seq(itv)
        return (lambda j, s_: ex._elem(z3.Select(s.arr, j), s.ek, s.ecls, s_)), s.n
    return iter_symbolic(ex, itv, st)
