"""
Extraction of function ASTs from the *real* source files under /repo, on every run.

What extraction drops (reported verbatim in every evidence file, see DROPS):
decorators, type annotations (kept only as sort hints), docstrings, ``cast(T, e)`` -> ``e``,
comments, and the argument expressions of raised exceptions.
"""

from __future__ import annotations

import ast
import hashlib
import os
from functools import lru_cache

REPO = os.environ.get("VERIF_REPO", "/repo")

DROPS = [
    "decorators (@impl, @staticmethod, @classmethod, @property, @dataclass, @op_type_rewrite_pattern, @overload stubs)",
    "type annotations (used only to choose SMT sorts)",
    "docstrings and comments",
    "cast(T, e) is read as e",
    "argument expressions of raised exceptions (messages are not evaluated)",
]


class ExtractionError(Exception):
    pass


@lru_cache(maxsize=None)
def _parse(path: str) -> ast.Module:
    full = os.path.join(REPO, path)
    with open(full, encoding="utf-8") as f:
        src = f.read()
    return ast.parse(src, filename=full)


def module_ast(path: str) -> ast.Module:
    return _parse(path)


def _find_in(body: list[ast.stmt], name: str, want_last: bool = True):
    found = None
    for node in body:
        if isinstance(node, (ast.FunctionDef, ast.ClassDef)) and node.name == name:
            # skip @overload stubs and property setters (keep first non-overload, prefer getter)
            if isinstance(node, ast.FunctionDef):
                decos = [ast.unparse(d) for d in node.decorator_list]
                if "overload" in decos:
                    continue
                if any(d.endswith(".setter") for d in decos):
                    if found is None:
                        found = node
                    continue
                return node
            return node
    return found


def find_function(path: str, qualname: str, setter: bool = False) -> ast.FunctionDef:
    """Find ``Class.method`` / ``function`` in the module at ``path`` (relative to /repo)."""
    mod = _parse(path)
    body = mod.body
    parts = qualname.split(".")
    node = None
    for i, part in enumerate(parts):
        last = i == len(parts) - 1
        if last and setter:
            node = None
            for cand in body:
                if (
                    isinstance(cand, ast.FunctionDef)
                    and cand.name == part
                    and any(ast.unparse(d).endswith(".setter") for d in cand.decorator_list)
                ):
                    node = cand
            if node is None:
                raise ExtractionError(f"setter {qualname} not found in {path}")
            return node
        node = _find_in(body, part)
        if node is None:
            raise ExtractionError(f"{qualname} not found in {path}")
        if not last:
            if not isinstance(node, ast.ClassDef):
                raise ExtractionError(f"{part} in {qualname} is not a class ({path})")
            body = node.body
    if not isinstance(node, ast.FunctionDef):
        raise ExtractionError(f"{qualname} in {path} is not a function")
    return node


def find_class(path: str, name: str) -> ast.ClassDef:
    mod = _parse(path)
    for node in mod.body:
        if isinstance(node, ast.ClassDef) and node.name == name:
            return node
    raise ExtractionError(f"class {name} not found in {path}")


def source_hash(fn: ast.AST) -> str:
    return hashlib.sha256(ast.dump(fn, include_attributes=False).encode()).hexdigest()[:16]


def strip_docstring(body: list[ast.stmt]) -> list[ast.stmt]:
    if (
        body
        and isinstance(body[0], ast.Expr)
        and isinstance(body[0].value, ast.Constant)
        and isinstance(body[0].value.value, str)
    ):
        return body[1:]
    return body


def simple_property_getters(path: str, classes: list[str]) -> dict[str, ast.expr]:
    """
    Table ``property name -> returned expression`` for every ``@property`` of the given
    classes whose body is a single ``return <expr>`` (after dropping the docstring).
    Rebuilt from the real source on every run.
    """
    out: dict[str, ast.expr] = {}
    for cname in classes:
        try:
            cls = find_class(path, cname)
        except ExtractionError:
            continue
        for node in cls.body:
            if not isinstance(node, ast.FunctionDef):
                continue
            decos = [ast.unparse(d) for d in node.decorator_list]
            if "property" not in decos:
                continue
            body = strip_docstring(node.body)
            if len(body) == 1 and isinstance(body[0], ast.Return) and body[0].value is not None:
                out[f"{cname}.{node.name}"] = body[0].value
    # unqualified entries for property names whose getter expression is the same in every class
    by_name: dict[str, set[str]] = {}
    for k, v in out.items():
        by_name.setdefault(k.split(".", 1)[1], set()).add(ast.unparse(v))
    for k, v in list(out.items()):
        name = k.split(".", 1)[1]
        if len(by_name[name]) == 1:
            out[name] = v
    return out


# ------------------------------------------------------------------ truthiness of class instances
_FALSY_CAPABLE_BASES = {"list", "dict", "set", "tuple", "str", "int", "float", "bytes", "frozenset", "deque", "Sequence", "MutableSequence", "Mapping",
                        "MutableMapping", "Set", "MutableSet", "AbstractSet", "Collection", "Sized", "IntEnum", "IntFlag", "Flag", "StrEnum", "Counter",
                        "OrderedDict", "defaultdict", "UserDict", "UserList", "KeysView", "ValuesView", "ItemsView"}


@lru_cache(maxsize=None)
def _class_index() -> dict:
    """class name -> [(base names, defines __bool__ or __len__)] for every class statement of the live package (all same-named classes)."""
    import glob

    idx: dict = {}
    for f in glob.glob(os.path.join(REPO, "xdsl", "**", "*.py"), recursive=True):
        try:
            tree = ast.parse(open(f, encoding="utf-8").read())
        except (SyntaxError, OSError):
            continue
        for node in ast.walk(tree):
            if isinstance(node, ast.ClassDef):
                own = any(isinstance(b, (ast.FunctionDef, ast.AsyncFunctionDef)) and b.name in ("__bool__", "__len__") for b in node.body)
                own = own or any(isinstance(b, ast.Assign) and any(isinstance(t, ast.Name) and t.id in ("__bool__", "__len__") for t in b.targets) for b in node.body)
                bases = [ast.unparse(b).split("[")[0].split(".")[-1] for b in node.bases]
                idx.setdefault(node.name, []).append((bases, own))
    return idx


def class_overrides_truthiness(name: str, _seen: tuple = ()) -> bool:
    """
    True if an instance of a class of this name may be falsy: some class statement of that name in the live package, or one of its bases
    (resolved by name, transitively), defines __bool__ / __len__ or derives from a container / number type.  `if x:` on such an object is
    not `x is not None`.
    """
    if name in _FALSY_CAPABLE_BASES:
        return True
    idx = _class_index()
    if name in _seen or name not in idx:
        return False
    return any(own or any(class_overrides_truthiness(b, _seen + (name,)) for b in bases) for bases, own in idx[name])
