"""
Bounded native stand-ins for C12: every operation sequence up to a bound over a small universe,
run on the REAL classes and compared step by step with the abstract model of the property.
"""

from __future__ import annotations

import itertools
import random


class Item:
    def __init__(self, n):
        self.n = n

    def __repr__(self):
        return f"i{self.n}"


def _wl_ops(items):
    ops = [("bool",), ("pop",)]
    for it in items:
        ops += [("push", it), ("remove", it)]
    return ops


def run_worklist_seq(seq):
    """Returns None or a failure description.  Model: list without duplicates, LIFO."""
    from xdsl.utils.worklist import Worklist

    w = Worklist()
    model = []
    for step, op in enumerate(seq):
        try:
            if op[0] == "push":
                w.push(op[1])
                if op[1] not in model:
                    model.append(op[1])
            elif op[0] == "remove":
                w.remove(op[1])
                if op[1] in model:
                    model.remove(op[1])
            elif op[0] == "bool":
                got = bool(w)
                if got != bool(model):
                    return {"sequence": repr(seq[: step + 1]), "observed": got, "expected": bool(model), "op": "bool"}
            elif op[0] == "pop":
                try:
                    got = w.pop()
                except IndexError:
                    got = IndexError
                exp = model.pop() if model else IndexError
                if got is not exp:
                    return {"sequence": repr(seq[: step + 1]), "observed": repr(got), "expected": repr(exp), "op": "pop"}
        except Exception as e:  # noqa: BLE001
            return {"sequence": repr(seq[: step + 1]), "raised": repr(e)}
    # drain
    drained = []
    try:
        while w:
            drained.append(w.pop())
    except Exception as e:  # noqa: BLE001
        return {"sequence": repr(seq), "raised in drain": repr(e)}
    if drained != list(reversed(model)):
        return {"sequence": repr(seq), "observed drain": repr(drained), "expected drain": repr(list(reversed(model)))}
    return None


def worklist(tier, seed):
    items = [Item(i) for i in range(3)]
    ops = _wl_ops(items)
    L = 5 if tier == "quick" else 6
    cases = 0
    fails = []
    for n in range(1, L + 1):
        for seq in itertools.product(ops, repeat=n):
            cases += 1
            f = run_worklist_seq(seq)
            if f:
                f["key"] = "C12/worklist-model"
                fails.append(f)
                return {"cases": cases, "failures": fails, "exhaustive": True, "bound": f"all sequences of <= {L} ops over 3 items"}
    rnd = random.Random(seed)
    for _ in range(300 if tier == "quick" else 3000):
        big = [Item(i) for i in range(6)]
        seq = [rnd.choice(_wl_ops(big)) for _ in range(40)]
        cases += 1
        f = run_worklist_seq(seq)
        if f:
            f["key"] = "C12/worklist-model"
            fails.append(f)
            break
    return {"cases": cases, "failures": fails, "exhaustive": True,
            "bound": f"Worklist: all sequences of <= {L} operations (push/remove x3 items, pop, bool) + seeded random length-40 sequences; model = duplicate-free LIFO list"}


# ------------------------------------------------------------------------------ union-find
def _classes(n, pairs):
    cls = list(range(n))
    for a, b in pairs:
        ca, cb = cls[a], cls[b]
        if ca != cb:
            cls = [ca if c == cb else c for c in cls]
    return cls


def run_ds_seq(n0, seq, generic):
    from xdsl.utils.disjoint_set import DisjointSet, IntDisjointSet

    vals = [Item(i) for i in range(16)]
    if generic:
        d = DisjointSet(vals[:n0])
        enc = lambda i: vals[i]
        dec = lambda v: v.n
    else:
        d = IntDisjointSet(size=n0)
        enc = dec = lambda i: i
    n = n0
    pairs = []
    find = (lambda i: dec(d.find(enc(i)))) if generic else (lambda i: d[i])
    for step, op in enumerate(seq):
        cls = _classes(n, pairs)
        try:
            if op[0] == "add":
                if generic:
                    d.add(vals[n])
                else:
                    r = d.add()
                    if r != n:
                        return {"sequence": repr(seq[: step + 1]), "observed": r, "expected": n, "op": "add"}
                n += 1
            elif op[0] in ("union", "union_left"):
                a, b = op[1] % n, op[2] % n
                left_rep = find(a)
                got = getattr(d, op[0])(enc(a), enc(b))
                if got != (cls[a] != cls[b]):
                    return {"sequence": repr(seq[: step + 1]), "observed": got, "expected": cls[a] != cls[b], "op": op[0]}
                pairs.append((a, b))
                if op[0] == "union_left" and find(a) != left_rep:
                    return {"sequence": repr(seq[: step + 1]), "op": "union_left", "observed_rep": find(a), "expected_rep": left_rep}
            elif op[0] == "connected":
                a, b = op[1] % n, op[2] % n
                got = d.connected(enc(a), enc(b))
                if got != (cls[a] == cls[b]):
                    return {"sequence": repr(seq[: step + 1]), "observed": got, "expected": cls[a] == cls[b], "op": "connected"}
        except Exception as e:  # noqa: BLE001
            return {"sequence": repr(seq[: step + 1]), "raised": repr(e)}
        cls = _classes(n, pairs)
        reps = [find(i) for i in range(n)]
        for i in range(n):
            if not (0 <= reps[i] < n) or cls[reps[i]] != cls[i]:
                return {"sequence": repr(seq[: step + 1]), "element": i, "representative": reps[i], "why": "representative not in the class"}
            for j in range(n):
                if (reps[i] == reps[j]) != (cls[i] == cls[j]):
                    return {"sequence": repr(seq[: step + 1]), "elements": (i, j), "why": "partition differs from the unions performed"}
        roots = sorted(dec(r) for r in d.roots()) if generic else sorted(d.roots())
        if roots != sorted(set(reps)):
            return {"sequence": repr(seq[: step + 1]), "roots": roots, "expected": sorted(set(reps))}
    # unknown element -> KeyError
    try:
        if generic:
            d.find(Item(99))
        else:
            d[n]
        return {"sequence": repr(seq), "why": "lookup of unknown element did not raise KeyError"}
    except KeyError:
        pass
    return None


def union_find(tier, seed):
    n0 = 3
    ops = [("add",)]
    for a in range(4):
        for b in range(4):
            if a != b:
                ops += [("union", a, b), ("union_left", a, b)]
    ops += [("connected", 0, 1), ("connected", 1, 2)]
    L = 3 if tier == "quick" else 4
    cases = 0
    for generic in (False, True):
        for n in range(1, L + 1):
            for seq in itertools.product(ops, repeat=n):
                cases += 1
                f = run_ds_seq(n0, seq, generic)
                if f:
                    f["key"] = "C12/union-find-model"
                    f["class"] = "DisjointSet" if generic else "IntDisjointSet"
                    return {"cases": cases, "failures": [f], "exhaustive": True, "bound": "see rule"}
    rnd = random.Random(seed)
    for _ in range(200 if tier == "quick" else 2000):
        seq = []
        for _ in range(25):
            k = rnd.random()
            if k < 0.15:
                seq.append(("add",))
            elif k < 0.8:
                seq.append((rnd.choice(["union", "union_left"]), rnd.randrange(12), rnd.randrange(12)))
            else:
                seq.append(("connected", rnd.randrange(12), rnd.randrange(12)))
        for generic in (False, True):
            cases += 1
            f = run_ds_seq(5, seq, generic)
            if f:
                f["key"] = "C12/union-find-model"
                return {"cases": cases, "failures": [f], "exhaustive": False, "bound": "see rule"}
    return {"cases": cases, "failures": [], "exhaustive": True,
            "bound": f"IntDisjointSet and DisjointSet: all sequences of <= {L} operations (add, union/union_left over 4 elements, connected) from 3 singletons + seeded random length-25 sequences; model = partition induced by the unions"}


# ------------------------------------------------------------------------------ ScopedDict
def scoped_dict(tier, seed):
    from xdsl.utils.scoped_dict import ScopedDict

    keys = ["a", "b"]
    values = [None, 0, 1]
    cases = 0
    sentinel = object()
    # all chains of up to 3 scopes, each scope binding any subset of keys to any value
    scope_choices = []
    for binds in itertools.product([sentinel] + values, repeat=len(keys)):
        scope_choices.append({k: v for k, v in zip(keys, binds) if v is not sentinel})
    depth = 3
    for d in range(1, depth + 1):
        for chain in itertools.product(scope_choices, repeat=d):
            sd = None
            for scope in chain:  # outermost first
                sd = ScopedDict(sd, local_scope=dict(scope))
            for k in keys + ["zz"]:
                cases += 1
                exp = sentinel
                for scope in reversed(chain):
                    if k in scope:
                        exp = scope[k]
                        break
                try:
                    got_item = sd[k]
                except KeyError:
                    got_item = sentinel
                got_in = k in sd
                got_get = sd.get(k, "DEFAULT")
                ok = (got_item is exp) and (got_in == (exp is not sentinel)) and (got_get is (exp if exp is not sentinel else "DEFAULT"))
                if not ok:
                    return {"cases": cases, "exhaustive": True, "bound": "see rule", "failures": [{
                        "key": "C12/scoped-dict-model", "chain (outermost first)": repr(chain), "lookup": k,
                        "expected": repr(exp) if exp is not sentinel else "<undefined>",
                        "getitem": repr(got_item) if got_item is not sentinel else "<KeyError>", "contains": got_in, "get": repr(got_get)}]}
            # __setitem__ only touches the innermost scope
            before = [dict(s) for s in chain]
            sd["a"] = 7
            cur = sd
            scopes = []
            while cur is not None:
                scopes.append(dict(cur.local_scope))
                cur = cur.parent
            scopes.reverse()
            exp_scopes = before[:-1] + [dict(before[-1], a=7)]
            cases += 1
            if scopes != exp_scopes:
                return {"cases": cases, "exhaustive": True, "bound": "see rule", "failures": [{
                    "key": "C12/scoped-dict-model", "chain": repr(chain), "after setitem": repr(scopes), "expected": repr(exp_scopes)}]}
    return {"cases": cases, "failures": [], "exhaustive": True,
            "bound": "ScopedDict: all chains of <= 3 scopes binding any subset of 2 keys to {None, 0, 1}; the three lookup forms against the innermost-definition model; __setitem__ frame"}
