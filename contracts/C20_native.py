"""
Bounded stand-in for C20: ALL parallel-move graphs over a few integer and float registers (every
function from destinations to sources, self-moves, chains, fan-outs, cycles), every free-register
subset; the real ParallelMovPattern is applied and the emitted mv/fmv/xor sequence is executed on
a register machine: every destination must hold its source's old value, nothing else may change
except the designated free registers; otherwise the pass must report failure.
"""

from __future__ import annotations

import itertools
import random

from contracts.common import rechecked

INT_REGS = ["t0", "t1", "t2", "t3"]
FLT_REGS = ["ft0", "ft1", "ft2"]


def reg_type(name):
    from xdsl.dialects import riscv

    if name.startswith("f"):
        return riscv.FloatRegisterType.from_name(name)
    return riscv.IntRegisterType.from_name(name)


@rechecked
def check_moves(moves, free, width):
    """moves: list of (src reg name, dst reg name); free: list of free register names; width: int or list of per-move widths."""
    from xdsl.context import Context
    from xdsl.dialects import builtin, riscv, test
    from xdsl.dialects.builtin import ArrayAttr, DenseArrayBase, ModuleOp, i32
    from xdsl.ir import Block, Region
    from xdsl.transforms.riscv_lower_parallel_mov import RISCVLowerParallelMovPass
    from xdsl.utils.exceptions import PassFailedException

    moves = [tuple(m) for m in moves]
    widths = list(width) if isinstance(width, (list, tuple)) else [width] * len(moves)
    srcs_names = sorted({s for s, _ in moves})
    defs = {n: test.TestOp.create(result_types=[reg_type(n)]) for n in srcs_names}
    inputs = [defs[s].results[0] for s, _ in moves]
    outputs = [reg_type(d) for _, d in moves]
    pm = riscv.ParallelMovOp(inputs, outputs, DenseArrayBase.from_list(i32, widths),
                             ArrayAttr([reg_type(f) for f in free]) if free is not None else None)
    user = test.TestOp.create(operands=list(pm.results))
    module = ModuleOp([*defs.values(), pm, user])
    try:
        pm.verify()
    except Exception:
        return None  # not a valid parallel move (duplicate destinations): outside the property
    try:
        RISCVLowerParallelMovPass().apply(Context(), module)
    except PassFailedException:
        # failure is allowed only when no correct sequence exists: a float cycle without a free float register
        # (the statement does not oblige the pass to find a sequence through a not-designated scratch register)
        if _needs_scratch(moves, "f") and not any(f.startswith("f") for f in (free or [])):
            return None
        return {"moves": moves, "free": free, "width": width, "why": "pass reported failure although a correct sequence exists", "key": "C20/failure"}
    except Exception as e:  # noqa: BLE001
        return {"moves": moves, "free": free, "width": width, "raised": repr(e), "key": "C20/crash"}
    # execute: registers hold symbolic tokens; xor is tracked as a multiset (symmetric difference)
    regs = {}
    allregs = set(INT_REGS + FLT_REGS) | {s for s, _ in moves} | {d for _, d in moves} | set(free or [])
    for r in allregs:
        regs[r] = (frozenset([r]), "full")  # (xor-set of original register contents, "full" | "lo32" = only the low 32 bits are meaningful)
    init = dict(regs)
    val_of = {}  # SSA value -> register name that holds it (by type)
    for op in module.body.block.ops:
        if op.name in ("riscv.mv", "riscv.fmv.s", "riscv.fmv.d"):
            src = op.operands[0].type.register_name.data
            dst = op.results[0].type.register_name.data
            # fmv.s copies the low 32 bits (NaN-boxed): the upper half of the source is lost
            regs[dst] = (regs[src][0], "lo32") if op.name == "riscv.fmv.s" else regs[src]
        elif op.name == "riscv.xor":
            a = op.operands[0].type.register_name.data
            b = op.operands[1].type.register_name.data
            dst = op.results[0].type.register_name.data
            regs[dst] = (regs[a][0] ^ regs[b][0], "full")
        elif op.name in ("test.op", "builtin.module"):
            continue
        else:
            return {"moves": moves, "free": free, "unexpected op": op.name, "key": "C20/ops"}
    # SSA consistency: the i-th operand of the user must be a value of the i-th destination register type
    for (s, d), v in zip(moves, user.operands):
        if v.type.register_name.data != d:
            return {"moves": moves, "free": free, "why": f"result for move {s}->{d} lives in register {v.type.register_name.data}", "key": "C20/result-register"}
    long_int_cycle_without_scratch = any(len(c) >= 3 for c in _cycles(moves, "i")) and not any(not f.startswith("f") for f in (free or []))
    for (s, d), wd in zip(moves, widths):
        ok = regs[d][0] == init[s][0] and (regs[d][1] == "full" or wd == 32 or s == d)
        if not ok:
            return {"moves": moves, "free": free, "width": width, "inputs": {"int_cycle_of_3_or_more_without_scratch": long_int_cycle_without_scratch, "failing_destination_is_a_self_move_whose_register_also_feeds_another_move": s == d and any(s2 == s and d2 != s for s2, d2 in moves)}, "emitted": [o.name + str([x.type.register_name.data for x in o.operands]) + "->" +
                    str([x.type.register_name.data for x in o.results]) for o in module.body.block.ops if o.name.startswith("riscv")],
                    "why": f"after the sequence {d} holds {sorted(regs[d][0])} ({regs[d][1]}), expected the old value of {s} at width {wd}", "key": "C20/simultaneous-assignment"}
    dsts = {d for _, d in moves}
    for r in allregs:
        if r not in dsts and r not in (free or []) and regs[r] != init[r]:
            return {"moves": moves, "free": free, "why": f"register {r} (neither a destination nor a free register) was clobbered",
                    "inputs": {"clobbered_register_is_a_source_of_this_move": r in {s for s, _ in moves}}, "key": "C20/clobber"}
    return None


def _cycles(moves, kind):
    m = {d: s for s, d in moves if s != d and d.startswith("f") == (kind == "f")}
    cyc = []
    for start in m:
        seen = []
        x = start
        while x in m and x not in seen:
            seen.append(x)
            x = m[x]
        if x == start and len(seen) > 1:
            cyc.append(seen)
    return cyc


def _needs_scratch(moves, kind):
    return bool(_cycles(moves, kind))


def _has_leaf_scratch(moves, kind):
    """A destination that is not a source can serve as scratch once written?  (The pattern uses such leaves as free registers.)"""
    srcs = {s for s, d in moves if s != d}
    return any(d not in srcs and d.startswith("f") == (kind == "f") for s, d in moves if s != d)


def all_move_sets(regs, max_dsts):
    for k in range(0, max_dsts + 1):
        for dsts in itertools.combinations(regs, k):
            for srcs in itertools.product(regs, repeat=k):
                yield list(zip(srcs, dsts))


def explore(tier, seed):
    cases = 0
    fails = []
    seen = set()

    def rec(f):
        # one representative per (clause, input class): a failure outside a known finding's class must not be hidden
        k = (f["key"], tuple(sorted((f.get("inputs") or {}).items()))) if f else None
        if f and k not in seen:
            seen.add(k)
            fails.append(f)

    ni, nf = 4, 3
    for moves in all_move_sets(INT_REGS[:ni], ni):
        for free in ([], ["t4"], None):
            cases += 1
            rec(check_moves(moves, free, 32))
    for moves in all_move_sets(FLT_REGS[:nf], nf):
        for free in ([], ["ft3"], None):
            for width in (32, 64):
                cases += 1
                rec(check_moves(moves, free, width))
    # float moves with mixed widths (a 64-bit value must not be moved with fmv.s)
    for moves in all_move_sets(FLT_REGS[:nf], nf):
        srcs = sorted({s_ for s_, _ in moves})
        if len(srcs) >= 2:
            # one width per source value (a value has a single width); all mixed assignments
            for ws in itertools.product((32, 64), repeat=len(srcs)):
                if len(set(ws)) == 2:
                    wmap = dict(zip(srcs, ws))
                    for free in ([], ["ft3"]):
                        cases += 1
                        rec(check_moves(moves, free, [wmap[s_] for s_, _ in moves]))
    # mixed int + float
    rnd = random.Random(seed)
    for _ in range(200 if tier == "quick" else 3000):
        im = rnd.choice(list(all_move_sets(INT_REGS[:3], 3)))
        fm = rnd.choice(list(all_move_sets(FLT_REGS[:2], 2)))
        moves = im + fm
        rnd.shuffle(moves)
        free = rnd.choice([[], ["t4"], ["ft3"], ["t4", "ft3"], None])
        cases += 1
        rec(check_moves(moves, free, rnd.choice([32, 64])))
    return {"cases": cases, "failures": fails, "exhaustive": True,
            "bound": f"every move graph on {ni} integer registers and on {nf} float registers (every destination subset x every source assignment: chains, "
                     "fan-outs, cycles, self-moves), free-register sets {none, one, absent}, widths 32/64 for floats; seeded mixed int+float graphs; "
                     "emitted mv/fmv/xor sequence executed on a register machine"}
