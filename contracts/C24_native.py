"""
Bounded stand-in for C24: ALL control-flow graphs with up to N blocks (every successor list of
length <= 2 per block, self-loops and multi-edges included, unreachable blocks included), the
real DominanceInfo / PostOrderIterator against the path-based graph definitions.
"""

from __future__ import annotations

import itertools
import random

from contracts.common import rechecked


def build(succs):
    from xdsl.dialects import test
    from xdsl.ir import Block, Region

    from xdsl.dialects.builtin import UnregisteredOp

    blocks = [Block() for _ in succs]
    for i, (b, ss) in enumerate(zip(blocks, succs)):
        b.add_op(test.TestOp.create())
        # every third branching block ends in a terminator of an UNREGISTERED dialect: its successors are control-flow edges like any other
        if ss and (i + len(succs)) % 3 == 0:
            b.add_op(UnregisteredOp.with_name("mycf.br").create(successors=[blocks[s] for s in ss]))
        else:
            b.add_op(test.TestTermOp.create(successors=[blocks[s] for s in ss]))
    return Region(blocks), blocks


def reach(succs, start=0, removed=None):
    seen = set()
    if start == removed:
        return seen
    work = [start]
    seen.add(start)
    while work:
        x = work.pop()
        for s in succs[x]:
            if s != removed and s not in seen:
                seen.add(s)
                work.append(s)
    return seen


def dominates_def(succs, a, b):
    """a dominates reachable b  <=>  every path entry ->* b passes through a  <=>  b unreachable once a is removed (or a == b)."""
    if a == b:
        return True
    return b not in reach(succs, 0, removed=a)


@rechecked
def check_graph(succs):
    from xdsl.ir.post_order import PostOrderIterator
    from xdsl.irdl.dominance import DominanceInfo

    succs = [list(s) for s in succs]
    region, blocks = build(succs)
    n = len(blocks)
    try:
        dom = DominanceInfo(region)
    except Exception as e:  # noqa: BLE001
        return {"graph": succs, "raised": repr(e), "key": "C24/dominance"}
    reachable = reach(succs)
    for b in sorted(reachable):
        for a in range(n):
            exp = dominates_def(succs, a, b)
            got = dom.dominates(blocks[a], blocks[b])
            if got != exp:
                return {"graph (successor lists, block 0 is the entry)": succs, "a": a, "b": b, "dominates(a,b)": got, "every entry->b path meets a": exp,
                        "key": "C24/dominance"}
            sg = dom.strictly_dominates(blocks[a], blocks[b])
            if sg != (exp and a != b):
                return {"graph": succs, "a": a, "b": b, "strictly_dominates(a,b)": sg, "expected": exp and a != b, "key": "C24/strict-dominance"}
            # the public module-level entry point (builds its own table)
            from xdsl.irdl.dominance import strictly_dominates

            try:
                pg = strictly_dominates(blocks[a], blocks[b])
            except Exception as e:  # noqa: BLE001
                return {"graph": succs, "a": a, "b": b, "module-level strictly_dominates raised": repr(e), "key": "C24/strict-dominance"}
            if pg != (exp and a != b):
                return {"graph": succs, "a": a, "b": b, "module-level strictly_dominates(a,b)": pg, "expected": exp and a != b, "key": "C24/strict-dominance"}
    order = [blocks.index(x) for x in PostOrderIterator(blocks[0])]
    if sorted(order) != sorted(reachable) or len(set(order)) != len(order):
        return {"graph": succs, "post-order": order, "reachable": sorted(reachable), "why": "not exactly the reachable blocks, each once", "key": "C24/post-order"}
    if order[-1] != 0:
        return {"graph": succs, "post-order": order, "why": "entry block is not last", "key": "C24/post-order"}
    return None


def all_graphs(n):
    opts = [()]
    for a in range(n):
        opts.append((a,))
    for a in range(n):
        for b in range(n):
            opts.append((a, b))
    return itertools.product(opts, repeat=n)


def explore(tier, seed):
    maxn = 3 if tier == "quick" else 4
    cases = 0
    fails = []
    seen = set()
    for n in range(1, maxn + 1):
        for g in all_graphs(n):
            cases += 1
            f = check_graph(g)
            if f and f["key"] not in seen:
                seen.add(f["key"])
                fails.append(f)
    rnd = random.Random(seed)
    for _ in range(300 if tier == "quick" else 3000):
        n = rnd.randrange(4, 9)
        g = [tuple(rnd.randrange(0, n) for _ in range(rnd.randrange(0, 3))) for _ in range(n)]
        cases += 1
        f = check_graph(g)
        if f and f["key"] not in seen:
            seen.add(f["key"])
            fails.append(f)
    return {"cases": cases, "failures": fails, "exhaustive": True,
            "bound": f"every CFG with <= {maxn} blocks and <= 2 successors per block (self-loops, multi-edges, unreachable blocks) exhaustively, "
                     "plus seeded random CFGs with 4..8 blocks; dominates/strictly_dominates for every (a, reachable b) against the path definition; "
                     "post-order = reachable blocks exactly once, entry last"}
