"""
C29 — Symbol lookup returns the operation the nesting rules designate.

Statement (quoted): "Looking up a flat or nested symbol reference from an operation returns the
operation with that name in the nearest enclosing symbol table (following nested tables and
refusing private symbols reached through nesting), or nothing if there is none, and the cached
symbol-table lookup agrees with the direct lookup on every verified module."

IR abstraction: children(t) = the ops of the single block of table t (ghost sequence CH/NCH: the
forward walk of block.ops, see C01), NAME(o) (0 = not a symbol), ISTABLE(o), PRIVATE(o),
PARENTOP(o).  Spec functions: FIRST(t, n) = first child of t named n; NEAREST(o) = nearest
enclosing table (one-level unfolding axiom).
"""

from __future__ import annotations

import os

import z3

from contracts import C29_native as N29
from contracts.common import A, C, forall
from pyvc.spec import Builtin, Inline, Spec
from pyvc.values import Clause, VBool, VGlobal, VInt, VRef, VSeq, VTuple, Vocab, z_int

PROP = "C29"
ST = "xdsl/utils/symbol_table.py"
TR = "xdsl/traits.py"
I = z3.IntSort()
Bo = z3.BoolSort()

VOCAB = Vocab({"_symbol_table": "dict:int:ref:Operation", "_symbol_table_op": "ref:Operation", "_uniquing_counter": "int",
               "_symbol_tables": "dict:ref:ref:SymbolTable"})

CH = z3.Function("children", I, z3.ArraySort(I, I))  # table op -> sequence of child ops
NCH = z3.Function("n_children", I, I)
NAME = z3.Function("sym_name", I, I)  # 0: the op defines no symbol
ISTABLE = z3.Function("is_symbol_table", I, Bo)
PRIVATE = z3.Function("is_private", I, Bo)
PARENTOP = z3.Function("parent_op", I, I)
FIRST = z3.Function("first_child_named", I, I, I)
NEAREST = z3.Function("nearest_table", I, I)
EMPTY_NAME = z3.Function("is_empty_string", I, Bo)


def children_seq(t):
    return VSeq(CH(t), NCH(t), "ref", "Operation")


def first_characterisation(t, name, r):
    """r is the first child of t whose symbol name is `name`, or 0 if there is none."""
    j, k = z3.Ints("fc!j fc!k")
    none = z3.And(r == 0, forall([j], z3.Implies(z3.And(j >= 0, j < NCH(t)), NAME(CH(t)[j]) != name)))
    some = z3.Exists([k], z3.And(k >= 0, k < NCH(t), r == CH(t)[k], NAME(r) == name,
                                 forall([j], z3.Implies(z3.And(j >= 0, j < k), NAME(CH(t)[j]) != name))))
    return z3.Or(none, some)


def world_axioms():
    t, x = z3.Ints("wa!t wa!x")
    j = z3.Int("wa!j")
    return [
        A("children-nonneg", forall([t], NCH(t) >= 0)),
        A("children-are-objects", forall([t, j], z3.Implies(z3.And(j >= 0, j < NCH(t)), CH(t)[j] != 0))),
        A("nearest-unfold", forall([x], NEAREST(x) == z3.If(x == 0, 0, z3.If(ISTABLE(x), x, NEAREST(PARENTOP(x)))), patterns=[NEAREST(x)])),
    ]


def b_has_trait(ex, st, args, kw):
    from pyvc.engine import Res

    return [Res("val", VBool(ISTABLE(args[0].z)), st)]


def b_parent_op(ex, st, args, kw):
    from pyvc.engine import Res

    return [Res("val", VRef(PARENTOP(args[0].z), "Operation"), st)]


def b_get_name(ex, st, args, kw):
    from pyvc.engine import Res

    return [Res("val", VRef(NAME(args[0].z), "str"), st)]


def b_visibility(ex, st, args, kw):
    from pyvc.engine import Res

    # Visibility enum members as small ints: 1 public/nested, 2 private
    return [Res("val", VRef(z3.If(PRIVATE(args[0].z), z3.IntVal(2), z3.IntVal(1)), "Visibility"), st)]


COMMON_CALLS = {
    ".has_trait": Builtin(b_has_trait, "op.has_trait(traits.SymbolTable, ...) == ISTABLE(op)"),
    ".parent_op": Builtin(b_parent_op),
    "get_name_if_symbol": Builtin(b_get_name, "symbol name of the op (0/None if it is not a symbol)"),
    "SymbolTable.get_symbol_visibility": Builtin(b_visibility),
}
COMMON_GLOBALS = {"Visibility": VGlobal("Visibility")}


class _Base(Spec):
    prop, file = PROP, ST
    calls = COMMON_CALLS

    @property
    def globals(self):
        def eq(ex, st, a, b):
            # symbol names are strings, Int-coded (equal strings <=> equal codes); None is code 0
            from pyvc.values import lift_bool

            if isinstance(a, (VInt, int)) and (b is None or isinstance(b, (VInt, int))) and not isinstance(a, bool):
                return lift_bool(z_int(a) == z_int(b))
            return None

        # a symbol name is a str: its truthiness is NOT `is not None` (the empty string is a legal, falsy symbol name)
        return {"__eq__": eq, "__truthy__": {"str": lambda st, v: z3.And(v.z != 0, z3.Not(EMPTY_NAME(v.z)))}}


class DirectChildren(_Base):
    qualname = "_lookup_symbol_in_direct_children"

    def setup(self, st, inst):
        t = st.declare_input("table", z3.Int("table"))
        n = st.declare_input("name", z3.Int("name"))
        self._is_attr = inst["attr"]
        return {"symbol_table_op": VRef(t, "Operation"), "symbol": VRef(z3.Int("symbol_obj"), "StringAttr") if inst["attr"] else VRef(n, "str"),
                "_name": n, "_t": t}

    def bind(self, st, a, inst):
        return {"isinstance(symbol, StringAttr)": inst["attr"], "symbol.data": VRef(a["_name"], "str"),
                "symbol_table_op.regions[0].blocks[0]": VRef(z3.Int("block"), "Block"),
                "block.ops": children_seq(a["_t"])}

    def pre(self, st, a):
        return world_axioms() + [A("name-is-a-string", a["_name"] != 0), A("table-not-none", a["_t"] != 0)]

    def inv(self, n, entry, st, a, lv):
        j = z3.Int("dc!j")
        t = a["_t"]
        return [A("no-earlier-child-has-that-name", forall([j], z3.Implies(z3.And(j >= 0, j < lv["k"]), NAME(CH(t)[j]) != a["_name"])))]

    def post(self, old, st, a, res):
        r = z_int(res)
        return [C("first-child-with-that-name-or-none", first_characterisation(a["_t"], a["_name"], r))]

    # callee view
    def result_value(self, st, a):
        return VRef(st.fresh_int("found"), "Operation")


class _LookupFn(Spec):
    """The `lookup_symbol` callable handed to _lookup_symbol_ref_in: the direct-children lookup contract."""

    prop, file, qualname = PROP, ST, "_lookup_symbol_in_direct_children"

    def result_value(self, st, a):
        t = a["symbol_table_op"].z
        n = z_int(a["symbol"])
        return VRef(FIRST(t, n), "Operation")

    def post(self, old, st, a, res):
        return [A("first-characterisation", first_characterisation(a["symbol_table_op"].z, z_int(a["symbol"]), res.z))]


def resolve_chain(t, root, nested):
    """(defined, [s0..sL]) by the nesting rules of the statement."""
    s = [FIRST(t, root)]
    ok = [s[0] != 0]
    for ref in nested:
        prev = s[-1]
        nxt = FIRST(prev, ref)
        ok.append(z3.And(ISTABLE(prev), nxt != 0, z3.Not(PRIVATE(nxt))))
        s.append(nxt)
    return z3.And(*ok), s


class RefIn(_Base):
    qualname = "_lookup_symbol_ref_in"

    def __init__(self):
        self.calls = dict(COMMON_CALLS)
        self.calls["lookup_symbol"] = _LookupFn()

    @property
    def globals(self):
        g = dict(_Base.globals.fget(self))
        g["Visibility"] = VGlobal("Visibility")
        return g

    def setup(self, st, inst):
        L = inst["nested"]
        t = st.declare_input("table", z3.Int("table"))
        root = st.declare_input("root", z3.Int("root"))
        refs = [st.declare_input(f"ref{i}", z3.Int(f"ref{i}")) for i in range(L)]
        return {"symbol_table_op": VRef(t, "Operation"), "symbol": VRef(z3.Int("symref"), "SymbolRefAttr"),
                "lookup_symbol": VRef(z3.IntVal(7), "callable"), "_t": t, "_root": root, "_refs": refs}

    def bind(self, st, a, inst):
        return {"symbol.root_reference": VRef(a["_root"], "str"), "symbol.nested_references.data": VTuple([VRef(r, "str") for r in a["_refs"]]),
                "Visibility.PRIVATE": VRef(z3.IntVal(2), "Visibility")}

    def pre(self, st, a):
        return world_axioms() + [A("names-are-strings", z3.And(a["_root"] != 0, *[r != 0 for r in a["_refs"]])), A("table-not-none", a["_t"] != 0)]

    def post(self, old, st, a, res):
        ok, chain = resolve_chain(a["_t"], a["_root"], a["_refs"])
        if res is None:
            return [C("None-only-when-the-reference-does-not-resolve", z3.Not(ok))]
        items = res.items if isinstance(res, VTuple) else None
        if items is None or len(items) != len(chain):
            return [C("one-entry-per-reference-component", z3.BoolVal(False))]
        return [C("resolves", ok)] + [C(f"component-{i}-is-the-designated-op", z_int(x) == c) for i, (x, c) in enumerate(zip(items, chain))]


class _RefInCallee(Spec):
    """_lookup_symbol_ref_in seen by SymbolTable.lookup_symbol_in (modular)."""

    prop, file, qualname = PROP, ST, "_lookup_symbol_ref_in"
    RES = z3.Function("resolve_last", I, I, I)  # (table, symref object) -> designated op or 0

    def exc_cases(self, st, a):
        return []

    def result_value(self, st, a):
        return "FORK"


def b_ref_in(ex, st, args, kw):
    """Callee model of _lookup_symbol_ref_in: None iff unresolved, else a list whose last element is RESOLVE."""
    from pyvc.engine import Res

    t, symref = args[0].z, args[1].z
    r = _RefInCallee.RES(t, symref)
    out = []
    for taken, bs in ex.split(st, r == 0):
        if taken:
            out.append(Res("val", None, bs))
        else:
            n = bs.fresh_int("nsyms")
            bs.assume(n >= 1)
            arr = bs.fresh("syms", z3.ArraySort(I, I))
            bs.assume(z3.Select(arr, n - 1) == r)
            out.append(Res("val", VSeq(arr, n, "ref", "Operation"), bs))
    return out


class LookupSymbolIn(_Base):
    qualname = "SymbolTable.lookup_symbol_in"

    def __init__(self):
        self.calls = dict(COMMON_CALLS)
        self.calls["_lookup_symbol_in_direct_children"] = _LookupFn()
        self.calls["_lookup_symbol_ref_in"] = Builtin(b_ref_in, "contract of _lookup_symbol_ref_in (proved separately): None iff unresolved, last element = designated op")

    def setup(self, st, inst):
        t = st.declare_input("table", z3.Int("table"))
        n = st.declare_input("name", z3.Int("name"))
        flat = inst["flat"]
        sym = VRef(n, "str") if flat else VRef(st.declare_input("symref", z3.Int("symref")), "SymbolRefAttr")
        return {"op": VRef(t, "Operation"), "symbol": sym, "all_symbols": inst["all"], "_t": t, "_name": n, "_flat": flat}

    def bind(self, st, a, inst):
        return {"op.get_trait(traits.SymbolTable) is not None": True, "isinstance(symbol, str | StringAttr)": inst["flat"]}

    def pre(self, st, a):
        return world_axioms() + [A("name-is-a-string", a["_name"] != 0), A("table", z3.And(a["_t"] != 0, ISTABLE(a["_t"])))]

    def post(self, old, st, a, res):
        t = a["_t"]
        if a["_flat"]:
            exp = FIRST(t, a["_name"])
        else:
            exp = _RefInCallee.RES(t, a["symbol"].z)
        if a["all_symbols"]:
            if res is None:
                return [C("None-iff-unresolved", exp == 0)]
            if isinstance(res, VTuple):
                return [C("resolved", exp != 0), C("last-is-designated-op", z_int(res.items[-1]) == exp)]
            return [C("resolved", exp != 0), C("last-is-designated-op", z3.Select(res.arr, res.n - 1) == exp)]
        return [C("returns-designated-op-or-None", z_int(res) == exp)]


class NearestTable(_Base):
    qualname = "SymbolTable.get_nearest_symbol_table"

    def setup(self, st, inst):
        o = st.declare_input("from_op", z3.Int("from_op"))
        return {"from_op": VRef(o, "Operation"), "_o": o}

    def pre(self, st, a):
        return world_axioms() + [A("from-op-not-none", a["_o"] != 0)]

    def inv(self, n, entry, st, a, lv):
        op = lv["env"]["op"]
        return [A("same-nearest-table", NEAREST(z_int(op)) == NEAREST(a["_o"]))]

    def post(self, old, st, a, res):
        return [C("nearest-enclosing-symbol-table-or-None", z_int(res) == NEAREST(a["_o"]))]


class _NearestCallee(Spec):
    prop, file, qualname = PROP, ST, "SymbolTable.get_nearest_symbol_table"

    def result_value(self, st, a):
        return VRef(NEAREST(a["from_op"].z), "Operation")

    def post(self, old, st, a, res):
        return [A("is-a-table", z3.Or(res.z == 0, ISTABLE(res.z)))]


class _LookupInCallee(Spec):
    prop, file, qualname = PROP, ST, "SymbolTable.lookup_symbol_in"
    LOOKUP = z3.Function("lookup_in", I, I, I)

    def result_value(self, st, a):
        return VRef(_LookupInCallee.LOOKUP(a["op"].z, z_int(a["symbol"])), "Operation")

    def pre(self, st, a):
        return [C("callee-requires-a-symbol-table", z3.And(a["op"].z != 0, ISTABLE(a["op"].z)))]


class LookupNearest(_Base):
    qualname = "SymbolTable.lookup_nearest_symbol_from"

    def __init__(self):
        self.calls = dict(COMMON_CALLS)
        self.calls["SymbolTable.get_nearest_symbol_table"] = _NearestCallee()
        self.calls["SymbolTable.lookup_symbol_in"] = _LookupInCallee()

    def setup(self, st, inst):
        o = st.declare_input("from_op", z3.Int("from_op"))
        s = st.declare_input("symbol", z3.Int("symbol"))
        return {"from_op": VRef(o, "Operation"), "symbol": VRef(s, "Attr"), "_o": o, "_s": s}

    def pre(self, st, a):
        return world_axioms() + [A("from-op-not-none", a["_o"] != 0)]

    def post(self, old, st, a, res):
        t = NEAREST(a["_o"])
        return [C("looks-up-in-the-nearest-table", z_int(res) == z3.If(t == 0, 0, _LookupInCallee.LOOKUP(t, a["_s"])))]


class CacheBuild(_Base):
    """utils.SymbolTable.__init__: name -> child (the last child with that name wins)."""

    qualname = "SymbolTable.__init__"
    modifies = ["dict#dom", "dict#val", "_symbol_table", "_symbol_table_op", "_uniquing_counter"]

    def setup(self, st, inst):
        me = st.declare_input("self", z3.Int("self"))
        t = st.declare_input("table", z3.Int("table"))
        return {"self": VRef(me, "SymbolTable"), "symbol_table_op": VRef(t, "Operation"), "_t": t, "_me": me}

    def bind(self, st, a, inst):
        return {"symbol_table_op.get_trait(traits.SymbolTable) is not None": True,
                "self._symbol_table_op.regions[0].blocks[0]": VRef(z3.Int("block"), "Block"),
                "block.ops": children_seq(a["_t"])}

    def pre(self, st, a):
        return world_axioms() + [A("objects", z3.And(a["_t"] != 0, a["_me"] != 0))]

    def cache_ok(self, st, a, k):
        """dict content after the first k children."""
        t = a["_t"]
        d = st.sel("_symbol_table", a["_me"])
        n, j, j2 = z3.Ints("cb!n cb!j cb!j2")
        return [
            A("cache-domain", forall([n], z3.Implies(n != 0, st.dict_has(d, n) == z3.Exists([j], z3.And(j >= 0, j < k, NAME(CH(t)[j]) == n))))),
            A("cache-values", forall([n], z3.Implies(z3.And(n != 0, st.dict_has(d, n)), z3.Exists([j], z3.And(
                j >= 0, j < k, st.dict_val(d, n) == CH(t)[j], NAME(CH(t)[j]) == n,
                forall([j2], z3.Implies(z3.And(j2 > j, j2 < k), NAME(CH(t)[j2]) != n))))))),
            A("no-None-key", z3.Not(st.dict_has(d, 0))),
        ]

    def inv(self, n, entry, st, a, lv):
        return self.cache_ok(st, a, lv["k"]) + [A("same-dict", st.sel("_symbol_table", a["_me"]) == entry.sel("_symbol_table", a["_me"])),
                                                A("op-recorded", st.sel("_symbol_table_op", a["_me"]) == a["_t"])]

    def post(self, old, st, a, res):
        t = a["_t"]
        d = st.sel("_symbol_table", a["_me"])
        n, i, j = z3.Ints("cp!n cp!i cp!j")
        unique = forall([i, j], z3.Implies(z3.And(i >= 0, i < NCH(t), j >= 0, j < NCH(t), i != j, NAME(CH(t)[i]) != 0),
                                           NAME(CH(t)[i]) != NAME(CH(t)[j])))
        out = [Clause(c.name, c.z, "aux") for c in self.cache_ok(st, a, NCH(t))]
        # "the cached lookup agrees with the direct lookup on every verified module" (names unique)
        out.append(C("cached-agrees-with-direct-lookup-when-names-are-unique", z3.Implies(unique, forall([n], z3.Implies(
            n != 0, first_characterisation(t, n, z3.If(st.dict_has(d, n), st.dict_val(d, n), z3.IntVal(0))))))))
        return out


class CacheLookup(_Base):
    qualname = "SymbolTable.lookup"

    def setup(self, st, inst):
        me = st.declare_input("self", z3.Int("self"))
        n = st.declare_input("name", z3.Int("name"))
        return {"self": VRef(me, "SymbolTable"), "name": VRef(z3.Int("nameobj"), "StringAttr") if inst["attr"] else VRef(n, "str"), "_n": n, "_me": me}

    def bind(self, st, a, inst):
        return {"isinstance(name, StringAttr)": inst["attr"], "name.data": VRef(a["_n"], "str")}

    def pre(self, st, a):
        return [A("objects", z3.And(a["_me"] != 0, a["_n"] != 0))]

    def post(self, old, st, a, res):
        d = old.sel("_symbol_table", a["_me"])
        return [C("returns-the-cached-entry-or-None", z_int(res) == z3.If(old.dict_has(d, a["_n"]), old.dict_val(d, a["_n"]), z3.IntVal(0)))]


def _native(tier, seed):
    return N29.explore(tier, seed)


NATIVE = [("nested-modules", _native)]


def _search(self, inst, seed):
    r = N29.explore("quick", seed)
    return r["failures"][0] if r["failures"] else None


_Base.native_search = _search


HAS_TRAIT_Q = z3.Function("has_trait_answer", I, Bo)  # (only reached if the code starts asking for traits: nothing is known about the answer)


class TraitVerify(Spec):
    """
    traits.SymbolTable.verify(op) - what "verified module" means for the cached lookup: it returns normally ONLY IF no two children of the table
    carry the same StringAttr `sym_name` (NAME, 0 = none); it raises VerifyException only if there is such a pair (for a table of one region
    with one block).  This is the `unique` hypothesis of unit CacheBuild.
    """

    prop, file, qualname = PROP, TR, "SymbolTable.verify"
    raises_ok = ("VerifyException",)
    modifies = ["dict#dom", "dict#val"]

    def __init__(self):
        from pyvc.engine import Res

        def b_get_attr(ex, st, args, kw):
            o = args[0].z
            out = []
            for named, bs in ex.split(st, NAME(o) != 0):
                if named:
                    out.append(Res("val", VRef(NAME(o), "StringAttr"), bs))
                    continue
                for absent, bs2 in ex.split(bs, z3.Bool(f"sym_name_absent_{o}")):
                    out.append(Res("val", None if absent else VRef(bs2.fresh_int("other_attr"), "OtherAttr"), bs2))
            return out

        self.calls = {".get_attr_or_prop": Builtin(b_get_attr, "o.get_attr_or_prop('sym_name'): the StringAttr naming the symbol (code NAME(o)), another attribute, or None"),
                      ".has_trait": Builtin(lambda ex, st, a, k: [Res("val", VBool(HAS_TRAIT_Q(a[0].z)), st)], "has_trait(...): uninterpreted answer"),
                      "SymbolOpInterface": Builtin(lambda ex, st, a, k: [Res("val", VRef(z3.IntVal(77), "OpTrait"), st)], "a trait object")}

    @property
    def globals(self):
        def isinst(ex, st, v, cls):
            if isinstance(cls, VGlobal) and cls.text == "StringAttr":
                return isinstance(v, VRef) and v.cls == "StringAttr"
            return None

        def getattr_(ex, st, base, attr):
            if base.cls == "StringAttr" and attr == "data":
                return VRef(base.z, "str")
            return None

        return {"__isinstance__": isinst, "__getattr__": getattr_, "StringAttr": VGlobal("StringAttr"), "__fstring__": lambda ex, st, parts: VRef(z3.IntVal(1), "str")}

    def setup(self, st, inst):
        t = st.declare_input("op", z3.Int("op"))
        return {"self": VRef(z3.IntVal(1), "SymbolTableTrait"), "op": VRef(t, "Operation"), "_t": t}

    def bind(self, st, a, inst):
        return {"len(op.regions) != 1": False, "len(op.regions[0].blocks) != 1": False,
                "op.regions[0].blocks[0]": VRef(z3.Int("block"), "Block"), "block.ops": children_seq(a["_t"])}

    def pre(self, st, a):
        return [A("objects", z3.And(a["_t"] != 0, NCH(a["_t"]) >= 0))]

    @staticmethod
    def unique_upto(t, k):
        i, j = z3.Ints("tv!i tv!j")
        return forall([i, j], z3.Implies(z3.And(i >= 0, i < k, j >= 0, j < k, i != j, NAME(CH(t)[i]) != 0), NAME(CH(t)[i]) != NAME(CH(t)[j])))

    def inv(self, n, entry, st, a, lv):
        t, k = a["_t"], lv["k"]
        met = lv["env"]["met_names"].z
        x, j = z3.Ints("ti!x ti!j")
        return [A("met-names-are-the-names-seen-so-far", forall([x], st.dict_has(met, x) == z3.And(x != 0, z3.Exists([j], z3.And(j >= 0, j < k, NAME(CH(t)[j]) == x))))),
                A("no-duplicate-so-far", self.unique_upto(t, k))]

    def post(self, old, st, a, res):
        return [C("accepted-only-if-no-two-children-define-the-same-symbol", self.unique_upto(a["_t"], NCH(a["_t"])))]

    def post_exc(self, old, st, a, exc):
        if exc == "VerifyException":
            return [C("rejected-only-if-two-children-define-the-same-symbol", z3.Not(self.unique_upto(a["_t"], NCH(a["_t"]))))]
        return None

    def native_search(self, inst, seed):
        r = N29.explore("quick", seed)
        return r["failures"][0] if r["failures"] else None


def make_specs(tier):
    specs = []

    def add(s, insts):
        s.instances = insts
        specs.append(s)

    add(DirectChildren(), [{"attr": False}, {"attr": True}])
    add(RefIn(), [{"nested": L} for L in range(0, 4 if tier == "quick" else 6)])
    add(LookupSymbolIn(), [{"flat": f, "all": al} for f in (True, False) for al in (True, False)])
    add(NearestTable(), [{}])
    add(LookupNearest(), [{}])
    add(CacheBuild(), [{}])
    add(CacheLookup(), [{"attr": False}, {"attr": True}])
    add(TraitVerify(), [{}])
    return specs


ASSUMPTIONS = [
    "block.ops of the table's single block is abstracted as the ghost child sequence (forward walk; its well-formedness is C01)",
    "get_name_if_symbol / has_trait(SymbolTable) / parent_op / get_symbol_visibility are abstracted by uninterpreted functions NAME/ISTABLE/PARENTOP/PRIVATE "
    "(SymbolOpInterface.get_sym_attr_name and trait lookup are not under contract)",
    "symbol names are strings, Int-coded: equal strings <=> equal codes",
    "nested references: units for 0..3 (quick) / 0..5 (thorough) components; parent chain finite (partial correctness of get_nearest_symbol_table)",
    "SymbolTableCollection and traits.SymbolTable.lookup_symbol (which delegates to utils after the fix) are covered by the bounded stand-in only",
    "no IR edit between SymbolTable construction and lookup (cache agreement is stated for the state at construction)",
]

SPECS = make_specs(os.environ.get("VERIF_TIER", "quick"))
