"""
C15 — The interpreter computes MLIR semantics for arithmetic.

Statement (quoted): "integer results wrap to the type width and stay in the type's range,
unsigned predicates and operations interpret bit patterns as unsigned, signed ones as two's
complement, casts truncate or extend as specified, and floating-point operations follow
IEEE-754."

Representation precondition (from xdsl/utils/comparisons.py's own documentation): an integer
operand of width w is any value in the signless range [-2^(w-1), 2^w).
Top-level postconditions are stated on *bit patterns* (x mod 2^w), so they do not depend on
which representative the interpreter returns.
"""

from __future__ import annotations

import z3

from contracts import C15_native as N
from contracts.common import A, C, bits, bitwise_axioms, division_axioms, in_signed, in_signless, in_unsigned, sgn, truncdiv
from pyvc.arith import PYAND, PYOR, PYXOR, floordiv
from pyvc.spec import Inline, Spec
from pyvc.values import Clause, F64, VBool, VFloat, VInt, VRef, VTuple, Vocab, lift_int

PROP = "C15"
CMP = "xdsl/utils/comparisons.py"
ARI = "xdsl/interpreters/arith.py"

VOCAB = Vocab({})

QUICK_WIDTHS = [1, 2, 3, 8, 16, 32, 64]
ALL_WIDTHS = list(range(1, 65)) + [128]

HELPERS = {
    "unsigned_upper_bound": Inline(CMP, "unsigned_upper_bound"),
    "signed_lower_bound": Inline(CMP, "signed_lower_bound"),
    "signed_upper_bound": Inline(CMP, "signed_upper_bound"),
    "to_signed": Inline(CMP, "to_signed"),
    "to_unsigned": Inline(CMP, "to_unsigned"),
    "_truncate": Inline(ARI, "_truncate"),
    "_sign_extend": Inline(ARI, "_sign_extend"),
}


def widths(tier):
    return ALL_WIDTHS if tier == "thorough" else QUICK_WIDTHS


# ------------------------------------------------------------------ comparisons.py helpers
class ToSigned(Spec):
    prop, file, qualname = PROP, CMP, "to_signed"
    inline = HELPERS

    def setup(self, st, inst):
        x = st.declare_input("signless", z3.Int("signless"))
        return {"signless": VInt(x), "bitwidth": inst["w"], "_w": inst["w"]}

    def pre(self, st, a):
        return [A("signless-range", in_signless(a["signless"].z, a["_w"]))]

    def post(self, old, st, a, res):
        w = a["_w"]
        r = res.z if isinstance(res, VInt) else z3.IntVal(res)
        return [C("in-signed-range", in_signed(r, w)), C("same-bits", bits(r, w) == bits(a["signless"].z, w))]

    def replay(self, inst, m):
        from xdsl.utils.comparisons import to_signed

        w, x = inst["w"], m["signless"]
        r = to_signed(x, w)
        lo, hi = -((1 << w) >> 1), 1 << max(w - 1, 0)
        if not (lo <= r < hi and (r - x) % (1 << w) == 0):
            return f"to_signed({x}, {w}) = {r}"
        return None


class ToUnsigned(Spec):
    prop, file, qualname = PROP, CMP, "to_unsigned"
    inline = HELPERS

    def setup(self, st, inst):
        x = st.declare_input("signless", z3.Int("signless"))
        return {"signless": VInt(x), "bitwidth": inst["w"], "_w": inst["w"]}

    def pre(self, st, a):
        return [A("signless-range", in_signless(a["signless"].z, a["_w"]))]

    def post(self, old, st, a, res):
        w = a["_w"]
        r = res.z if isinstance(res, VInt) else z3.IntVal(res)
        return [C("in-unsigned-range", in_unsigned(r, w)), C("same-bits", r == bits(a["signless"].z, w))]

    def replay(self, inst, m):
        from xdsl.utils.comparisons import to_unsigned

        w, x = inst["w"], m["signless"]
        r = to_unsigned(x, w)
        if not (0 <= r < (1 << w) and r == x % (1 << w)):
            return f"to_unsigned({x}, {w}) = {r}"
        return None


class ValueRange(Spec):
    """signed_/unsigned_/signless_value_range(bitwidth) return the documented half-open ranges."""

    prop, file = PROP, CMP
    inline = HELPERS

    def __init__(self, qualname, lo, hi):
        self.qualname = qualname
        self.lo, self.hi = lo, hi

    def setup(self, st, inst):
        return {"bitwidth": inst["w"], "_w": inst["w"]}

    def post(self, old, st, a, res):
        w = a["_w"]
        lo, hi = res.items
        return [C("lower", z3.BoolVal(lo == self.lo(w))), C("upper", z3.BoolVal(hi == self.hi(w)))]


# ------------------------------------------------------------------ ArithFunctions.run_*
def _trunc_spec(name):
    return {
        "addi": lambda a, b, w: bits(a + b, w),
        "subi": lambda a, b, w: bits(a - b, w),
        "muli": lambda a, b, w: bits(bits(a, w) * bits(b, w), w),
        "andi": lambda a, b, w: PYAND(bits(a, w), bits(b, w)),
        "ori": lambda a, b, w: PYOR(bits(a, w), bits(b, w)),
        "xori": lambda a, b, w: PYXOR(bits(a, w), bits(b, w)),
    }[name]


class IntBinop(Spec):
    """run_<op>(self, interpreter, op, args) for the two-operand integer ops."""

    prop, file = PROP, ARI
    inline = HELPERS

    def __init__(self, fn, mlir, poison=None, kind="int", lemma=None):
        self.lemma = lemma  # optional auxiliary lemma (r, a, b, w) assumed by the later clauses once proved
        self.qualname = f"ArithFunctions.{fn}"
        self.mlir = mlir  # (a, b, w) -> expected bit pattern (z3 Int in [0, 2^w))
        self.poison = poison  # (a, b, w) -> z3 Bool: MLIR result undefined/poison (excluded)
        self.kind = kind

    def setup(self, st, inst):
        x = st.declare_input("lhs", z3.Int("lhs"))
        y = st.declare_input("rhs", z3.Int("rhs"))
        return {
            "self": VRef(z3.IntVal(1), "ArithFunctions"),
            "interpreter": VRef(z3.IntVal(2), "Interpreter"),
            "op": VRef(z3.IntVal(3), "Operation"),
            "args": VTuple([VInt(x), VInt(y)]),
            "_w": inst["w"],
        }

    def bind(self, st, a, inst):
        w = inst["w"]
        return {
            "_int_bitwidth(interpreter, op.result.type)": w,
            "isa(op.result.type, builtin.IndexType | builtin.IntegerType)": True,
        }

    def pre(self, st, a):
        w = a["_w"]
        x, y = (v.z for v in a["args"].items)
        out = [A("lhs-signless", in_signless(x, w)), A("rhs-signless", in_signless(y, w))]
        if self.poison is not None:
            out.append(A("defined", z3.Not(self.poison(x, y, w))))
        # arithmetic lemmas are only given to the units that need them (quantifiers turn a
        # failing obligation's `sat` into `unknown`)
        if self.fn in ("run_andi", "run_ori", "run_xori"):
            out += [A(f"bitwise-axiom{i}", ax) for i, ax in enumerate(bitwise_axioms(w))]
        if self.fn in ("run_divsi", "run_remsi", "run_floordivsi"):
            out += [A(f"division-axiom{i}", ax) for i, ax in enumerate(division_axioms())]
        return out

    @property
    def fn(self):
        return self.qualname.split(".")[-1]

    def replay(self, inst, m):
        return N.check_int(self.fn, inst["w"], m["lhs"], m["rhs"])

    def native_search(self, inst, seed):
        return N.search_int(self.fn, inst["w"], seed)

    def post(self, old, st, a, res):
        w = a["_w"]
        x, y = (v.z for v in a["args"].items)
        (r,) = res.items
        if self.kind == "bool":
            rb = r.z if isinstance(r, VBool) else z3.BoolVal(bool(r))
            return [C("predicate", rb == self.mlir(x, y, w))]
        rz = r.z if isinstance(r, VInt) else z3.IntVal(r)
        out = []
        if self.lemma is not None:
            out.append(Clause("signed-representative", self.lemma(rz, x, y, w), "lemma"))
        return out + [C("in-type-range", in_signless(rz, w)), C("bits", bits(rz, w) == self.mlir(x, y, w))]


def _shift_poison(a, b, w):
    return z3.Or(bits(b, w) >= w)


def _div_poison(a, b, w):
    return z3.Or(bits(b, w) == 0, z3.And(sgn(a, w) == -(1 << (w - 1)), sgn(b, w) == -1))


class Shift(IntBinop):
    """
    Shift amounts: MLIR reads the amount as unsigned; amounts >= width are poison (excluded by
    `defined`).  A negative representative b has bits(b) >= 2^(w-1) >= w, so it is excluded too.
    The bit-pattern clause is stated once per shift amount k < w (one small query each).
    """

    def post(self, old, st, a, res):
        w = a["_w"]
        x, y = (v.z for v in a["args"].items)
        (r,) = res.items
        rz = r.z if isinstance(r, VInt) else z3.IntVal(r)
        out = [C("in-type-range", in_signless(rz, w))]
        for k in range(w):
            out.append(C(f"bits@amount={k}", z3.Implies(bits(y, w) == k, bits(rz, w) == self.mlir(x, k, w))))
        return out


CMPI_PRED = {
    0: lambda a, b, w: bits(a, w) == bits(b, w),
    1: lambda a, b, w: bits(a, w) != bits(b, w),
    2: lambda a, b, w: sgn(a, w) < sgn(b, w),
    3: lambda a, b, w: sgn(a, w) <= sgn(b, w),
    4: lambda a, b, w: sgn(a, w) > sgn(b, w),
    5: lambda a, b, w: sgn(a, w) >= sgn(b, w),
    6: lambda a, b, w: bits(a, w) < bits(b, w),
    7: lambda a, b, w: bits(a, w) <= bits(b, w),
    8: lambda a, b, w: bits(a, w) > bits(b, w),
    9: lambda a, b, w: bits(a, w) >= bits(b, w),
}


class Cmpi(IntBinop):
    def __init__(self):
        super().__init__("run_cmpi", None, kind="bool")

    def bind(self, st, a, inst):
        b = {"op.predicate.value.data": inst["pred"]}
        w = inst["w"]
        # operand width binding, whatever expression the implementation uses for it
        for t in ("op.lhs.type", "op.rhs.type", "op.operands[0].type"):
            b[f"_int_bitwidth(interpreter, {t})"] = w
            b[f"isa({t}, builtin.IndexType | builtin.IntegerType)"] = True
        return b

    def post(self, old, st, a, res):
        w = a["_w"]
        x, y = (v.z for v in a["args"].items)
        (r,) = res.items
        rb = r.z if isinstance(r, VBool) else z3.BoolVal(bool(r))
        return [C("predicate", rb == CMPI_PRED[self._pred](x, y, w))]

    def setup(self, st, inst):
        self._pred = inst["pred"]
        return super().setup(st, inst)

    def replay(self, inst, m):
        return N.check_cmpi(inst["pred"], inst["w"], m["lhs"], m["rhs"])

    def native_search(self, inst, seed):
        return N.search_cmpi(inst["pred"], inst["w"], seed)


class IndexCast(Spec):
    prop, file, qualname = PROP, ARI, "ArithFunctions.run_indexcast"
    inline = HELPERS

    def setup(self, st, inst):
        x = st.declare_input("x", z3.Int("x"))
        return {
            "self": VRef(z3.IntVal(1)),
            "interpreter": VRef(z3.IntVal(2)),
            "op": VRef(z3.IntVal(3)),
            "args": VTuple([VInt(x)]),
            "_wi": inst["wi"],
            "_wo": inst["wo"],
        }

    def bind(self, st, a, inst):
        return {
            "_int_bitwidth(interpreter, op.input.type)": inst["wi"],
            "_int_bitwidth(interpreter, op.result.type)": inst["wo"],
            "isa(op.input.type, builtin.IndexType | builtin.IntegerType)": True,
            "isa(op.result.type, builtin.IndexType | builtin.IntegerType)": True,
        }

    def pre(self, st, a):
        return [A("in-signless", in_signless(a["args"].items[0].z, a["_wi"]))]

    def post(self, old, st, a, res):
        wi, wo = a["_wi"], a["_wo"]
        x = a["args"].items[0].z
        (r,) = res.items
        rz = r.z if isinstance(r, VInt) else z3.IntVal(r)
        # arith.index_cast: sign-extend when widening, truncate when narrowing
        exp = bits(sgn(x, wi), wo)
        return [C("in-type-range", in_signless(rz, wo)), C("bits", bits(rz, wo) == exp)]

    def replay(self, inst, m):
        return N.check_indexcast(inst["wi"], inst["wo"], m["x"])


# ------------------------------------------------------------------ floats (binary64)
def _fp_setup(st):
    x = st.declare_input("x", z3.Const("x", F64))
    y = st.declare_input("y", z3.Const("y", F64))
    return {
        "self": VRef(z3.IntVal(1)),
        "interpreter": VRef(z3.IntVal(2)),
        "op": VRef(z3.IntVal(3)),
        "args": VTuple([VFloat(x), VFloat(y)]),
    }


def fp_same(a, b):
    """Bit-identical up to NaN payload (Python floats: any NaN is 'the' NaN here)."""
    return z3.Or(z3.And(z3.fpIsNaN(a), z3.fpIsNaN(b)), z3.And(z3.Not(z3.fpIsNaN(a)), z3.Not(z3.fpIsNaN(b)),
                                                              z3.fpToIEEEBV(a) == z3.fpToIEEEBV(b)))


F32 = z3.Float32()


def representable_f32(x):
    """x (binary64) is exactly a binary32 value (or NaN/inf)."""
    return z3.fpToFP(z3.RNE(), z3.fpToFP(z3.RNE(), x, F32), F64) == x


class FloatBinop(Spec):
    """
    Operands/results are Python floats (binary64).  For an f64 op the result must be the
    IEEE-754 binary64 operation; for an f32 op (operands exactly representable in binary32) it
    must be the binary32 operation, i.e. the exact result rounded once to binary32.
    """

    prop, file = PROP, ARI

    def __init__(self, fn, ieee):
        self.qualname = f"ArithFunctions.{fn}"
        self.ieee = ieee

    def setup(self, st, inst):
        self._ty = inst.get("ty", "f64")
        return _fp_setup(st)

    def pre(self, st, a):
        if self._ty == "f32":
            return [A(f"{n}-is-f32", z3.Or(z3.fpIsNaN(v.z), representable_f32(v.z))) for n, v in zip("xy", a["args"].items)]
        return []

    def post(self, old, st, a, res):
        x, y = (v.z for v in a["args"].items)
        (r,) = res.items
        from pyvc.values import z_float

        if self._ty == "f32":
            x32, y32 = z3.fpToFP(z3.RNE(), x, F32), z3.fpToFP(z3.RNE(), y, F32)
            exp = z3.fpToFP(z3.RNE(), self.ieee(x32, y32), F64)
            return [C("ieee754-binary32", fp_same(z_float(r), exp))]
        return [C("ieee754-binary64", fp_same(z_float(r), self.ieee(x, y)))]

    def replay(self, inst, m):
        return N.check_float(self.qualname.split(".")[-1], inst.get("ty", "f64"), m["x"], m["y"])


def ieee_minimum(x, y):
    nan = z3.fpNaN(x.sort())
    both_zero = z3.And(z3.fpIsZero(x), z3.fpIsZero(y))
    neg0 = z3.fpMinusZero(x.sort())
    pos0 = z3.fpPlusZero(x.sort())
    return z3.If(z3.Or(z3.fpIsNaN(x), z3.fpIsNaN(y)), nan,
                 z3.If(both_zero, z3.If(z3.Or(z3.fpIsNegative(x), z3.fpIsNegative(y)), neg0, pos0),
                       z3.If(z3.fpLT(x, y), x, y)))


def ieee_maximum(x, y):
    nan = z3.fpNaN(x.sort())
    both_zero = z3.And(z3.fpIsZero(x), z3.fpIsZero(y))
    neg0 = z3.fpMinusZero(x.sort())
    pos0 = z3.fpPlusZero(x.sort())
    return z3.If(z3.Or(z3.fpIsNaN(x), z3.fpIsNaN(y)), nan,
                 z3.If(both_zero, z3.If(z3.Or(z3.fpIsPositive(x), z3.fpIsPositive(y)), pos0, neg0),
                       z3.If(z3.fpGT(x, y), x, y)))


def cmpf_pred(p, x, y):
    o = z3.And(z3.Not(z3.fpIsNaN(x)), z3.Not(z3.fpIsNaN(y)))
    u = z3.Not(o)
    base = {
        1: z3.fpEQ(x, y), 2: z3.fpGT(x, y), 3: z3.fpGEQ(x, y), 4: z3.fpLT(x, y), 5: z3.fpLEQ(x, y),
        6: z3.Or(z3.fpLT(x, y), z3.fpGT(x, y)),
    }  # fmt: skip
    if p == 0:
        return z3.BoolVal(False)
    if p == 15:
        return z3.BoolVal(True)
    if p == 7:
        return o
    if p == 14:
        return u
    if 1 <= p <= 6:
        return z3.And(o, base[p])
    return z3.Or(u, base[p - 7])


class Cmpf(Spec):
    prop, file, qualname = PROP, ARI, "ArithFunctions.run_cmpf"

    def setup(self, st, inst):
        self._pred = inst["pred"]
        return _fp_setup(st)

    def bind(self, st, a, inst):
        return {"op.predicate.value.data": inst["pred"]}

    def post(self, old, st, a, res):
        x, y = (v.z for v in a["args"].items)
        (r,) = res.items
        rb = r.z if isinstance(r, VBool) else z3.BoolVal(bool(r))
        return [C("ieee754-predicate", rb == cmpf_pred(self._pred, x, y))]

    def replay(self, inst, m):
        return N.check_cmpf(inst["pred"], m["x"], m["y"])


def make_specs(tier="quick"):
    ws = widths(tier)
    W = [{"w": w} for w in ws]
    W0 = [{"w": w} for w in ([0] + ws)]
    specs = []

    def add(s, insts):
        s.instances = insts
        specs.append(s)

    add(ToSigned(), W0)
    add(ToUnsigned(), W0)
    add(ValueRange("unsigned_value_range", lambda w: 0, lambda w: 1 << w), W0)
    add(ValueRange("signed_value_range", lambda w: -((1 << w) >> 1), lambda w: 1 << max(w - 1, 0)), W0)
    add(ValueRange("signless_value_range", lambda w: -((1 << w) >> 1), lambda w: 1 << w), W0)
    for fn in ("addi", "subi", "muli", "andi", "ori", "xori"):
        add(IntBinop(f"run_{fn}", _trunc_spec(fn)), W)
    add(Shift("run_shlsi", lambda a, k, w: bits(bits(a, w) * (1 << k), w), _shift_poison), W)
    add(Shift("run_shrsi", lambda a, k, w: bits(sgn(a, w) / (1 << k), w), _shift_poison), W)
    add(IntBinop("run_divsi", lambda a, b, w: bits(truncdiv(sgn(a, w), sgn(b, w)), w), _div_poison), W)
    add(IntBinop("run_remsi", lambda a, b, w: bits(sgn(a, w) - truncdiv(sgn(a, w), sgn(b, w)) * sgn(b, w), w), _div_poison,
                 lemma=lambda r, a, b, w: r == sgn(a, w) - truncdiv(sgn(a, w), sgn(b, w)) * sgn(b, w)), W)
    add(IntBinop("run_floordivsi", lambda a, b, w: bits(floordiv(sgn(a, w), sgn(b, w)), w), _div_poison), W)
    add(Cmpi(), [{"w": w, "pred": p} for w in ws for p in range(10)])
    cast_ws = [(a, b) for a in ws for b in ws if a != b] if tier == "thorough" else [
        (1, 8), (8, 1), (8, 32), (32, 8), (32, 64), (64, 32), (16, 64), (64, 3), (3, 64), (64, 64), (32, 32)]
    add(IndexCast(), [{"wi": a, "wo": b} for a, b in cast_ws])
    add(FloatBinop("run_addf", lambda x, y: z3.fpAdd(z3.RNE(), x, y)), [{"ty": "f64"}, {"ty": "f32"}])
    add(FloatBinop("run_subf", lambda x, y: z3.fpSub(z3.RNE(), x, y)), [{"ty": "f64"}, {"ty": "f32"}])
    add(FloatBinop("run_mulf", lambda x, y: z3.fpMul(z3.RNE(), x, y)), [{"ty": "f64"}, {"ty": "f32"}])
    add(FloatBinop("run_minimumf", ieee_minimum), [{"ty": "f64"}, {"ty": "f32"}])
    add(FloatBinop("run_maximumf", ieee_maximum), [{"ty": "f64"}, {"ty": "f32"}])
    add(Cmpf(), [{"pred": p} for p in range(16)])
    return specs


# ------------------------------------------------------------------ bounded native stand-ins
def _native_int(tier, seed):
    """Runtime contract on the real run_* (through Interpreter.run_op): exhaustive for w <= 3."""
    import itertools
    import random

    rnd = random.Random(seed)
    ws = [1, 2, 3, 4, 8, 16, 32, 64] if tier == "quick" else [1, 2, 3, 4, 5, 7, 8, 13, 16, 31, 32, 33, 63, 64, 128]
    cases = 0
    fails = []
    for fn in N.OPS:
        for w in ws:
            vs = N.signless_values(w, rnd, 10 if tier == "quick" else 40) if w > 4 else list(range(-((1 << w) >> 1), 1 << w))
            for a, b in itertools.product(vs, vs):
                cases += 1
                f = N.check_int(fn, w, a, b)
                if f and not any(x["fn"] == fn for x in fails):
                    f["fn"] = fn
                    f["key"] = f"C15/xdsl.interpreters.arith.ArithFunctions.{fn}/post#bits"
                    f["inputs"] = {"lhs": a, "rhs": b}
                    fails.append(f)
    return {"cases": cases, "failures": fails, "exhaustive": False,
            "bound": f"run_<int op> via Interpreter.run_op: all signless operand pairs for w<=4, boundary+seeded random for {ws}"}


def _native_cmpi(tier, seed):
    import itertools
    import random

    rnd = random.Random(seed)
    ws = [1, 2, 3, 4, 8, 32, 64]
    cases = 0
    fails = []
    seen = set()
    for pred in range(10):
        for w in ws:
            vs = N.signless_values(w, rnd, 8) if w > 4 else list(range(-((1 << w) >> 1), 1 << w))
            for a, b in itertools.product(vs, vs):
                cases += 1
                f = N.check_cmpi(pred, w, a, b)
                if f:
                    key = f"C15/xdsl.interpreters.arith.ArithFunctions.run_cmpi/post#predicate[pred={pred}]"
                    inside = a < 0 or b < 0
                    if (key, inside) in seen:
                        continue
                    seen.add((key, inside))
                    f["key"] = key
                    f["inputs"] = {"lhs": a, "rhs": b}
                    fails.append(f)
    return {"cases": cases, "failures": fails, "exhaustive": False,
            "bound": f"cmpi, 10 predicates: all signless operand pairs for w<=4, boundary+seeded random for {ws}"}


def _native_float(tier, seed):
    import itertools
    import random

    rnd = random.Random(seed)
    vals = list(N.FLOATS) + [rnd.uniform(-1e6, 1e6) for _ in range(10)]
    cases = 0
    fails = []
    for fn in N.FOPS:
        for x, y in itertools.product(vals, vals):
            cases += 1
            f = N.check_float(fn, "f64", x, y)
            if f and not any(x.get("fn") == fn for x in fails):
                f["fn"] = fn
                f["key"] = f"C15/xdsl.interpreters.arith.ArithFunctions.{fn}/post#ieee754-binary64"
                fails.append(f)
    for pred in range(16):
        for x, y in itertools.product(vals, vals):
            cases += 1
            f = N.check_cmpf(pred, x, y)
            if f and len(fails) < 5:
                f["key"] = "C15/xdsl.interpreters.arith.ArithFunctions.run_cmpf/post#ieee754-predicate"
                fails.append(f)
    return {"cases": cases, "failures": fails, "exhaustive": False,
            "bound": f"float ops and cmpf on a {len(vals)}x{len(vals)} grid of boundary doubles (f64 typed ops)"}


def _native_axioms(tier, seed):
    from contracts.common import native_bitwise_axiom_check, native_division_axiom_check

    n = native_bitwise_axiom_check(seed) + native_division_axiom_check()
    return {"cases": n, "failures": [], "exhaustive": False, "bound": "arithmetic lemmas used as axioms: exhaustive w<=5 / |n|,d<=40, random above"}


NATIVE = [("int-ops", _native_int), ("cmpi", _native_cmpi), ("float-ops", _native_float), ("arith-axioms", _native_axioms), ("index-casts", N.explore_casts)]

ASSUMPTIONS = [
    "Interpreter.run_op/call_op dispatch, the value environment and the cf/scf/func interpreter functions are NOT under contract (control flow is assumed)",
    "integer operands are held in the signless range [-2^(w-1), 2^w) (representation precondition documented in xdsl/utils/comparisons.py)",
    "operations whose MLIR result is poison/undefined are excluded by precondition: shift amount >= width, division by zero, MIN / -1",
    "Python `& | ^` are uninterpreted in the integer encoding; axioms: they commute with reduction mod 2^w and preserve [0, 2^w) (validated natively on every run)",
    "floor division by a symbolic divisor is uninterpreted; axioms: d*q <= n < d*q+d and magnitude bounds (validated natively on every run)",
    "widths are bound as literals: quick {1,2,3,8,16,32,64}, thorough 1..64 and 128; no width-parametric proof",
    "f16/bf16 and vector/tensor element-wise semantics are not covered; float obligations are stated for f64 and f32",
]

import os

SPECS = make_specs(os.environ.get("VERIF_TIER", "quick"))
