"""
C10 — IRDL operation verification matches the operation definition.

Statement (quoted): "An operation defined with IRDL passes verification exactly when its operand,
result, region and successor lists can be split into the declared segments (single, optional,
variadic, same-size or attribute-sized, where the segment sizes are non-negative, match each
kind and sum to the list length) ... Operations built through the generated constructor from
arguments that satisfy the definition always verify, and the generated accessors return exactly
the declared segments."

Abstraction: a definition list is a sequence of kinds (single / variadic / optional), read by the
code through isinstance(d, VariadicDef) / isinstance(d, OptionalDef).  Units are instantiated for
EVERY kind sequence of up to MAXD constructs (concrete kinds); list lengths and segment sizes are
symbolic integers (unbounded).
"""

from __future__ import annotations

import itertools
import os

import z3

from contracts.common import A, C, forall, rechecked
from pyvc import arith
from pyvc.spec import Builtin, Inline, Spec
from pyvc.values import Clause, VBool, VGlobal, VInt, VRef, VSeq, VTuple, Vocab, z_int

PROP = "C10"
OPS = "xdsl/irdl/operations.py"
VOCAB = Vocab({})

SINGLE, VARIADIC, OPTIONAL = "s", "v", "o"


def kind_seqs(maxd):
    for d in range(0, maxd + 1):
        for ks in itertools.product("svo", repeat=d):
            yield "".join(ks)


def defs_value(kinds):
    """defs = [(name_j, d_j)]: d_j is an opaque object whose class is fixed by the kind."""
    return VTuple([VTuple([VRef(z3.IntVal(1000 + j), "str"), VRef(z3.IntVal(2000 + j), "Def:" + k)]) for j, k in enumerate(kinds)], True)


def isinstance_hook(ex, st, v, cls):
    if isinstance(v, VRef) and v.cls and v.cls.startswith("Def:") and isinstance(cls, VGlobal):
        k = v.cls[4:]
        if cls.text == "VariadicDef":
            return k in (VARIADIC, OPTIONAL)  # OptionalDef is a subclass of VariadicDef
        if cls.text == "OptionalDef":
            return k == OPTIONAL
    if isinstance(v, VRef) and v.cls in ("SeqArg",) and isinstance(cls, VGlobal) and cls.text == "Sequence":
        return True
    if isinstance(v, VRef) and v.cls in ("OneArg",) and isinstance(cls, VGlobal) and cls.text == "Sequence":
        return False
    if isinstance(v, (VSeq, VTuple)) and isinstance(cls, VGlobal) and cls.text == "Sequence":
        return True
    return None


def check_class_hierarchy():
    """The abstraction relies on OptionalDef <= VariadicDef; read from the live classes."""
    from xdsl.irdl import operations as o

    ok = issubclass(o.OptionalDef, o.VariadicDef) and not issubclass(o.VariadicDef, o.OptionalDef)
    for c in (o.OptOperandDef, o.OptResultDef, o.OptRegionDef, o.OptSuccessorDef):
        ok = ok and issubclass(c, o.OptionalDef)
    for c in (o.VarOperandDef, o.VarResultDef, o.VarRegionDef, o.VarSuccessorDef):
        ok = ok and issubclass(c, o.VariadicDef)
    for c in (o.OperandDef, o.ResultDef, o.RegionDef, o.SuccessorDef):
        ok = ok and not issubclass(c, o.VariadicDef)
    return ok, "OptionalDef is a subclass of VariadicDef; Opt*/Var*/plain definition classes classified by isinstance as assumed"


# ------------------------------------------------------------------ spec: legal splits
def same_size_ok(kinds, length):
    """exists sizes: 1 for single, in {0,1} for optional, all variadic sizes equal, sum == length."""
    D = len(kinds)
    nvar = sum(1 for k in kinds if k != SINGLE)
    has_opt = any(k == OPTIONAL for k in kinds)
    fixed = D - nvar
    if nvar == 0:
        return length == D
    if has_opt:
        return z3.Or(length == fixed, length == fixed + nvar)
    return z3.And(length >= fixed, (length - fixed) % nvar == 0)


def attr_sizes_ok(kinds, sizes, length):
    """sizes non-negative, legal for each kind, and summing to the construct length."""
    cs = []
    for k, s in zip(kinds, sizes):
        cs.append(s >= 0)
        if k == SINGLE:
            cs.append(s == 1)
        if k == OPTIONAL:
            cs.append(z3.Or(s == 0, s == 1))
    cs.append(z3.Sum(sizes) == length if sizes else length == 0)
    return z3.And(*cs) if cs else z3.BoolVal(True)


class SameSize(Spec):
    prop, file, qualname = PROP, OPS, "verify_variadic_same_size"
    globals = {"__isinstance__": isinstance_hook}

    def setup(self, st, inst):
        length = st.declare_input("length", z3.Int("length"))
        return {"length": VInt(length), "op_def": VRef(z3.IntVal(1)), "construct": VRef(z3.IntVal(2)),
                "construct_name": VRef(z3.IntVal(3)), "_kinds": inst["kinds"]}

    def pre(self, st, a):
        return [A("length-nonneg", a["length"].z >= 0)]

    def bind(self, st, a, inst):
        return {"get_construct_defs(op_def, construct)": defs_value(inst["kinds"])}

    def post(self, old, st, a, res):
        return [C("accepted-only-if-splittable", same_size_ok(a["_kinds"], a["length"].z))]

    def post_exc(self, old, st, a, exc):
        if exc != "VerifyException":
            return None
        return [C("rejected-only-if-not-splittable", z3.Not(same_size_ok(a["_kinds"], a["length"].z)))]

    def replay(self, inst, m):
        return N_same_size(inst["kinds"], m["length"])


class AttrSize(Spec):
    prop, file, qualname = PROP, OPS, "verify_variadic_attr_size"
    globals = {"__isinstance__": isinstance_hook}

    def setup(self, st, inst):
        kinds = inst["kinds"]
        n = inst["nsizes"]
        sizes = [st.declare_input(f"size{j}", z3.Int(f"size{j}")) for j in range(n)]
        length = st.declare_input("length", z3.Int("length"))
        return {"op": VRef(z3.IntVal(1)), "op_def": VRef(z3.IntVal(2)), "construct": VRef(z3.IntVal(3)),
                "option": VRef(z3.IntVal(4)), "_kinds": kinds, "_sizes": sizes, "_length": length,
                "_present": st.declare_input("present", z3.Bool("present")),
                "_dense_i32": st.declare_input("dense_i32", z3.Bool("dense_i32"))}

    def pre(self, st, a):
        return [A("length-nonneg", a["_length"] >= 0)]

    def bind(self, st, a, inst):
        sizes = VTuple([VInt(s) for s in a["_sizes"]])
        j = z3.Int("j!ops")
        return {
            "option.container(op)": VRef(z3.IntVal(10), "container"),
            "option.attribute_name not in container": VBool(z3.Not(a["_present"])),
            "container[option.attribute_name]": VRef(z3.IntVal(11), "attr"),
            "not isinstance(attribute, DenseArrayBase) or attribute.elt_type != i32": VBool(z3.Not(a["_dense_i32"])),
            "get_construct_defs(op_def, construct)": defs_value(inst["kinds"]),
            "attribute.get_values()": sizes,
            "get_op_constructs(op, construct)": VSeq(z3.K(z3.IntSort(), z3.IntVal(0)), a["_length"], "ref"),
            "option.as_property": VBool(z3.Bool("as_property")),
        }

    def accepted(self, a):
        kinds, sizes = a["_kinds"], a["_sizes"]
        if len(sizes) != len(kinds):
            return z3.BoolVal(False)
        return z3.And(a["_present"], a["_dense_i32"], attr_sizes_ok(kinds, sizes, a["_length"]))

    def post(self, old, st, a, res):
        return [C("accepted-only-if-sizes-describe-a-split", self.accepted(a))]

    def post_exc(self, old, st, a, exc):
        if exc != "VerifyException":
            return None
        return [C("rejected-only-if-not-a-split", z3.Not(self.accepted(a)))]

    def replay(self, inst, m):
        if not (m.get("present") and m.get("dense_i32")) or inst["nsizes"] != len(inst["kinds"]):
            return None
        return N_attr_size(inst["kinds"], [m[f"size{j}"] for j in range(inst["nsizes"])], m["length"])


# ------------------------------------------------------------------ dispatch
ATTR_OK = z3.Function("attr_size_ok", z3.IntSort(), z3.IntSort(), z3.IntSort(), z3.IntSort(), z3.BoolSort())
SAME_OK = z3.Function("same_size_ok", z3.IntSort(), z3.IntSort(), z3.IntSort(), z3.BoolSort())


class _AttrSizeCallee(Spec):
    """verify_variadic_attr_size as seen by its caller: raises VerifyException iff not ATTR_OK(...)."""

    prop, file, qualname = PROP, OPS, "verify_variadic_attr_size"

    def exc_cases(self, st, a):
        return [("VerifyException", z3.Not(ATTR_OK(a["op"].z, a["op_def"].z, a["construct"].z, a["option"].z)))]

    def post_exc(self, old, st, a, exc):
        return []


class _SameSizeCallee(Spec):
    prop, file, qualname = PROP, OPS, "verify_variadic_same_size"

    def exc_cases(self, st, a):
        return [("VerifyException", z3.Not(SAME_OK(z_int(a["length"]), a["op_def"].z, a["construct"].z)))]

    def post_exc(self, old, st, a, exc):
        return []


class Dispatch(Spec):
    """verify_variadic_size: attribute-sized option present -> attribute sizes decide, else same-size rule."""

    prop, file, qualname = PROP, OPS, "verify_variadic_size"
    calls = {"verify_variadic_attr_size": _AttrSizeCallee(), "verify_variadic_same_size": _SameSizeCallee()}

    def setup(self, st, inst):
        return {"op": VRef(z3.IntVal(1)), "op_def": VRef(z3.IntVal(2)), "construct": VRef(z3.IntVal(3)),
                "_option": st.declare_input("option", z3.Int("option")), "_length": st.declare_input("length", z3.Int("length"))}

    def pre(self, st, a):
        return [A("length-nonneg", a["_length"] >= 0)]

    def bind(self, st, a, inst):
        return {
            "get_attr_size_option(construct)": VRef(z3.IntVal(7)),
            "next((o for o in op_def.options if isinstance(o, attribute_option)), None)": VRef(a["_option"], "option"),
            "get_op_constructs(op, construct)": VSeq(z3.K(z3.IntSort(), z3.IntVal(0)), a["_length"], "ref"),
            "get_construct_name(construct)": VRef(z3.IntVal(8)),
        }

    def ok(self, a):
        return z3.If(a["_option"] != 0, ATTR_OK(z3.IntVal(1), z3.IntVal(2), z3.IntVal(3), a["_option"]),
                     SAME_OK(a["_length"], z3.IntVal(2), z3.IntVal(3)))

    def post(self, old, st, a, res):
        return [C("accepted-iff-selected-rule-accepts", self.ok(a))]

    def post_exc(self, old, st, a, exc):
        return [C("rejected-iff-selected-rule-rejects", z3.Not(self.ok(a)))] if exc == "VerifyException" else None


# ------------------------------------------------------------------ irdl_build_arg_list
SHAPES = "nqx"  # n: None, q: a Sequence (symbolic length), x: a single value


class BuildArgList(Spec):
    prop, file, qualname = PROP, OPS, "irdl_build_arg_list"
    globals = {"__isinstance__": isinstance_hook}

    def setup(self, st, inst):
        kinds, shapes = inst["kinds"], inst["shapes"]
        args = []
        self._lens = []
        for j, sh in enumerate(shapes):
            if sh == "n":
                args.append(None)
                self._lens.append(None)
            elif sh == "q":
                n = st.declare_input(f"len{j}", z3.Int(f"len{j}"))
                st.assume(n >= 0)
                args.append(VSeq(z3.Array(f"arg{j}", z3.IntSort(), z3.IntSort()), n, "ref"))
                self._lens.append(n)
            else:
                x = z3.Int(f"arg{j}")
                st.assume(x != 0)  # a single value, not None
                args.append(VRef(x, "OneArg"))
                self._lens.append(1)
        return {"construct": VRef(z3.IntVal(1)), "args": VTuple(args), "arg_defs": defs_value(kinds),
                "error_prefix": VRef(z3.IntVal(3)), "_kinds": kinds, "_shapes": shapes, "_args": args}

    def legal(self, a):
        cs = []
        if len(a["_shapes"]) != len(a["_kinds"]):
            return z3.BoolVal(False)
        for k, sh, n in zip(a["_kinds"], a["_shapes"], self._lens):
            if sh == "n":
                cs.append(z3.BoolVal(k == OPTIONAL))
            elif sh == "q":
                if k == SINGLE:
                    cs.append(n == 1)
                elif k == OPTIONAL:
                    cs.append(n <= 1)
        return z3.And(*cs) if cs else z3.BoolVal(True)

    def post(self, old, st, a, res):
        r, sizes = res.items
        rs = r if isinstance(r, VSeq) else __import__("pyvc.arith", fromlist=["as_seq"]).as_seq(r)
        out = [C("accepted-only-legal-arguments", self.legal(a))]
        if not isinstance(sizes, VTuple) or len(sizes.items) != len(a["_kinds"]):
            return out + [C("one-size-per-definition", z3.BoolVal(False))]
        exp_sizes = [0 if n is None else n for n in self._lens]
        off = z3.IntVal(0)
        for j, (sz, ex_n, arg, sh) in enumerate(zip(sizes.items, exp_sizes, a["_args"], a["_shapes"])):
            out.append(C(f"size[{j}]-is-segment-length", z_int(sz) == ex_n))
            if sh == "q":
                i = z3.Int("ba!i")
                out.append(C(f"segment[{j}]-is-the-argument", forall([i], z3.Implies(z3.And(i >= 0, i < ex_n),
                                                                                      z3.Select(rs.arr, off + i) == z3.Select(arg.arr, i)))))
            elif sh == "x":
                out.append(C(f"segment[{j}]-is-the-argument", z3.Select(rs.arr, off) == arg.z))
            off = z3.simplify(off + ex_n)
        out.append(C("sizes-sum-to-length", rs.n == off))
        # lemma "built operations verify": the produced sizes satisfy the attribute-size verifier's condition
        out.append(C("built-sizes-verify", attr_sizes_ok(a["_kinds"], [z_int(s) for s in sizes.items], rs.n)))
        return out

    def post_exc(self, old, st, a, exc):
        if exc != "ValueError":
            return None
        return [C("rejected-only-illegal-arguments", z3.Not(self.legal(a)))]


# ------------------------------------------------------------------ accessors
class SameVarAccessor(Spec):
    """
    SameVariadicAccessor.index / SameVariadicSingleAccessor.index (all variadics of equal size),
    for the accessor that irdl_op_arg_definition generates for position idx of a kind sequence.
    """

    prop, file = PROP, OPS

    def __init__(self, cls, variadic):
        self.qualname = f"{cls}.index"
        self.variadic = variadic

    def setup(self, st, inst):
        kinds, idx = inst["kinds"], inst["idx"]
        n = st.declare_input("n", z3.Int("n"))
        vsize = st.declare_input("vsize", z3.Int("vsize"))
        self.c = {"idx": idx, "num_defs": len(kinds), "num_variadics": sum(1 for k in kinds if k == VARIADIC),
                  "variadics_encountered": sum(1 for k in kinds[:idx] if k == VARIADIC)}
        return {"self": VRef(z3.IntVal(1), "Accessor"), "args": VSeq(z3.Array("args", z3.IntSort(), z3.IntSort()), n, "ref"),
                "_n": n, "_vsize": vsize}

    def bind(self, st, a, inst):
        return {f"self.{k}": v for k, v in self.c.items()}

    def pre(self, st, a):
        c = self.c
        # the op verified under the same-size rule: every variadic segment has vsize elements
        return [A("verified-same-size", z3.And(a["_vsize"] >= 0, a["_n"] == c["num_defs"] - c["num_variadics"] + c["num_variadics"] * a["_vsize"]))]

    def post(self, old, st, a, res):
        c = self.c
        off = (c["idx"] - c["variadics_encountered"]) + c["variadics_encountered"] * a["_vsize"]
        args = a["args"]
        if self.variadic:
            i = z3.Int("ac!i")
            return [C("segment-length", res.n == a["_vsize"]),
                    C("segment-contents", forall([i], z3.Implies(z3.And(i >= 0, i < a["_vsize"]),
                                                                  z3.Select(res.arr, i) == z3.Select(args.arr, off + i))))]
        return [C("segment-element", res.z == z3.Select(args.arr, off))]


MUL = z3.Function("mul", z3.IntSort(), z3.IntSort(), z3.IntSort())


def mul(a, b):
    return a * b


class AttrAccessor(Spec):
    """Single/Variadic/OptionalAttrAccessor.index(values, args) for a concrete accessor index."""

    prop, file = PROP, OPS

    def __init__(self, cls, kind):
        self.qualname = f"{cls}.index"
        self.kind = kind

    def setup(self, st, inst):
        D, idx = inst["D"], inst["idx"]
        self.vals = [st.declare_input(f"v{j}", z3.Int(f"v{j}")) for j in range(D)]
        n = st.declare_input("n", z3.Int("n"))
        return {"self": VRef(z3.IntVal(1), "Accessor"), "values": VTuple([VInt(v) for v in self.vals]),
                "args": VSeq(z3.Array("args", z3.IntSort(), z3.IntSort()), n, "ref"), "_n": n, "_idx": idx}

    def bind(self, st, a, inst):
        return {"self.idx": inst["idx"]}

    def pre(self, st, a):
        idx = a["_idx"]
        out = [A("sizes-nonneg", z3.And(*[v >= 0 for v in self.vals])), A("sizes-sum-to-length", z3.Sum(self.vals) == a["_n"])]
        if self.kind == SINGLE:
            out.append(A("single-size", self.vals[idx] == 1))
        if self.kind == OPTIONAL:
            out.append(A("optional-size", z3.Or(self.vals[idx] == 0, self.vals[idx] == 1)))
        return out

    def post(self, old, st, a, res):
        idx = a["_idx"]
        off = z3.Sum(self.vals[:idx]) if idx else z3.IntVal(0)
        args = a["args"]
        if self.kind == SINGLE:
            return [C("segment-element", res.z == z3.Select(args.arr, off))]
        if self.kind == OPTIONAL:
            if res is None:
                return [C("absent-when-size-0", self.vals[idx] == 0)]
            return [C("present-when-size-1", z3.And(self.vals[idx] == 1, res.z == z3.Select(args.arr, off)))]
        i = z3.Int("ac!i")
        return [C("segment-length", res.n == self.vals[idx]),
                C("segment-contents", forall([i], z3.Implies(z3.And(i >= 0, i < self.vals[idx]),
                                                              z3.Select(res.arr, i) == z3.Select(args.arr, off + i))))]


# ------------------------------------------------------------------ native reading (real OpDef machinery)
def _mk_op_def(kinds, attr_sized):
    from xdsl.irdl import (AttrSizedOperandSegments, IRDLOperation, irdl_op_definition, operand_def, opt_operand_def,
                           var_operand_def)

    ns = {"name": "test.c10_" + ("a" if attr_sized else "s") + "_" + (kinds or "e")}
    ann = {}
    for j, k in enumerate(kinds):
        ns[f"o{j}"] = {SINGLE: operand_def, VARIADIC: var_operand_def, OPTIONAL: opt_operand_def}[k]()
    if attr_sized:
        ns["irdl_options"] = (AttrSizedOperandSegments(as_property=True),)
    cls = type("C10Op_" + ns["name"].replace(".", "_"), (IRDLOperation,), ns)
    return irdl_op_definition(cls)


_opdef_cache = {}


def _op_cls(kinds, attr_sized):
    key = (kinds, attr_sized)
    if key not in _opdef_cache:
        _opdef_cache[key] = _mk_op_def(kinds, attr_sized)
    return _opdef_cache[key]


def _operands(n):
    from xdsl.dialects import test
    from xdsl.dialects.builtin import i32

    return list(test.TestOp(result_types=[i32] * n).results) if n else []


@rechecked
def N_same_size(kinds, length):
    """Real verify on an op of a generated definition with `length` operands vs the split-exists spec."""
    from xdsl.utils.exceptions import VerifyException

    if length > 40:
        return None
    D = len(kinds)
    nvar = sum(1 for k in kinds if k != SINGLE)
    if nvar > 1:
        from xdsl.irdl import SameVariadicOperandSize
    cls = _op_cls_same(kinds)
    if cls is None:
        return None
    op = cls.create(operands=_operands(length))
    fixed = D - nvar
    if nvar == 0:
        exp = length == D
    elif OPTIONAL in kinds:
        exp = length in (fixed, fixed + nvar)
    else:
        exp = length >= fixed and (length - fixed) % nvar == 0
    try:
        op.verify()
        got = True
    except VerifyException:
        got = False
    except Exception as e:  # noqa: BLE001  (verification must accept or raise VerifyException, nothing else)
        return {"definition kinds": kinds, "operands": length, "verify raised": f"{type(e).__name__}: {str(e)[:120]}", "a legal split exists": exp}
    if got != exp:
        return {"definition kinds": kinds, "operands": length, "verify accepted": got, "a legal split exists": exp}
    if got:
        # the accessors of a VERIFIED op return the segments of the (unique) legal split, in order
        sz = (length - fixed) // nvar if nvar else 0
        pos = 0
        for j, k in enumerate(kinds):
            n = 1 if k == SINGLE else sz
            want = list(op.operands[pos:pos + n])
            try:
                v = getattr(op, f"o{j}")
            except Exception as e:  # noqa: BLE001  (an accessor of a VERIFIED op must not raise)
                return {"definition kinds": kinds, "operands": length, "accessor": f"o{j}", "raised": f"{type(e).__name__}: {str(e)[:120]}"}
            have = [v] if k == SINGLE else ([] if v is None else [v]) if k == OPTIONAL else list(v)
            if len(have) != len(want) or any(a is not b for a, b in zip(have, want)):
                return {"definition kinds": kinds, "operands": length, "accessor": f"o{j}", "returned positions": [list(op.operands).index(x) for x in have],
                        "segment of the legal split": list(range(pos, pos + n))}
            pos += n
    return None


def _op_cls_same(kinds):
    key = (kinds, "same")
    if key in _opdef_cache:
        return _opdef_cache[key]
    from xdsl.irdl import IRDLOperation, SameVariadicOperandSize, irdl_op_definition, operand_def, opt_operand_def, var_operand_def

    nvar = sum(1 for k in kinds if k != SINGLE)
    ns = {"name": "test.c10_ss_" + (kinds or "e")}
    for j, k in enumerate(kinds):
        ns[f"o{j}"] = {SINGLE: operand_def, VARIADIC: var_operand_def, OPTIONAL: opt_operand_def}[k]()
    if nvar > 1:
        ns["irdl_options"] = (SameVariadicOperandSize(),)
    try:
        cls = irdl_op_definition(type("C10SS_" + (kinds or "e"), (IRDLOperation,), ns))
    except Exception:
        cls = None
    _opdef_cache[key] = cls
    return cls


@rechecked
def N_attr_size(kinds, sizes, length):
    from xdsl.dialects.builtin import DenseArrayBase, i32
    from xdsl.utils.exceptions import VerifyException

    if length > 40 or any(abs(s) > 2**31 - 1 for s in sizes):
        return None
    cls = _op_cls(kinds, True)
    op = cls.create(operands=_operands(length), properties={"operandSegmentSizes": DenseArrayBase.from_list(i32, sizes)})
    exp = all(s >= 0 for s in sizes) and sum(sizes) == length and all(
        (k != SINGLE or s == 1) and (k != OPTIONAL or s in (0, 1)) for k, s in zip(kinds, sizes))
    try:
        op.verify()
        got = True
    except VerifyException:
        got = False
    except Exception as e:  # noqa: BLE001  (verification must accept or raise VerifyException, nothing else)
        return {"definition kinds": kinds, "operandSegmentSizes": sizes, "operands": length, "verify raised": f"{type(e).__name__}: {str(e)[:100]}",
                "sizes describe a legal split": exp}
    if got != exp:
        return {"definition kinds": kinds, "operandSegmentSizes": sizes, "operands": length, "verify accepted": got,
                "sizes describe a legal split": exp}
    # accessors return exactly the declared segments
    if got:
        off = 0
        for j, (k, s) in enumerate(zip(kinds, sizes)):
            try:
                seg = getattr(op, f"o{j}")
            except Exception as e:  # noqa: BLE001  (an accessor of a VERIFIED op must not raise)
                return {"definition kinds": kinds, "operandSegmentSizes": sizes, "accessor": f"o{j}", "raised": f"{type(e).__name__}: {str(e)[:100]}"}
            exp_seg = tuple(op.operands[off:off + s])
            if k == SINGLE:
                ok = seg is exp_seg[0]
            elif k == OPTIONAL:
                ok = (seg is None and s == 0) or (s == 1 and seg is exp_seg[0])
            else:
                ok = tuple(seg) == exp_seg
            if not ok:
                return {"definition kinds": kinds, "operandSegmentSizes": sizes, "accessor": f"o{j}", "returned": repr(seg),
                        "expected": repr(exp_seg)}
            off += s
    return None


def _native_verify(tier, seed):
    import random

    rnd = random.Random(seed)
    maxd = 3 if tier == "quick" else 4
    cases = 0
    for kinds in kind_seqs(maxd):
        for length in range(0, 8):
            cases += 1
            f = N_same_size(kinds, length)
            if f:
                return {"cases": cases, "failures": [dict(f, key="C10/same-size")], "exhaustive": True, "bound": ""}
        rng = [-1, 0, 1, 2, 3]
        for sizes in itertools.product(rng, repeat=len(kinds)):
            for length in {max(sum(sizes), 0), 2}:
                cases += 1
                f = N_attr_size(kinds, list(sizes), length)
                if f:
                    return {"cases": cases, "failures": [dict(f, key="C10/attr-size")], "exhaustive": True, "bound": ""}
    return {"cases": cases, "failures": [], "exhaustive": True,
            "bound": f"real Operation.verify + accessors on generated IRDL definitions: every kind sequence of <= {maxd} operand definitions, "
                     "same-size rule with 0..7 operands, attribute sizes in {-1..3}^D with matching and non-matching operand counts"}


def _native_build(tier, seed):
    """Ops built through the generated constructor from legal arguments verify and expose the segments."""
    from xdsl.utils.exceptions import VerifyException

    maxd = 3
    cases = 0
    for kinds in kind_seqs(maxd):
        cls = _op_cls(kinds, True)
        choices = []
        for k in kinds:
            if k == SINGLE:
                choices.append([1])
            elif k == OPTIONAL:
                choices.append([0, 1])
            else:
                choices.append([0, 1, 2])
        for sizes in itertools.product(*choices):
            cases += 1
            ops = [_operands(s) for s in sizes]
            args = [(o[0] if k == SINGLE else (o if k == VARIADIC else (o[0] if o else None))) for k, o in zip(kinds, ops)]
            try:
                op = cls.build(operands=args)
                op.verify()
            except (VerifyException, ValueError) as e:
                return {"cases": cases, "failures": [{"key": "C10/build", "kinds": kinds, "sizes": sizes, "raised": repr(e)}],
                        "exhaustive": True, "bound": ""}
            flat = [x for o in ops for x in o]
            if list(op.operands) != flat:
                return {"cases": cases, "failures": [{"key": "C10/build", "kinds": kinds, "sizes": sizes, "why": "operand order"}],
                        "exhaustive": True, "bound": ""}
    return {"cases": cases, "failures": [], "exhaustive": True,
            "bound": f"IRDLOperation.build on every kind sequence of <= {maxd} definitions with every legal size vector (variadic sizes 0..2): builds, verifies, operands concatenated in order"}


# ------------------------------------------------------------------ irdl_op_verify_arg_list
TYPE_OF = z3.Function("type_of_value", z3.IntSort(), z3.IntSort())
SEG_TYPES = z3.Function("types_of_segment", z3.IntSort(), z3.ArraySort(z3.IntSort(), z3.IntSort()))


class VerifyArgList(Spec):
    """
    irdl_op_verify_arg_list(op, op_def, construct, ctx), for a concrete list of definitions (loop unrolled) whose accessors return None (absent
    optional), a single value or a sequence of symbolic length: EVERY definition's constraint is verified, in the ONE shared context, against exactly
    the types of its segment - the EMPTY range for an absent optional (that is what binds a range / length variable shared with another construct).
    The constraint's own verify and verify_variadic_size are other units.
    """

    prop, file, qualname = PROP, OPS, "irdl_op_verify_arg_list"
    raises_ok = ("VerifyException",)

    def __init__(self):
        from pyvc.engine import Res

        spec = self

        def b_getattr(ex, st, args, kw):
            j = spec.names.index(z3.simplify(args[1].z).as_long())
            return [Res("val", spec.vals[j], st)]

        def b_verify(ex, st, args, kw):
            j = z3.simplify(st.env["arg_def"].z).as_long() - 500
            want = spec.segs[j]
            got = arith.as_seq(ex.to_seq_value(args[0], st))
            i = z3.Int("va!i")
            ex.oblige(st, "call-pre", f"constr.verify:definition-{j}-is-verified-against-exactly-the-types-of-its-segment (the empty range if absent)",
                      z3.And(got.n == want.n, forall([i], z3.Implies(z3.And(i >= 0, i < want.n), z3.Select(got.arr, i) == z3.Select(want.arr, i)))), "property")
            ex.oblige(st, "call-pre", "constr.verify:in-the-shared-constraint-context", args[1].z == 77, "property")
            out = []
            for ok, bs in ex.split(st, z3.Bool(f"constraint_{j}_accepts")):
                if ok:
                    bs.ghost["verified"] = z3.Store(bs.ghost["verified"], j, True)
                    out.append(Res("val", None, bs))
                else:
                    out.append(Res("raise", "VerifyException", bs))
            return out

        b_verify.ghost_modifies = ["verified"]
        noop = lambda doc: Builtin(lambda ex, st, a, k: [Res("val", None, st)], doc)
        self.calls = {"verify_variadic_size": noop("the segment sizes are legal (units SameSize / AttrSize / Dispatch)"), "getattr": Builtin(b_getattr, "the generated accessor of the definition"),
                      "arg_def.constr.verify": Builtin(b_verify, "RangeConstraint.verify(types, ctx): accepts or raises VerifyException (C09)"),
                      "get_construct_name": Builtin(lambda ex, st, a, k: [Res("val", VRef(z3.IntVal(9), "str"), st)], "")}

    @property
    def globals(self):
        spec = self

        def ga(ex, st, base, attr):
            if base.cls == "OpDef" and attr in ("operands", "results"):
                return VTuple([VTuple([VRef(z3.IntVal(n), "str"), VRef(z3.IntVal(500 + j), "ArgDef")]) for j, n in enumerate(spec.names)])
            if base.cls == "OneValue" and attr == "type":
                return VRef(TYPE_OF(base.z), "Attribute")
            if base.cls == "Values" and attr == "types":
                return VSeq(SEG_TYPES(base.z), spec.lens[z3.simplify(base.z).as_long() - 300], "ref", "Attribute")
            return None

        def isinst(ex, st, v, cls):
            if isinstance(cls, VGlobal) and cls.text == "Sequence":
                return isinstance(v, VRef) and v.cls == "Values"
            return None

        return {"__getattr__": ga, "__isinstance__": isinst, "Sequence": VGlobal("Sequence"), "VarIRConstruct": VGlobal("VarIRConstruct"),
                "__fstring__": lambda ex, st, parts: VRef(z3.IntVal(1), "str"), "__eq__": lambda ex, st, a, b: True if (isinstance(a, VGlobal) or isinstance(b, VGlobal)) else None}

    def setup(self, st, inst):
        shapes = inst["shapes"]  # per definition: n = absent optional, x = single value, q = sequence
        self.names = [400 + j for j in range(len(shapes))]
        self.vals, self.segs, self.lens = [], [], {}
        for j, sh in enumerate(shapes):
            if sh == "n":
                self.vals.append(None)
                self.segs.append(VSeq(z3.K(z3.IntSort(), z3.IntVal(0)), z3.IntVal(0), "ref"))
            elif sh == "x":
                v = z3.IntVal(200 + j)
                self.vals.append(VRef(v, "OneValue"))
                self.segs.append(VSeq(z3.K(z3.IntSort(), TYPE_OF(v)), z3.IntVal(1), "ref"))
            else:
                n = st.declare_input(f"len{j}", z3.Int(f"len{j}"))
                st.assume(n >= 0)
                self.lens[j] = n
                v = z3.IntVal(300 + j)
                self.vals.append(VRef(v, "Values"))
                self.segs.append(VSeq(SEG_TYPES(v), n, "ref"))
        st.ghost["verified"] = z3.K(z3.IntSort(), z3.BoolVal(False))
        return {"op": VRef(z3.IntVal(1), "Operation"), "op_def": VRef(z3.IntVal(2), "OpDef"), "construct": VGlobal("VarIRConstruct.OPERAND"),
                "constraint_context": VRef(z3.IntVal(77), "ConstraintContext"), "_n": len(shapes)}

    def post(self, old, st, a, res):
        return [C("accepted-only-after-every-definition-was-verified-against-its-segment", z3.And(*[st.ghost["verified"][j] for j in range(a["_n"])]) if a["_n"] else z3.BoolVal(True))]

    def post_exc(self, old, st, a, exc):
        return [A("rejected-only-because-some-constraint-rejected", z3.BoolVal(True))] if exc == "VerifyException" else None

    def native_search(self, inst, seed):
        r = _native_shared("quick", seed)
        return r["failures"][0] if r["failures"] else None


_shared_cache: dict = {}


def _shared_cls(okind, mode):
    """An op whose (single / optional / variadic) operand shares a constraint variable with a variadic result: the whole range (R), its length (N) or
    the element type (T)."""
    key = (okind, mode)
    if key in _shared_cache:
        return _shared_cache[key]
    from xdsl.irdl import (AnyAttr, AnyInt, IntVarConstraint, IRDLOperation, RangeOf, RangeVarConstraint, VarConstraint, irdl_op_definition, operand_def,
                           opt_operand_def, var_operand_def, var_result_def)

    mk = {SINGLE: operand_def, OPTIONAL: opt_operand_def, VARIADIC: var_operand_def}[okind]
    if mode == "range":
        c1 = c2 = RangeVarConstraint("R", RangeOf(AnyAttr()))
    elif mode == "length":
        n = IntVarConstraint("N", AnyInt())
        c1, c2 = RangeOf(AnyAttr()).of_length(n), RangeOf(AnyAttr()).of_length(n)
    else:
        t = VarConstraint("T", AnyAttr())
        c1, c2 = (t if okind == SINGLE else RangeOf(t)), RangeOf(t)
    if okind == SINGLE and mode != "elem":
        _shared_cache[key] = None  # a single operand takes an attribute constraint, not a range constraint
        return None
    ns = {"name": f"test.c10_sh_{okind}_{mode}", "inp": mk(c1), "outs": var_result_def(c2)}
    try:
        cls = irdl_op_definition(type(f"C10SH_{okind}_{mode}", (IRDLOperation,), ns))
    except Exception:
        cls = None
    _shared_cache[key] = cls
    return cls


@rechecked
def N_shared(okind, mode, in_types, out_types):
    """verify() of an op whose operand segment and result segment share a constraint variable vs the consistent-binding definition."""
    from xdsl.dialects.builtin import i32, i64
    from xdsl.utils.exceptions import VerifyException
    from xdsl.utils.test_value import create_ssa_value

    cls = _shared_cls(okind, mode)
    if cls is None:
        return None
    ty = {"a": i32, "b": i64}
    ins = [create_ssa_value(ty[c]) for c in in_types]
    arg = ins[0] if okind == SINGLE else ((ins[0] if ins else None) if okind == OPTIONAL else ins)
    try:
        op = cls.create(operands=ins, result_types=[ty[c] for c in out_types])
    except Exception:
        return None
    it, ot = tuple(in_types), tuple(out_types)
    exp = it == ot if mode == "range" else len(it) == len(ot) if mode == "length" else len(set(it) | set(ot)) <= 1
    try:
        op.verify()
        got = True
    except VerifyException:
        got = False
    except Exception as e:  # noqa: BLE001
        return {"operand kind": okind, "shared variable": mode, "operand types": in_types, "result types": out_types, "verify raised": f"{type(e).__name__}: {str(e)[:120]}"}
    if got != exp:
        return {"operand kind": okind, "shared variable": mode, "operand types": in_types, "result types": out_types, "verify accepted": got,
                "a consistent binding of the shared variable exists": exp}
    return None


def _native_shared(tier, seed):
    """Constraint variables shared between an operand segment (possibly absent / empty) and a result segment."""
    cases = 0
    for okind in (SINGLE, OPTIONAL, VARIADIC):
        sizes = {SINGLE: [1], OPTIONAL: [0, 1], VARIADIC: [0, 1, 2]}[okind]
        for mode in ("range", "length", "elem"):
            for n in sizes:
                for it in itertools.product("ab", repeat=n):
                    for m in range(0, 3):
                        for ot in itertools.product("ab", repeat=m):
                            cases += 1
                            f = N_shared(okind, mode, "".join(it), "".join(ot))
                            if f:
                                return {"cases": cases, "failures": [dict(f, key="C10/shared-variables")], "exhaustive": True, "bound": ""}
    return {"cases": cases, "failures": [], "exhaustive": True,
            "bound": "operand segment (single / optional incl. ABSENT / variadic incl. empty, <= 2 values of 2 types) sharing a range variable, a length variable or an "
                     "element-type variable with a variadic result segment (<= 2 types): verify() vs existence of a consistent binding, exhaustive"}


_region_cache: dict = {}


def _region_cls(kind, single):
    key = (kind, single)
    if key not in _region_cache:
        from xdsl.irdl import IRDLOperation, irdl_op_definition, opt_region_def, region_def, var_region_def

        mk = {SINGLE: region_def, OPTIONAL: opt_region_def, VARIADIC: var_region_def}[kind]
        ns = {"name": f"test.c10_rg_{kind}_{int(single)}", "body": mk("single_block") if single else mk()}
        try:
            _region_cache[key] = irdl_op_definition(type(f"C10RG_{kind}_{int(single)}", (IRDLOperation,), ns))
        except Exception:
            _region_cache[key] = None
    return _region_cache[key]


@rechecked
def N_regions(kind, single, block_counts):
    """verify() of an op with one region definition (single / optional / variadic; plain or single-block) and regions of the given block counts."""
    from xdsl.ir import Block, Region
    from xdsl.utils.exceptions import VerifyException

    cls = _region_cls(kind, single)
    if cls is None:
        return None
    from xdsl.dialects import test

    regions = [Region([Block([test.TestTermOp.create()]) for _ in range(n)]) for n in block_counts]  # (terminated blocks: the generic structure check is not the subject)
    try:
        op = cls.create(regions=regions)
    except Exception:
        return None
    n = len(block_counts)
    count_ok = n == 1 if kind == SINGLE else n <= 1 if kind == OPTIONAL else True
    exp = count_ok and (not single or all(c == 1 for c in block_counts))
    try:
        op.verify()
        got = True
    except VerifyException:
        got = False
    except Exception as e:  # noqa: BLE001
        return {"region definition": kind, "single_block": single, "block counts": block_counts, "verify raised": f"{type(e).__name__}: {str(e)[:120]}"}
    if got != exp:
        return {"region definition": kind, "single_block": single, "block counts": list(block_counts), "verify accepted": got, "the definition is satisfied": exp}
    return None


def _native_regions(tier, seed):
    cases = 0
    for kind in (SINGLE, OPTIONAL, VARIADIC):
        for single in (False, True):
            for n in range(0, 4):
                for counts in itertools.product((0, 1, 2), repeat=n):
                    cases += 1
                    f = N_regions(kind, single, list(counts))
                    if f:
                        return {"cases": cases, "failures": [dict(f, key="C10/regions")], "exhaustive": True, "bound": ""}
    return {"cases": cases, "failures": [], "exhaustive": True,
            "bound": "one region definition (single / optional / variadic; plain or single_block) with 0-3 regions of 0 / 1 / 2 blocks each: verify() vs the declared shape, exhaustive"}


_succ_cache: dict = {}


def _succ_cls(kind):
    if kind not in _succ_cache:
        from xdsl.irdl import IRDLOperation, irdl_op_definition, opt_successor_def, successor_def, traits_def, var_successor_def
        from xdsl.traits import IsTerminator

        ns = {"name": f"test.c10_sc_{kind}", "traits": traits_def(IsTerminator())}
        if kind != "none":
            ns["dest"] = {SINGLE: successor_def, OPTIONAL: opt_successor_def, VARIADIC: var_successor_def}[kind]()
        try:
            _succ_cache[kind] = irdl_op_definition(type(f"C10SC_{kind}", (IRDLOperation,), ns))
        except Exception:
            _succ_cache[kind] = None
    return _succ_cache[kind]


@rechecked
def N_successors(kind, n):
    """verify() of a terminator with NO / a single / an optional / a variadic successor definition carrying n successors (valid placement: last op of a block,
    successors in the same region)."""
    from xdsl.dialects import test
    from xdsl.ir import Block, Region
    from xdsl.utils.exceptions import VerifyException

    cls = _succ_cls(kind)
    if cls is None:
        return None
    targets = [Block([test.TestTermOp.create()]) for _ in range(3)]
    try:
        op = cls.create(successors=targets[:n])
    except Exception:
        return None
    holder = test.TestOp.create(regions=[Region([Block([op])] + targets)])
    exp = {"none": n == 0, SINGLE: n == 1, OPTIONAL: n <= 1, VARIADIC: True}[kind]
    try:
        op.verify()
        got = True
    except VerifyException:
        got = False
    except Exception as e:  # noqa: BLE001
        return {"successor definition": kind, "successors": n, "verify raised": f"{type(e).__name__}: {str(e)[:120]}"}
    del holder
    if got != exp:
        return {"successor definition": kind, "successors": n, "verify accepted": got, "the successor list splits into the declared segments": exp}
    return None


def _native_successors(tier, seed):
    cases = 0
    for kind in ("none", SINGLE, OPTIONAL, VARIADIC):
        for n in range(0, 4):
            cases += 1
            f = N_successors(kind, n)
            if f:
                return {"cases": cases, "failures": [dict(f, key="C10/successors")], "exhaustive": True, "bound": ""}
    return {"cases": cases, "failures": [], "exhaustive": True,
            "bound": "a terminator with no / a single / an optional / a variadic successor definition and 0-3 successors: verify() vs the declared segments, exhaustive"}


NATIVE = [("verify-vs-split", _native_verify), ("build-then-verify", _native_build), ("shared-variables", _native_shared), ("regions", _native_regions), ("successors", _native_successors)]
SCANS = [("def-class-hierarchy", check_class_hierarchy)]


def make_specs(tier):
    maxd = 4 if tier == "quick" else 5
    specs = []

    def add(s, insts):
        s.instances = insts
        specs.append(s)

    add(SameSize(), [{"kinds": ks} for ks in kind_seqs(maxd)])
    ai = []
    for ks in kind_seqs(maxd if tier == "thorough" else 3):
        for n in {len(ks), len(ks) + 1, max(len(ks) - 1, 0)}:
            ai.append({"kinds": ks, "nsizes": n})
    add(AttrSize(), ai)
    add(Dispatch(), [{}])
    bi = []
    for ks in kind_seqs(2 if tier == "quick" else 3):
        for shapes in itertools.product(SHAPES, repeat=len(ks)):
            bi.append({"kinds": ks, "shapes": "".join(shapes)})
    bi += [{"kinds": "s", "shapes": ""}, {"kinds": "", "shapes": "x"}]
    add(BuildArgList(), bi)
    sv, ss = [], []
    for ks in kind_seqs(4 if tier == "quick" else 5):
        if OPTIONAL in ks or VARIADIC not in ks:
            continue
        for i, k in enumerate(ks):
            (sv if k == VARIADIC else ss).append({"kinds": ks, "idx": i})
    add(VerifyArgList(), [{"shapes": "".join(sh)} for n in range(0, 4) for sh in itertools.product("nxq", repeat=n)])
    add(SameVarAccessor("SameVariadicAccessor", True), sv)
    add(SameVarAccessor("SameVariadicSingleAccessor", False), ss)
    acc = [{"D": D, "idx": i} for D in range(1, 5) for i in range(D)]
    add(AttrAccessor("SingleAttrAccessor", SINGLE), acc)
    add(AttrAccessor("VariadicAttrAccessor", VARIADIC), acc)
    add(AttrAccessor("OptionalAttrAccessor", OPTIONAL), acc)
    return specs


ASSUMPTIONS = [
    "definition lists are abstracted to kind sequences; units are instantiated for every kind sequence of <= 4 (quick) / 5 (thorough) constructs: "
    "unbounded in list lengths and segment sizes, BOUNDED in the number of declared constructs",
    "get_construct_defs / get_op_constructs / option.container / DenseArrayBase.get_values are bound as opaque expressions returning the declared lists (assumed)",
    "per-piece constraint checking (arg_def.constr.verify, properties, attributes, constraint variables) is C09 and not covered here",
    "irdl_op_verify_arg_list is under contract for <= 3 definitions (loop unrolled; accessors returning None / one value / a sequence of symbolic length): every definition is "
    "verified against exactly its segment, in the shared context; the constraint's own verify is an uninterpreted accept/raise here (C09). irdl_op_verify_regions: bounded only",
    "SameOptional*Accessor and the region/successor variants share the index arithmetic proved for operands; only bounded coverage",
]

SPECS = make_specs(os.environ.get("VERIF_TIER", "quick"))
