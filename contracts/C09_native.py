"""
Bounded stand-in for C09: real IRDL constraints built from generated description trees, compared with a reference evaluator written
from the statement ("a union accepts what some alternative accepts, an intersection what all accept, base/equality/set/parametrized
constraints check class and parameters, variables require all occurrences to be equal"), plus
  * union simplification / merging: AnyOf.get(...), `|`, `&` accept exactly what the un-simplified description accepts,
  * inference: can_infer(vars) => infer(ctx) is accepted by the constraint in that context,
  * type hints: irdl_to_attr_constraint(hint).verifies(a) == isa(a, hint) for hints over generic attribute classes.
Bound: trees of depth <= 3 over 8 constraint kinds, 22 attribute values of 12 classes (falsy ones included: IntAttr(0), empty
ArrayAttr, empty StringAttr), seeded.
"""

from __future__ import annotations

import random

from contracts.common import rechecked


def pool():
    from xdsl.dialects.builtin import (ArrayAttr, ComplexType, DictionaryAttr, FloatAttr, IndexType, IntAttr, IntegerAttr, IntegerType,
                                       Signedness, StringAttr, TupleType, UnitAttr, f32, f64, i32, i64)

    return [IntAttr(0), IntAttr(1), IntAttr(7), StringAttr(""), StringAttr("a"), ArrayAttr([]), ArrayAttr([IntAttr(1)]), ArrayAttr([IntAttr(0), StringAttr("x")]),
            i32, i64, IntegerType(8, Signedness.SIGNED), IndexType(), f32, f64, IntegerAttr(0, i32), IntegerAttr(1, i32), IntegerAttr(0, i64),
            FloatAttr(1.0, f32), ComplexType(f32), ComplexType(f64), TupleType([i32, f32]), UnitAttr(), DictionaryAttr({})]


def classes():
    from xdsl.dialects.builtin import ArrayAttr, ComplexType, IntAttr, IntegerAttr, IntegerType, StringAttr
    from xdsl.ir import Attribute, TypeAttribute

    # (class, number of parameters or None if not parametrized / unknown)
    return [(IntAttr, None), (StringAttr, None), (ArrayAttr, None), (IntegerType, 2), (IntegerAttr, 2), (ComplexType, 1), (TypeAttribute, None), (Attribute, None)]


# ------------------------------------------------------------------ description trees
def gen_desc(rnd, depth, attrs, var_names=("T", "U"), var_defs=None):
    """A constraint variable is given ONE inner constraint per tree (every occurrence of T carries the same constraint, as in real definitions)."""
    if var_defs is None:
        var_defs = {}
    kinds = ["any", "eq", "set", "base", "param", "var", "allof", "anyof"] if depth > 0 else ["any", "eq", "set", "base"]
    if not var_names:
        kinds = [x for x in kinds if x != "var"]
    k = rnd.choice(kinds)
    if k == "any":
        return ("any",)
    if k == "eq":
        return ("eq", rnd.randrange(len(attrs)))
    if k == "set":
        return ("set", tuple(sorted(rnd.sample(range(len(attrs)), rnd.randrange(1, 4)))))
    if k == "base":
        return ("base", rnd.randrange(len(classes())))
    if k == "param":
        ci = rnd.choice([i for i, (_, n) in enumerate(classes()) if n])
        n = classes()[ci][1]
        n_used = n if rnd.random() < 0.85 else rnd.choice([max(n - 1, 0), n + 1])  # sometimes a wrong arity: must reject, not crash
        return ("param", ci, tuple(gen_desc(rnd, depth - 1, attrs, var_names, var_defs) for _ in range(n_used)))
    if k == "var":
        name = rnd.choice(var_names)
        if name not in var_defs:
            var_defs[name] = gen_desc(rnd, min(depth - 1, 1), attrs, (), var_defs)  # variable-free inner constraint
        return ("var", name, var_defs[name])
    subs = tuple(gen_desc(rnd, depth - 1, attrs, var_names, var_defs) for _ in range(rnd.randrange(1, 4)))
    return (k, subs)


def build(desc, attrs):
    from xdsl.irdl import AllOf, AnyAttr, AnyOf, AttrSetConstraint, BaseAttr, EqAttrConstraint, ParamAttrConstraint, VarConstraint

    k = desc[0]
    if k == "any":
        return AnyAttr()
    if k == "eq":
        return EqAttrConstraint(attrs[desc[1]])
    if k == "set":
        return AttrSetConstraint(frozenset(attrs[i] for i in desc[1]))
    if k == "base":
        return BaseAttr(classes()[desc[1]][0])
    if k == "param":
        return ParamAttrConstraint(classes()[desc[1]][0], tuple(build(d, attrs) for d in desc[2]))
    if k == "var":
        return VarConstraint(desc[1], build(desc[2], attrs))
    if k == "allof":
        return AllOf(tuple(build(d, attrs) for d in desc[1]))
    if k == "anyof":
        return AnyOf(tuple(build(d, attrs) for d in desc[1]))  # may raise PyRDLError (overlapping alternatives): such trees are skipped
    raise ValueError(k)


def ref(desc, a, ctx, attrs):
    """Reference semantics: returns (accepted, ctx') ; ctx is a dict name -> attribute (functional)."""
    k = desc[0]
    if k == "any":
        return True, ctx
    if k == "eq":
        return a == attrs[desc[1]], ctx
    if k == "set":
        return any(a == attrs[i] for i in desc[1]), ctx
    if k == "base":
        return isinstance(a, classes()[desc[1]][0]), ctx
    if k == "param":
        cls = classes()[desc[1]][0]
        if not isinstance(a, cls):
            return False, ctx
        ps = a.parameters
        if len(ps) != len(desc[2]):
            return False, ctx
        for d, p in zip(desc[2], ps):
            ok, ctx = ref(d, p, ctx, attrs)
            if not ok:
                return False, ctx
        return True, ctx
    if k == "var":
        if desc[1] in ctx:
            return a == ctx[desc[1]], ctx
        ok, ctx = ref(desc[2], a, ctx, attrs)
        if not ok:
            return False, ctx
        return True, dict(ctx, **{desc[1]: a})
    if k == "allof":
        allok = True
        for d in desc[1]:
            ok, ctx = ref(d, a, ctx, attrs)  # (the real AllOf keeps going after a failure; acceptance is the conjunction)
            allok = allok and ok
        return allok, ctx
    if k == "anyof":
        for d in desc[1]:
            ok, c2 = ref(d, a, ctx, attrs)
            if ok:
                return True, c2
        return False, ctx
    raise ValueError(k)


def has_var(desc):
    if desc[0] == "var":
        return True
    return any(has_var(d) for part in desc[1:] if isinstance(part, tuple) for d in part if isinstance(d, tuple))


def var_defs(desc, out=None):
    """name -> inner description of every variable of the tree (one definition per variable per tree)."""
    out = {} if out is None else out
    if desc[0] == "var":
        out[desc[1]] = desc[2]
        var_defs(desc[2], out)
        return out
    for part in desc[1:]:
        if isinstance(part, tuple):
            for d in part:
                if isinstance(d, tuple) and d and isinstance(d[0], str):
                    var_defs(d, out)
    return out


def allof_conjunct_disagreement(c, bound):
    """
    Classifier for the known finding: along the path infer() takes, an AllOf takes the attribute inferred by its first inferable conjunct
    although a sibling conjunct rejects it.
    """
    from xdsl.irdl import AllOf, ConstraintContext, ParamAttrConstraint, VarConstraint

    def ctx():
        rc = ConstraintContext()
        for k, v in bound.items():
            rc.set_attr_variable(k, v)
        return rc

    def accepts(x, a):
        try:
            x.verify(a, ctx())
            return True
        except Exception:
            return False

    if isinstance(c, AllOf):
        for sub in c.attr_constrs:
            if sub.can_infer(set(bound)):
                try:
                    r = sub.infer(ctx())
                except Exception:
                    return False
                if accepts(sub, r) and not accepts(c, r):
                    return True
                return allof_conjunct_disagreement(sub, bound)
        return False
    if isinstance(c, VarConstraint):
        return c.name not in bound and allof_conjunct_disagreement(c.constraint, bound)
    if isinstance(c, ParamAttrConstraint):
        return any(allof_conjunct_disagreement(p, bound) for p in c.param_constrs)
    return False


def failing_allof_binds(desc):
    """AllOf whose failing conjunct may have bound variables first: the statement does not fix the context after a rejection; skipped for context comparisons."""
    return False


@rechecked
def check_range_vars(kind, seq):
    """
    One range-level constraint variable verified against several ranges in ONE context (as the operand / result segments of an op do): every
    occurrence must equal the first one - including when the first one is the EMPTY range - and satisfy the variable's own constraint.
    kind: "range" (RangeVarConstraint), "length" (RangeOf(...).of_length(IntVarConstraint)), "elem" (RangeOf(VarConstraint)).
    """
    from xdsl.dialects.builtin import IndexType, i32, i64
    from xdsl.irdl import AnyAttr, AnyInt, BaseAttr, ConstraintContext, IntVarConstraint, RangeOf, RangeVarConstraint, VarConstraint
    from xdsl.dialects.builtin import IntegerType
    from xdsl.utils.exceptions import VerifyException

    ty = {"a": i32, "b": i64, "x": IndexType()}
    if kind == "range":
        c = RangeVarConstraint("R", RangeOf(BaseAttr(IntegerType)))
        ok_inner = lambda r: all(t != "x" for t in r)
        agree = lambda r0, r: r == r0
    elif kind == "length":
        c = RangeOf(AnyAttr()).of_length(IntVarConstraint("N", AnyInt()))
        ok_inner = lambda r: True
        agree = lambda r0, r: len(r) == len(r0)
    else:
        c = RangeOf(VarConstraint("T", BaseAttr(IntegerType)))
        ok_inner = lambda r: all(t != "x" for t in r)
        agree = None
    ctx = ConstraintContext()
    first = None
    bound_elem = None
    for r in seq:
        if kind == "elem":
            exp = ok_inner(r) and len(set(r) | ({bound_elem} if bound_elem else set())) <= 1
        else:
            exp = ok_inner(r) and (first is None or agree(first, r))
        try:
            c.verify(tuple(ty[t] for t in r), ctx)
            got = True
        except VerifyException:
            got = False
        except Exception as e:  # noqa: BLE001
            return {"key": "C09/range-variables", "what": f"verify raised {type(e).__name__}: {str(e)[:120]}", "constraint kind": kind, "ranges": list(seq), "inputs": {}}
        if got != exp:
            return {"key": "C09/range-variables", "what": f"after {list(seq[:seq.index(r)])!r} the range {r!r} is accepted={got}; all occurrences of the variable must agree: {exp}",
                    "constraint kind": kind, "ranges": list(seq), "inputs": {}}
        if not got:
            return None  # the context after a rejection is not specified
        if first is None:
            first = r
        if kind == "elem" and r and bound_elem is None:
            bound_elem = r[0]
    return None


@rechecked
def check_shared(seed, case):
    """
    Constraint objects are immutable values: building further constraints FROM an existing constraint object (as `c & x`, `c | y`, AllOf / AnyOf
    nodes sharing it) and querying them must not change what the shared object - or any constraint built from it later - accepts or reports as bases.
    """
    from xdsl.irdl import AllOf, AnyOf, BaseAttr, EqAttrConstraint
    from xdsl.utils.exceptions import PyRDLError

    rnd = random.Random(f"shared/{seed}/{case}")
    attrs = pool()
    inputs = {"seed": seed, "case": case}
    # a variable-free leaf or small tree, shared by several composites
    d = gen_desc(rnd, 2, attrs, var_names=())
    try:
        c = build(d, attrs)
    except PyRDLError:
        return None
    b0 = c.get_bases()
    bases0 = None if b0 is None else frozenset(b0)
    acc0 = [c.verifies(a) for a in attrs]
    others = []
    for _ in range(rnd.randrange(1, 4)):
        od = gen_desc(rnd, 1, attrs, var_names=())
        try:
            others.append((od, build(od, attrs)))
        except PyRDLError:
            continue
    composites = []
    for od, o in others:
        for mk in (lambda: AllOf((c, o)), lambda: AllOf((o, c)), lambda: c & o, lambda: AnyOf((c, o)), lambda: AnyOf((o, c)), lambda: c | o):
            try:
                k = mk()
                k.get_bases()
                composites.append(k)
            except (PyRDLError, Exception):  # noqa: BLE001  (overlapping alternatives etc.: such composites are simply not built)
                continue
    b1 = c.get_bases()
    bases1 = None if b1 is None else frozenset(b1)
    if bases1 != bases0:
        return {"key": "C09/shared", "what": f"get_bases() of a constraint changed after other constraints were built from it: {sorted(x.__name__ for x in bases0 or ())} -> {sorted(x.__name__ for x in bases1 or ())}",
                "constraint": repr(d), "inputs": inputs}
    acc1 = [c.verifies(a) for a in attrs]
    if acc1 != acc0:
        return {"key": "C09/shared", "what": "a constraint accepts different attributes after other constraints were built from it", "constraint": repr(d), "inputs": inputs}
    # a union built NOW from the shared object accepts what the shared object accepts
    for a in attrs:
        if not acc0[attrs.index(a)]:
            continue
        for od, o in others:
            try:
                u = AnyOf((c, o))
            except PyRDLError:
                continue
            if not u.verifies(a):
                return {"key": "C09/shared", "what": f"a union with alternative {d!r} rejects {a}, which that alternative accepts (after building {len(composites)} other constraints from the same object)",
                        "constraint": repr(("anyof", (d, od))), "inputs": inputs}
    return None


@rechecked
def check_tree(seed, case):
    from xdsl.irdl import AnyOf, ConstraintContext
    from xdsl.utils.exceptions import PyRDLError, VerifyException

    rnd = random.Random(f"{seed}/{case}")
    attrs = pool()
    desc = gen_desc(rnd, 3, attrs)
    try:
        c = build(desc, attrs)
    except PyRDLError:
        return None
    inputs = {"seed": seed, "case": case}
    for a in attrs:
        exp, _ = ref(desc, a, {}, attrs)
        try:
            got = c.verifies(a)
        except Exception as e:  # only VerifyException may come out of verify
            return {"key": "C09/accepts", "what": f"verify raised {type(e).__name__}: {str(e)[:200]}", "constraint": repr(desc), "attribute": str(a), "inputs": inputs}
        if got != exp:
            return {"key": "C09/accepts", "what": f"accepts={got}, the definition says {exp}", "constraint": repr(desc), "real": repr(c)[:300], "attribute": str(a), "inputs": inputs}
    # a second attribute checked in the context left by a first one (variables must stay equal across occurrences)
    for _ in range(6):
        a1, a2 = rnd.choice(attrs), rnd.choice(attrs)
        ok1, ctx1 = ref(desc, a1, {}, attrs)
        if not ok1:
            continue
        rc = ConstraintContext()
        c.verify(a1, rc)
        exp2, _ = ref(desc, a2, ctx1, attrs)
        try:
            c.verify(a2, rc)
            got2 = True
        except VerifyException:
            got2 = False
        if got2 != exp2:
            return {"key": "C09/variables", "what": f"after accepting {a1}, {a2} accepted={got2}, the definition says {exp2}", "constraint": repr(desc), "inputs": inputs}
    # inference
    for bound in ({}, {"T": rnd.choice(attrs)}, {"T": rnd.choice(attrs), "U": rnd.choice(attrs)}):
        # a context only ever holds bindings made by a successful verification: a bound value satisfies its variable's own constraint
        defs = var_defs(desc)
        if any(k in defs and not ref(defs[k], v, {}, attrs)[0] for k, v in bound.items()):
            continue
        rc = ConstraintContext()
        for k, v in bound.items():
            rc.set_attr_variable(k, v)
        try:
            can = c.can_infer(set(bound))
        except Exception as e:
            return {"key": "C09/infer", "what": f"can_infer raised {type(e).__name__}", "constraint": repr(desc), "inputs": inputs}
        # "the inferred attribute satisfies it" presupposes a satisfiable constraint: checked when some pool attribute is accepted in this context
        satisfiable = any(ref(desc, a, dict(bound), attrs)[0] for a in attrs)
        if can and satisfiable:
            try:
                r = c.infer(rc)
            except Exception as e:
                return {"key": "C09/infer", "what": f"can_infer is True but infer raised {type(e).__name__}: {str(e)[:100]}", "constraint": repr(desc), "bound": str(bound), "inputs": inputs}
            rc2 = ConstraintContext()
            for k, v in bound.items():
                rc2.set_attr_variable(k, v)
            try:
                c.verify(r, rc2)
            except VerifyException as e:
                return {"key": "C09/infer", "what": f"inferred attribute {r} is rejected by the constraint: {str(e)[:100]}", "constraint": repr(desc), "bound": str(bound),
                        "inputs": dict(inputs, allof_takes_the_inference_of_one_conjunct_that_a_sibling_rejects=allof_conjunct_disagreement(c, bound))}
    # union simplification: AnyOf.get / | / & over variable-free alternatives
    alts = [gen_desc(rnd, 2, attrs) for _ in range(rnd.randrange(2, 5))]
    alts = [d for d in alts if not has_var(d)]
    built = []
    for d in alts:
        try:
            built.append(build(d, attrs))
        except PyRDLError:
            return None
    if len(built) >= 2:
        for name, mk, comb in (("AnyOf.get", lambda: AnyOf.get(*built), any), ("|", lambda: _fold(built, lambda x, y: x | y), any), ("&", lambda: _fold(built, lambda x, y: x & y), all)):
            try:
                u = mk()
            except PyRDLError:
                continue
            for a in attrs:
                exp = comb(ref(d, a, {}, attrs)[0] for d in alts)
                got = u.verifies(a)
                if got != exp:
                    return {"key": "C09/simplify", "what": f"{name} of {alts!r} accepts {a}: {got}, the alternatives say {exp}", "simplified": repr(u)[:300], "inputs": inputs}
    return None


def _fold(xs, f):
    acc = xs[0]
    for x in xs[1:]:
        acc = f(acc, x)
    return acc


@rechecked
def check_hints(seed):
    from xdsl.dialects.builtin import (ArrayAttr, ComplexType, DictionaryAttr, Float32Type, FloatAttr, IndexType, IntAttr, IntegerAttr, IntegerType,
                                       StringAttr, TupleType, VectorType)
    from xdsl.ir import Attribute, TypeAttribute
    from xdsl.irdl import irdl_to_attr_constraint
    from xdsl.utils.hints import isa

    hints = [IntAttr, StringAttr, IntAttr | StringAttr, ArrayAttr[IntAttr], ArrayAttr[IntAttr | StringAttr], ArrayAttr[ArrayAttr[IntAttr]],
             IntegerAttr[IntegerType], IntegerAttr[IndexType], IntegerAttr, Attribute, TypeAttribute, ComplexType[Float32Type], FloatAttr[Float32Type],
             ArrayAttr, DictionaryAttr, TupleType, VectorType[IntegerType], ArrayAttr[IntegerAttr[IndexType]], IntegerAttr[IntegerType | IndexType]]
    attrs = pool() + [ArrayAttr([ArrayAttr([IntAttr(2)])]), ArrayAttr([IntegerAttr(1, IndexType())]), IntegerAttr(1, IndexType())]
    n = 0
    for h in hints:
        c = irdl_to_attr_constraint(h)
        for a in attrs:
            n += 1
            if c.verifies(a) != isa(a, h):
                return {"key": "C09/hints", "what": f"constraint from hint {h} accepts {a}: {c.verifies(a)}, isa says {isa(a, h)}", "inputs": {"seed": seed}, "n": n}
    return None


def explore(tier, seed):
    n = 600 if tier == "quick" else 6000
    fails, seen, cases = [], set(), 0
    f = check_hints(seed)
    cases += 1
    if f:
        fails.append(f)
    import itertools

    ranges = ["", "a", "b", "ab", "aa", "x"]
    for kind in ("range", "length", "elem"):
        for L in (2, 3):
            for seq in itertools.product(ranges, repeat=L):
                cases += 1
                f = check_range_vars(kind, list(seq))
                if f and (f["key"], None) not in seen:
                    seen.add((f["key"], None))
                    fails.append(f)
    for case in range(n):
        cases += 1
        f = check_shared(seed, case)
        if f and (f["key"], None) not in seen:
            seen.add((f["key"], None))
            fails.append(f)
    for case in range(n):
        cases += 1
        f = check_tree(seed, case)
        k = (f["key"], f["inputs"].get("allof_takes_the_inference_of_one_conjunct_that_a_sibling_rejects")) if f else None
        if f and k not in seen:
            seen.add(k)
            fails.append(f)
    return {"cases": cases, "failures": fails, "exhaustive": False, "nontrivial": cases,
            "bound": f"{n} seeded constraint trees (depth <= 3; any/eq/set/base/param/var/allof/anyof) x 23 attribute values (falsy values included), second attribute in the "
                     "context of a first, inference under 3 variable bindings, AnyOf.get / | / & of 2-4 variable-free alternatives; 19 type hints x 26 attributes vs isa; "
                     f"{n} shared-object scenarios (composites built from one constraint object must not change its bases or acceptance); "
                     "range-level variables (range, length, element type) verified against every sequence of 2-3 ranges over 6 small ranges (the empty one included) in one context"}


NATIVE = [("constraints-vs-reference", explore)]
