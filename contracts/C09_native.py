"""Bounded stand-in for C09 (filled in below)."""
NATIVE = []


def explore(tier, seed):
    return {"cases": 0, "failures": [], "exhaustive": False, "bound": ""}
