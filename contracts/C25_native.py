"""
Bounded stand-in for C25: generated branch-free single-block programs (pure / reading / writing /
unknown ops, dead chains, multi-result ops, block arguments, a public func.func with a return or a
bare module block), solved by the real DataFlowSolver + DeadCodeAnalysis + LivenessAnalysis under
FIFO, LIFO and randomized worklist orders (with and without duplicate suppression), compared per
value with an independent reachability oracle written from the statement.
"""

from __future__ import annotations

import random

from contracts.common import rechecked

KINDS = ["pure", "read", "write", "unknown"]


class Schedule:
    """Drop-in for the solver's deque: append / popleft / truthiness, with a perturbed pop order."""

    def __init__(self, mode, rnd):
        self.items = []
        self.mode = mode
        self.rnd = rnd
        self.pops = 0

    def append(self, x):
        if self.mode == "random-dedup" and x in self.items:
            return
        self.items.append(x)

    def popleft(self):
        self.pops += 1
        if self.pops > 200000:
            raise RuntimeError("solver does not terminate")
        if self.mode == "fifo":
            return self.items.pop(0)
        if self.mode == "lifo":
            return self.items.pop()
        return self.items.pop(self.rnd.randrange(len(self.items)))

    def __len__(self):
        return len(self.items)

    def __bool__(self):
        return bool(self.items)


def build(spec):
    """spec = {"top": "func"|"module", "nargs": n, "ops": [(kind, [operand refs], nres)], "ret": [refs] | None}"""
    from xdsl.dialects import func, test
    from xdsl.dialects.builtin import ModuleOp, i32
    from xdsl.ir import Block, Region

    cls = {"pure": test.TestPureOp, "read": test.TestReadOp, "write": test.TestWriteOp, "unknown": test.TestOp}
    blk = Block(arg_types=[i32] * (spec["nargs"] if spec["top"] == "func" else 0))
    vals = list(blk.args)
    ops = []
    for kind, refs, nres in spec["ops"]:
        operands = [vals[r % len(vals)] for r in refs] if vals else []
        o = cls[kind].create(operands=operands, result_types=[i32] * nres)
        ops.append(o)
        vals.extend(o.results)
    if spec["top"] == "func":
        rets = [vals[r % len(vals)] for r in (spec["ret"] or [])] if vals else []
        ops.append(func.ReturnOp(*rets))
        blk.add_ops(ops)
        top = func.FuncOp("f", ([i32] * spec["nargs"], [i32] * len(rets)), Region(blk))
        holder = ModuleOp([top])  # keeps the function attached; the analysis is run on the function
        return holder, top, blk, vals
    blk.add_ops(ops)
    top = ModuleOp(Region(blk))
    return top, top, blk, vals


def harmless(op):
    """From the statement: 'trivially removable' = no possibly observable effect, not a terminator, not a symbol."""
    n = op.name
    if n in ("test.pureop", "test.op_with_memread"):
        return True
    if n in ("test.op", "test.op_with_memwrite", "func.return"):
        return False
    raise KeyError(n)


def oracle(blk, vals, escaping=()):
    """Least set: v live iff it reaches an exit boundary, is used by a non-removable op, or by an op one of whose results is live."""
    live = {id(v) for v in escaping}
    changed = True
    ops = []
    o = blk._first_op
    while o is not None:
        ops.append(o)
        o = o._next_op
    while changed:
        changed = False
        for o in ops:
            need = (not harmless(o)) or any(id(r) in live for r in o.results)
            if need:
                for v in o._operands:
                    if id(v) not in live:
                        live.add(id(v))
                        changed = True
    return live


_EB = {}


def exit_boundary_class():
    """A helper analysis standing for 'these values are returned from a public function': it hands the lattices of the escaping values to the public
    LivenessAnalysis.set_all_to_exit_states.  Whether it is initialised before or after the liveness walk is a matter of processing order only."""
    if "cls" not in _EB:
        from xdsl.analysis.dataflow import DataFlowAnalysis

        class ExitBoundary(DataFlowAnalysis):
            liveness = None
            escaping = ()

            def initialize(self, op):
                self.liveness.set_all_to_exit_states([self.liveness.get_lattice_element(v) for v in self.escaping])

            def visit(self, point):
                pass

        _EB["cls"] = ExitBoundary
    return _EB["cls"]


def solve(spec, mode, seed, order):
    from xdsl.analysis.dataflow import DataFlowSolver
    from xdsl.analysis.dead_code_analysis import DeadCodeAnalysis
    from xdsl.analysis.liveness_analysis import Liveness, LivenessAnalysis
    from xdsl.context import Context

    holder, top, blk, vals = build(spec)
    solver = DataFlowSolver(Context())
    esc = [vals[r % len(vals)] for r in spec.get("escape", ())] if vals else []
    boundary = None
    if esc and order.endswith("boundary-first"):
        boundary = solver.load(exit_boundary_class())
    if order.startswith("dca-first"):
        solver.load(DeadCodeAnalysis)
        liveness = solver.load(LivenessAnalysis)
    else:
        liveness = solver.load(LivenessAnalysis)
        solver.load(DeadCodeAnalysis)
    if esc and boundary is None:
        boundary = solver.load(exit_boundary_class())
    if boundary is not None:
        boundary.liveness, boundary.escaping = liveness, tuple(esc)
    if mode != "default":
        solver._worklist = Schedule(mode, random.Random(seed))
    solver.initialize_and_run(top)
    got = []
    for v in vals:
        st = solver.lookup_state(v, Liveness)
        got.append(bool(st is not None and st.is_live))
    return holder, blk, vals, got, esc


MODES = ["default", "fifo", "lifo", "random", "random-dedup"]


@rechecked
def check_program(spec, seed):
    first = None
    for mode in MODES:
        for order in (("dca-first", "liveness-first", "dca-first/boundary-first", "liveness-first/boundary-first") if spec.get("escape") else ("dca-first", "liveness-first")):
            for rep in range(3 if mode.startswith("random") else 1):
                try:
                    holder, blk, vals, got, esc = solve(spec, mode, seed * 31 + rep, order)
                except Exception as e:  # noqa: BLE001
                    return {"program": str(build(spec)[0]), "schedule": mode, "load order": order, "raised": repr(e), "key": "C25/raises"}
                exp_ids = oracle(blk, vals, esc)
                exp = [id(v) in exp_ids for v in vals]
                if got != exp:
                    bad = [i for i in range(len(vals)) if got[i] != exp[i]]
                    return {"program": str(holder), "schedule": mode, "load order": order, "seed": seed * 31 + rep, "escaping value indices": list(spec.get("escape", ())),
                            "value index (block args first, then results in order)": bad[0],
                            "analysis says live": got[bad[0]], "statement says live": exp[bad[0]], "key": "C25/liveness"}
                if first is None:
                    first = got
                elif got != first:
                    return {"program": str(holder), "schedule": mode, "why": "result depends on the worklist order", "key": "C25/schedule"}
    return None


def gen(rnd):
    top = rnd.choice(["func", "func", "module"])
    nargs = rnd.randrange(0, 3)
    ops = []
    for _ in range(rnd.randrange(0, 8)):
        kind = rnd.choice(KINDS) if rnd.random() < 0.5 else "pure"
        ops.append((kind, [rnd.randrange(0, 50) for _ in range(rnd.randrange(0, 4))], rnd.randrange(0, 3)))
    ret = [rnd.randrange(0, 50) for _ in range(rnd.randrange(0, 3))]
    spec = {"top": top, "nargs": nargs, "ops": ops, "ret": ret}
    if rnd.random() < 0.4:
        # values handed to set_all_to_exit_states (a backward-propagation boundary), before or after the liveness walk
        spec["escape"] = [rnd.randrange(0, 50) for _ in range(rnd.randrange(1, 3))]
    return spec


def small_family():
    """Exhaustive: every program of <= 3 ops over {pure, write} with <= 1 operand and 1 result, every operand choice, optional return."""
    import itertools

    out = []
    for n in range(0, 4):
        shapes = []
        for i in range(n):
            # op i: kind x operand (None or index of an earlier value; arg 0 is value 0)
            shapes.append([(k, r) for k in ("pure", "write", "read") for r in [None] + list(range(i + 1))])
        for combo in itertools.product(*shapes):
            ops = [(k, [] if r is None else [r], 1) for k, r in combo]
            for ret in ([], [n]):  # nothing / the last value
                out.append({"top": "func", "nargs": 1, "ops": ops, "ret": ret})
            if n and all(k == "pure" for k, _r in combo):
                # all-pure programs: nothing is live unless a value reaches an exit boundary
                out.append({"top": "func", "nargs": 1, "ops": ops, "ret": [], "escape": [n]})
                out.append({"top": "module", "nargs": 0, "ops": ops, "ret": [], "escape": [n - 1]})
    return out


def explore(tier, seed):
    rnd = random.Random(seed)
    n = 150 if tier == "quick" else 3000
    cases = 0
    fails = []
    seen = set()
    fam = small_family()
    if tier == "quick":
        fam = fam[::3]
    for spec in fam + [gen(rnd) for _ in range(n)]:
        cases += 1
        f = check_program(spec, seed)
        if f and f["key"] not in seen:
            seen.add(f["key"])
            fails.append(f)
    return {"cases": cases, "failures": fails, "exhaustive": False,
            "bound": f"{len(fam)} programs of the exhaustive family (<= 3 ops over pure/read/write, <= 1 operand) + {n} seeded single-block programs (<= 7 ops, "
                     "<= 3 operands, <= 2 results, block arguments, func.func with return or bare module), each solved under 5 worklist disciplines (default deque, "
                     "FIFO, LIFO, random x3, random with duplicate suppression x3) x 2 analysis load orders; per-value comparison with a reachability oracle"}
