"""
C26 — Affine expression algebra preserves values.

Statement (quoted): "Building affine expressions with addition, constant multiplication, floor
division, ceiling division and modulo by positive constants, simplifying them, composing them with
affine maps, replacing dimensions and symbols, and printing and re-parsing them all preserve the
value the expression evaluates to for every assignment of its dimensions and symbols."

Expressions are immutable trees; their fields are uninterpreted functions of the reference
(CLS, VALUE, POSITION, KIND, LHS, RHS) and EVAL(e) is the value under one arbitrary, fixed
assignment (DIMVAL, SYMVAL), characterised by its one-level unfolding.  Every constructor
function is verified for all operand expressions: nested calls (`self.lhs + fold`,
`self.lhs * other + self.rhs * other`) go through the callee's own contract (partial correctness).
"""

from __future__ import annotations

import os

import z3

from contracts import C26_native as N26
from contracts.common import A, AX, C, division_axioms, forall
from pyvc.arith import FDIV, floordiv
from pyvc.spec import Builtin, Inline, Spec
from pyvc.values import Clause, VBool, VGlobal, VInt, VRef, VSeq, VTuple, Vocab, z_int

PROP = "C26"
AE = "xdsl/ir/affine/affine_expr.py"
I = z3.IntSort()
VOCAB = Vocab({})

CONST, DIM, SYM, BIN = 1, 2, 3, 4
ADD, MUL, MOD, FLOORDIV, CEILDIV = 1, 2, 3, 4, 5
CLS = z3.Function("expr_class", I, I)
VALUE = z3.Function("expr_value", I, I)
POSITION = z3.Function("expr_position", I, I)
KIND = z3.Function("expr_kind", I, I)
LHS = z3.Function("expr_lhs", I, I)
RHS = z3.Function("expr_rhs", I, I)
EVAL = z3.Function("eval_under_fixed_assignment", I, I)
DIMVAL = z3.Function("dim_value", I, I)
SYMVAL = z3.Function("sym_value", I, I)
KINDS = {"Add": ADD, "Mul": MUL, "Mod": MOD, "FloorDiv": FLOORDIV, "CeilDiv": CEILDIV}
CLASSES = {"AffineConstantExpr": CONST, "AffineDimExpr": DIM, "AffineSymExpr": SYM, "AffineBinaryOpExpr": BIN}


def binval(k, a, b):
    """Value of a binary node, by kind (k is a z3 Int or a Python int)."""
    return z3.If(k == ADD, a + b, z3.If(k == MUL, a * b, z3.If(k == MOD, a - b * floordiv(a, b), z3.If(k == FLOORDIV, floordiv(a, b), -floordiv(-a, b)))))


def eval_axioms():
    e = z3.Int("ea!e")
    return [AX("eval-unfold", forall([e], z3.And(
        z3.Implies(CLS(e) == CONST, EVAL(e) == VALUE(e)),
        z3.Implies(CLS(e) == DIM, EVAL(e) == DIMVAL(POSITION(e))),
        z3.Implies(CLS(e) == SYM, EVAL(e) == SYMVAL(POSITION(e))),
        z3.Implies(CLS(e) == BIN, EVAL(e) == binval(KIND(e), EVAL(LHS(e)), EVAL(RHS(e))))), patterns=[EVAL(e)])),
        AX("classes", forall([e], z3.And(CLS(e) >= CONST, CLS(e) <= BIN), patterns=[CLS(e)])),
        AX("kinds", forall([e], z3.Implies(CLS(e) == BIN, z3.And(KIND(e) >= ADD, KIND(e) <= CEILDIV, LHS(e) != 0, RHS(e) != 0)), patterns=[KIND(e)]))]


def R(kind, val, st):
    from pyvc.engine import Res

    return Res(kind, val, st)


def new_expr(st, cls, **f):
    r = st.fresh_int("expr")
    st.assume(z3.And(r != 0, CLS(r) == cls))
    for k, v in f.items():
        st.assume({"value": VALUE, "position": POSITION, "kind": KIND, "lhs": LHS, "rhs": RHS}[k](r) == v)
    return VRef(r, "AffineExpr")


def b_constant(ex, st, args, kw):
    return [R("val", new_expr(st, CONST, value=z_int(args[0])), st)]


def b_binexpr(ex, st, args, kw):
    return [R("val", new_expr(st, BIN, kind=z_int(args[0]), lhs=args[1].z, rhs=args[2].z), st)]


def hooks(spec):
    def isinst(ex, st, v, cls):
        if isinstance(cls, VGlobal) and cls.text in CLASSES and isinstance(v, VRef):
            return VBool(CLS(v.z) == CLASSES[cls.text])
        if isinstance(cls, VGlobal) and cls.text == "int":
            return not isinstance(v, VRef)
        return None

    def getattr_(ex, st, base, attr):
        f = {"value": VALUE, "position": POSITION, "kind": KIND}.get(attr)
        if f is not None:
            return VInt(f(base.z))
        if attr in ("lhs", "rhs"):
            return VRef({"lhs": LHS, "rhs": RHS}[attr](base.z), "AffineExpr")
        return None

    def binop(ex, st, op, a, b):
        """Operators on expressions dispatch to the dunder methods, replaced by their contracts."""
        from pyvc.calls import contract_call

        if not (isinstance(a, VRef) or isinstance(b, VRef)):
            return None
        name = {"+": "__add__", "*": "__mul__", "//": "__floordiv__", "%": "__mod__", "-": "__sub__"}.get(op)
        if name is None:
            return None
        if isinstance(a, VRef):
            return contract_call(ex, OPS[name], [a, b], {}, st, name)
        # int <op> expr -> expr.__r<op>__(int), which for + and * is the same function with swapped roles
        if op in ("+", "*"):
            return contract_call(ex, OPS[name], [b, a], {}, st, "__r" + name[2:])
        return None

    return {"__isinstance__": isinst, "__getattr__": getattr_, "__binop__": binop,
            "AffineBinaryOpKind": VGlobal("AffineBinaryOpKind")}


COMMON_CALLS = {"AffineExpr.constant": Builtin(b_constant, "AffineConstantExpr(value): a fresh constant node"),
                "AffineBinaryOpExpr": Builtin(b_binexpr, "AffineBinaryOpExpr(kind, lhs, rhs): a fresh binary node")}


def kind_binds():
    return {f"AffineBinaryOpKind.{k}": VInt(z3.IntVal(v)) for k, v in KINDS.items()}


def ev(v):
    """EVAL of an operand that is an expression reference or a Python int."""
    return EVAL(v.z) if isinstance(v, VRef) else z_int(v)


class OpSpec(Spec):
    """self <op> other for the dunder methods / ceil_div."""

    prop, file = PROP, AE

    def __init__(self, method, kind):
        self.qualname = f"AffineExpr.{method}"
        self.method = method
        self.kind = kind
        self.calls = dict(COMMON_CALLS)

    @property
    def globals(self):
        return hooks(self)

    def setup(self, st, inst):
        me = st.declare_input("self", z3.Int("self"))
        self.int_other = inst.get("other") == "int"
        if self.method == "__neg__":
            return {"self": VRef(me, "AffineExpr")}
        o = st.declare_input("other", z3.Int("other"))
        return {"self": VRef(me, "AffineExpr"), "other": VInt(o) if self.int_other else VRef(o, "AffineExpr")}

    def bind(self, st, a, inst):
        return kind_binds()

    def divisor_ok(self, a):
        o = a.get("other")
        if self.kind in (MOD, FLOORDIV, CEILDIV):
            d = ev(o)
            # the statement's precondition: division / modulo by POSITIVE CONSTANTS
            c = [d > 0]
            if isinstance(o, VRef):
                c.append(CLS(o.z) == CONST)
            return c
        return []

    def pre(self, st, a):
        out = eval_axioms() + [AX(f"division-axiom{i}", ax) for i, ax in enumerate(division_axioms())]
        out.append(A("self-is-an-expression", a["self"].z != 0))
        if "other" in a and isinstance(a["other"], VRef):
            out.append(A("other-is-an-expression", a["other"].z != 0))
        out += [A("positive-constant-divisor", c) for c in self.divisor_ok(a)]
        return out

    def expected(self, a):
        x = EVAL(a["self"].z)
        if self.method == "__neg__":
            return -x
        y = ev(a["other"])
        if self.method == "__sub__":
            return x - y
        return binval(self.kind, x, y)

    def post(self, old, st, a, res):
        return [C("value-preserved", EVAL(res.z) == self.expected(a)), A("result-is-an-expression", res.z != 0)]

    def post_exc(self, old, st, a, exc):
        if exc != "NotImplementedError":
            return None
        # only semi-affine products (neither factor a constant) are rejected; divisors are constants by precondition
        if self.kind == MUL:
            o = a["other"]
            return [C("rejected-only-semi-affine", z3.And(CLS(a["self"].z) != CONST, CLS(o.z) != CONST) if isinstance(o, VRef) else z3.BoolVal(False))]
        return [C("never-rejected-for-constant-divisors", z3.BoolVal(False))]

    # callee view
    def result_value(self, st, a):
        r = st.fresh_int("res")
        return VRef(r, "AffineExpr")

    def exc_cases(self, st, a):
        if self.kind == MUL and isinstance(a.get("other"), VRef):
            return [("NotImplementedError", z3.And(CLS(a["self"].z) != CONST, CLS(a["other"].z) != CONST))]
        return []

    def native_search(self, inst, seed):
        r = N26.explore("quick", seed)
        return r["failures"][0] if r["failures"] else None


class FoldSpec(Spec):
    """_try_fold_constant(self, other, kind): None unless both constants, else a constant of the folded value."""

    prop, file, qualname = PROP, AE, "AffineExpr._try_fold_constant"
    calls = COMMON_CALLS

    @property
    def globals(self):
        return hooks(self)

    def setup(self, st, inst):
        self.kind = inst["kind"]
        return {"self": VRef(st.declare_input("self", z3.Int("self")), "AffineExpr"), "other": VRef(st.declare_input("other", z3.Int("other")), "AffineExpr"),
                "kind": VInt(z3.IntVal(inst["kind"]))}

    def bind(self, st, a, inst):
        return kind_binds()

    def pre(self, st, a):
        out = eval_axioms() + [AX(f"division-axiom{i}", ax) for i, ax in enumerate(division_axioms())]
        out += [A("objects", z3.And(a["self"].z != 0, a["other"].z != 0))]
        if self.kind in (MOD, FLOORDIV, CEILDIV):
            out.append(A("nonzero-divisor", z3.Implies(z3.And(CLS(a["self"].z) == CONST, CLS(a["other"].z) == CONST), VALUE(a["other"].z) > 0)))
        return out

    def post(self, old, st, a, res):
        both = z3.And(CLS(a["self"].z) == CONST, CLS(a["other"].z) == CONST)
        if res is None:
            return [C("None-only-if-not-both-constant", z3.Not(both))]
        return [C("folds-only-constants", both), C("folded-value", z3.And(CLS(res.z) == CONST, EVAL(res.z) == binval(self.kind, EVAL(a["self"].z), EVAL(a["other"].z))))]

    # callee view
    RES = z3.Function("fold_result", I, I, I, I)

    def result_value(self, st, a):
        return VRef(FoldSpec.RES(a["self"].z, a["other"].z, z_int(a["kind"])), "AffineExpr")

    def post_callee(self, a, r):
        k = z_int(a["kind"])
        both = z3.And(CLS(a["self"].z) == CONST, CLS(a["other"].z) == CONST)
        return [A("fold-contract", z3.And((r == 0) == z3.Not(both), z3.Implies(r != 0, z3.And(CLS(r) == CONST, EVAL(r) == binval(k, EVAL(a["self"].z), EVAL(a["other"].z))))))]


class _FoldCallee(FoldSpec):
    def post(self, old, st, a, res):
        return self.post_callee(a, res.z)

    def pre(self, st, a):
        return []


class SimplifySpec(Spec):
    """_simplify_add / _simplify_mul: None, or an expression with the value of self (+|*) other."""

    prop, file = PROP, AE

    def __init__(self, method, kind):
        self.qualname = f"AffineExpr.{method}"
        self.kind = kind
        self.calls = dict(COMMON_CALLS)

    @property
    def globals(self):
        return hooks(self)

    def setup(self, st, inst):
        return {"self": VRef(st.declare_input("self", z3.Int("self")), "AffineExpr"), "other": VRef(st.declare_input("other", z3.Int("other")), "AffineExpr")}

    def bind(self, st, a, inst):
        return kind_binds()

    def pre(self, st, a):
        return eval_axioms() + [A("objects", z3.And(a["self"].z != 0, a["other"].z != 0))]

    def post(self, old, st, a, res):
        if res is None:
            return []
        return [C("value-preserved", EVAL(res.z) == binval(self.kind, EVAL(a["self"].z), EVAL(a["other"].z))), A("result-is-an-expression", res.z != 0)]

    RES = {ADD: z3.Function("simplify_add_result", I, I, I), MUL: z3.Function("simplify_mul_result", I, I, I)}

    def result_value(self, st, a):
        return VRef(SimplifySpec.RES[self.kind](a["self"].z, a["other"].z), "AffineExpr")


class _SimplifyCallee(SimplifySpec):
    def pre(self, st, a):
        return []

    def post(self, old, st, a, res):
        r = res.z
        return [A("simplify-contract", z3.Implies(r != 0, EVAL(r) == binval(self.kind, EVAL(a["self"].z), EVAL(a["other"].z))))]

    def exc_cases(self, st, a):
        return []


class EvalSpec(Spec):
    """AffineExpr.eval(dims, symbols) computes the spec value for the assignment given by dims/symbols."""

    prop, file, qualname = PROP, AE, "AffineExpr.eval"

    @property
    def globals(self):
        return hooks(self)

    def setup(self, st, inst):
        self.dims = VSeq(z3.Lambda([z3.Int("i")], DIMVAL(z3.Int("i"))), z3.Int("n_dims"), "int")
        self.syms = VSeq(z3.Lambda([z3.Int("i")], SYMVAL(z3.Int("i"))), z3.Int("n_syms"), "int")
        return {"self": VRef(st.declare_input("self", z3.Int("self")), "AffineExpr"), "dims": self.dims, "symbols": self.syms}

    def bind(self, st, a, inst):
        return kind_binds()

    def pre(self, st, a):
        e = z3.Int("ev!e")
        return eval_axioms() + [AX(f"division-axiom{i}", ax) for i, ax in enumerate(division_axioms())] + [
            A("self-is-an-expression", a["self"].z != 0),
            A("positions-in-range", forall([e], z3.And(z3.Implies(CLS(e) == DIM, z3.And(POSITION(e) >= 0, POSITION(e) < self.dims.n)),
                                                       z3.Implies(CLS(e) == SYM, z3.And(POSITION(e) >= 0, POSITION(e) < self.syms.n))))),
            A("divisors-positive", forall([e], z3.Implies(z3.And(CLS(e) == BIN, KIND(e) >= MOD), EVAL(RHS(e)) > 0)))]

    def post(self, old, st, a, res):
        return [C("eval-is-the-spec-value", z_int(res) == EVAL(a["self"].z))]

    def result_value(self, st, a):
        return VInt(EVAL(a["self"].z))


class _EvalCallee(EvalSpec):
    def pre(self, st, a):
        return []

    def post(self, old, st, a, res):
        return []


OPS: dict = {}
FOLD_CALLEE = _FoldCallee()
NATIVE = [("expression-trees", N26.explore)]


def make_specs(tier):
    specs = []

    def add(s, insts):
        s.instances = insts
        specs.append(s)

    both = [{"other": "expr"}, {"other": "int"}]
    ops = {"__add__": ADD, "__mul__": MUL, "__floordiv__": FLOORDIV, "ceil_div": CEILDIV, "__mod__": MOD, "__sub__": None, "__neg__": None}
    for m, k in ops.items():
        OPS[m] = OpSpec(m, k)
    for m, k in ops.items():
        s = OPS[m]
        s.calls.update({"self._try_fold_constant": FOLD_CALLEE, "self.rhs._try_fold_constant": FOLD_CALLEE,
                        "self._simplify_add": _SimplifyCallee("_simplify_add", ADD), "self._simplify_mul": _SimplifyCallee("_simplify_mul", MUL)})
        add(s, [{}] if m == "__neg__" else both)
    add(FoldSpec(), [{"kind": k} for k in KINDS.values()])
    for m, k in (("_simplify_add", ADD), ("_simplify_mul", MUL)):
        s = SimplifySpec(m, k)
        s.calls.update({"self._try_fold_constant": FOLD_CALLEE, "self.rhs._try_fold_constant": FOLD_CALLEE})
        add(s, [{}])
    ev_ = EvalSpec()
    ev_.calls = {"self.lhs.eval": _EvalCallee(), "self.rhs.eval": _EvalCallee()}
    add(ev_, [{}])
    return specs


ASSUMPTIONS = [
    "expression nodes are immutable (frozen dataclasses): their fields are modelled as functions of the reference; a constructor returns a node with the given fields",
    "one arbitrary fixed assignment (DIMVAL, SYMVAL): proving EVAL equalities for it proves them for every assignment",
    "nested operator calls are replaced by the callee's contract (partial correctness; the structural recursion is not re-proved)",
    "floor division by a symbolic divisor is uninterpreted with the floor-division axioms (validated natively by C15's axiom check)",
    "divisors of floordiv/ceildiv/mod are positive constants (the statement's precondition)",
    "SimpleAffineExprFlattener.simplify, compose/replace_dims_and_symbols with maps, AffineParser/__str__: bounded stand-in only; __rsub__ is outside the statement",
]

SPECS = make_specs(os.environ.get("VERIF_TIER", "quick"))
