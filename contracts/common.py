"""Shared specification vocabulary: MLIR integer semantics on bit patterns, in integer arithmetic."""

from __future__ import annotations

import z3

from pyvc.arith import FDIV, PYAND, PYOR, PYXOR, floordiv
from pyvc.values import Clause

I = z3.IntSort()


def bits(x, w: int):
    """Bit pattern of x at width w, as the unsigned number x mod 2^w."""
    return x % (1 << w) if w > 0 else z3.IntVal(0)


def sgn(x, w: int):
    """Two's-complement signed reading of the bit pattern of x at width w."""
    if w == 0:
        return z3.IntVal(0)
    h = 1 << (w - 1)
    return ((x + h) % (1 << w)) - h


def in_signless(x, w: int):
    return z3.And(x >= -((1 << w) >> 1), x < (1 << w))


def in_signed(x, w: int):
    return z3.And(x >= -((1 << w) >> 1), x < (1 << max(w - 1, 0)))


def in_unsigned(x, w: int):
    return z3.And(x >= 0, x < (1 << w))


def truncdiv(a, b):
    """C-style truncating division of mathematical integers, b != 0."""
    q = floordiv(z3.If(a >= 0, a, -a), z3.If(b >= 0, b, -b))
    return z3.If((a >= 0) == (b >= 0), q, -q)


def bitwise_axioms(w: int):
    """
    Facts of two's-complement arithmetic about Python's `& | ^` on unbounded ints, used as
    axioms (the operators are uninterpreted in the integer encoding): they commute with
    reduction mod 2^w and keep [0, 2^w).  Checked natively (exhaustive w <= 5, random above)
    by native_bitwise_axiom_check below on every run.
    """
    M = 1 << w
    x, y = z3.Ints("ax!x ax!y")
    out = []
    for f in (PYAND, PYOR, PYXOR):
        out.append(z3.ForAll([x, y], f(x, y) % M == f(x % M, y % M), patterns=[f(x, y)]))
        out.append(z3.ForAll([x, y], z3.Implies(z3.And(x >= 0, x < M, y >= 0, y < M),
                                                  z3.And(f(x, y) >= 0, f(x, y) < M)), patterns=[f(x, y)]))
    return out


def division_axioms():
    """
    Defining property of floor division by a positive symbolic divisor (FDIV is uninterpreted):
    d*q <= n < d*q + d, and the magnitude bounds that follow from it.  Mathematical facts;
    checked natively by native_division_axiom_check.
    """
    n, d = z3.Ints("ax!n ax!d")
    q = FDIV(n, d)
    return [
        z3.ForAll([n, d], z3.Implies(d > 0, z3.And(d * q <= n, n < d * q + d)), patterns=[q]),
        z3.ForAll([n, d], z3.Implies(z3.And(d > 0, n >= 0), z3.And(q >= 0, q <= n)), patterns=[q]),
        z3.ForAll([n, d], z3.Implies(z3.And(d > 0, n < 0), z3.And(q >= n, q < 0)), patterns=[q]),
        z3.ForAll([n, d], z3.Implies(z3.And(d > n, n >= 0), q == 0), patterns=[q]),
        z3.ForAll([n, d], z3.Implies(d == 1, q == n), patterns=[q]),
    ]


def native_division_axiom_check() -> int:
    c = 0
    for n in range(-40, 41):
        for d in range(1, 41):
            q = n // d
            assert d * q <= n < d * q + d
            assert (n < 0) or (0 <= q <= n)
            assert (n >= 0) or (n <= q < 0)
            assert not (d > n >= 0) or q == 0
            assert d != 1 or q == n
            c += 1
    return c


def native_bitwise_axiom_check(seed: int = 0) -> int:
    import random

    n = 0
    for w in range(0, 6):
        M = 1 << w
        for x in range(-M, 2 * M):
            for y in range(-M, 2 * M):
                for f in (lambda a, b: a & b, lambda a, b: a | b, lambda a, b: a ^ b):
                    assert f(x, y) % M == f(x % M, y % M)
                    n += 1
            # identities with the all-zero pattern used as axioms by C14 (both operand orders)
            assert (x & 0, 0 & x, x | 0, 0 | x, x ^ 0, 0 ^ x) == (0, 0, x, x, x, x)
    rnd = random.Random(seed)
    for _ in range(2000):
        w = rnd.choice([8, 16, 31, 32, 64, 128])
        M = 1 << w
        x, y = rnd.randrange(-M, 2 * M), rnd.randrange(-M, 2 * M)
        for f in (lambda a, b: a & b, lambda a, b: a | b, lambda a, b: a ^ b):
            assert f(x, y) % M == f(x % M, y % M)
            assert 0 <= f(x % M, y % M) < M
            n += 1
    return n


def C(name, z, tag="property"):
    if isinstance(z, bool):
        z = z3.BoolVal(z)
    return Clause(name, z, tag)


def A(name, z):
    return Clause(name, z if not isinstance(z, bool) else z3.BoolVal(z), "aux")


def forall(vs, body, patterns=None):
    """ForAll with trigger patterns; falls back to solver-chosen triggers if z3 rejects a pattern."""
    if patterns:
        try:
            return z3.ForAll(vs, body, patterns=patterns)
        except z3.Z3Exception:
            pass
    return z3.ForAll(vs, body)


def rechecked(fn):
    """Native check functions: on failure, record how to re-run the same check (for ./check --replay)."""
    import functools

    @functools.wraps(fn)
    def wrapper(*args):
        f = fn(*args)
        if isinstance(f, dict) and "recheck" not in f:
            f["recheck"] = {"kind": "fn", "module": fn.__module__, "function": fn.__name__, "args": list(args)}
        return f

    return wrapper


def AX(name, z):
    """World axiom / arithmetic lemma: assumed wherever the contract is used, never an obligation of a caller."""
    return Clause(name, z if not isinstance(z, bool) else z3.BoolVal(z), "axiom")
