"""
C24 — Dominance and post-order traversal match their graph definitions.

Statement (quoted): "a block A is reported to dominate a reachable block B exactly when every path
from the entry block to B passes through A (every block dominates itself; strict dominance
excludes equality), regardless of unreachable blocks elsewhere in the region.  Post-order
iteration from the entry yields every reachable block exactly once, no unreachable block, and the
entry block last."

Decided by an exhaustive bounded stand-in (all CFGs up to a bound) against the path definitions;
the table readers (dominates / strictly_dominates / _strictly_dominates_block) are under
discharged contracts.  The fixpoint computation of DominanceInfo.__init__ and the stack machine of
PostOrderIterator.__next__ are NOT proved (set-of-sets fixpoint / tuple stack: outside the subset).
"""

from __future__ import annotations

import os

import z3

from contracts import C24_native as N24
from contracts.common import A, C, forall
from pyvc.spec import Builtin, Inline, Spec
from pyvc.values import Clause, VBool, VInt, VRef, VTuple, Vocab

PROP = "C24"
DOM = "xdsl/irdl/dominance.py"
VOCAB = Vocab({"_dominance": "dict:ref:ref:set", "parent": "ref:Region"})


def table(st, me, a, b):
    d = st.sel("_dominance", me)
    return z3.And(st.dict_has(d, b), st.dict_has(st.dict_val(d, b), a))


class Reader(Spec):
    prop, file = PROP, DOM
    inline = {"self.dominates": Inline(DOM, "DominanceInfo.dominates")}

    def __init__(self, method):
        self.qualname = f"DominanceInfo.{method}"
        self.method = method

    def setup(self, st, inst):
        return {"self": VRef(st.declare_input("self", z3.Int("self")), "DominanceInfo"), "a": VRef(st.declare_input("a", z3.Int("a")), "Block"),
                "b": VRef(st.declare_input("b", z3.Int("b")), "Block")}

    def pre(self, st, a):
        # b is a block of the region the table was built for
        return [A("b-is-in-the-table", st.dict_has(st.sel("_dominance", a["self"].z), a["b"].z)), A("objects", z3.And(a["self"].z != 0, a["a"].z != 0, a["b"].z != 0))]

    def post(self, old, st, a, res):
        rz = res.z if isinstance(res, VBool) else z3.BoolVal(bool(res))
        t = table(old, a["self"].z, a["a"].z, a["b"].z)
        if self.method == "dominates":
            return [C("reads-the-dominator-set-of-b", rz == t)]
        return [C("strict-dominance-excludes-equality", rz == z3.And(a["a"].z != a["b"].z, t))]

    def native_search(self, inst, seed):
        r = N24.explore("quick", seed)
        return r["failures"][0] if r["failures"] else None


class StrictBlock(Spec):
    """_strictly_dominates_block: equality -> False; detached / different regions -> ValueError; else the table of a's region."""

    prop, file, qualname = PROP, DOM, "_strictly_dominates_block"
    SD = z3.Function("region_strictly_dominates", z3.IntSort(), z3.IntSort(), z3.IntSort(), z3.BoolSort())

    def b_info(ex, st, args, kw):  # noqa: N805
        from pyvc.engine import Res

        return [Res("val", VRef(args[0].z, "DominanceInfo"), st)]

    def b_sd(ex, st, args, kw):  # noqa: N805
        from pyvc.engine import Res

        return [Res("val", VBool(StrictBlock.SD(args[0].z, args[1].z, args[2].z)), st)]

    calls = {"DominanceInfo": Builtin(b_info, "DominanceInfo(region): identified with its region"),
             ".strictly_dominates": Builtin(b_sd, "contract of DominanceInfo.strictly_dominates")}

    def setup(self, st, inst):
        return {"a": VRef(st.declare_input("a", z3.Int("a")), "Block"), "b": VRef(st.declare_input("b", z3.Int("b")), "Block")}

    def pre(self, st, a):
        return [A("objects", z3.And(a["a"].z != 0, a["b"].z != 0))]

    def post(self, old, st, a, res):
        rz = res.z if isinstance(res, VBool) else z3.BoolVal(bool(res))
        x, y = a["a"].z, a["b"].z
        pa = old.sel("parent", x)
        return [C("equal-blocks-never-strictly-dominate", z3.Implies(x == y, z3.Not(rz))),
                C("otherwise-the-table-of-the-common-region", z3.Implies(x != y, z3.And(pa != 0, pa == old.sel("parent", y), rz == StrictBlock.SD(pa, x, y))))]

    def post_exc(self, old, st, a, exc):
        if exc != "ValueError":
            return None
        x, y = a["a"].z, a["b"].z
        return [C("ValueError-only-for-detached-or-different-regions", z3.And(x != y, z3.Or(old.sel("parent", x) == 0, old.sel("parent", x) != old.sel("parent", y))))]


NATIVE = [("all-small-cfgs", N24.explore)]


def make_specs(tier):
    s = [Reader("dominates"), Reader("strictly_dominates"), StrictBlock()]
    for x in s:
        x.instances = [{}]
    return s


ASSUMPTIONS = [
    "DominanceInfo.__init__ (iterative set-of-sets fixpoint) and PostOrderIterator.__next__ (tuple stack) are NOT under discharged contracts: the "
    "graph-level clauses are decided by the bounded stand-in only (exhaustive for <= 3 (quick) / 4 (thorough) blocks, random to 8 blocks)",
    "block successors are read from the last op of each block when it is a terminator",
]

SPECS = make_specs(os.environ.get("VERIF_TIER", "quick"))
