"""
C24 — Dominance and post-order traversal match their graph definitions.

Statement (quoted): "a block A is reported to dominate a reachable block B exactly when every path
from the entry block to B passes through A (every block dominates itself; strict dominance
excludes equality), regardless of unreachable blocks elsewhere in the region.  Post-order
iteration from the entry yields every reachable block exactly once, no unreachable block, and the
entry block last."

Post-order half: PostOrderIterator.__init__ / __next__ are under discharged contracts - an object invariant over the
pair stack and the seen set (stacked blocks are seen, each at most once, not yet yielded; seen = yielded or pending, with a ghost
position witness; expanded blocks have all successors seen; seen blocks are reachable; the start block stays at the bottom) gives:
each block is yielded at most once, only reachable blocks, StopIteration only when yielded = seen = a successor-closed set
containing the start block (hence exactly the reachable set), the start block last.  Termination is not proved.
Dominance half: the table readers (dominates / strictly_dominates / _strictly_dominates_block) are under discharged contracts, and so is
DominanceInfo.__init__: for regions of ANY size, when the fixpoint loop exits the table has exactly the region's blocks as keys, the entry block
is dominated only by itself and EVERY other block satisfies Dom(b) = {b} U (intersection of Dom(p) over its predecessors, or all blocks if it has
none) - the predecessor sets being proved to be exactly the edge relation read from the last ops.  That this solution is the GREATEST one (which
is what makes it the dominator relation: sets start full and only shrink) is not proved; the exhaustive bounded stand-in (all CFGs up to a bound)
compares the answers with the path definitions.
"""

from __future__ import annotations

import os

import z3

from contracts import C24_native as N24
from contracts.common import A, AX, C, forall
from pyvc.spec import Builtin, Inline, Spec
from pyvc.values import Clause, VBool, VInt, VRef, VTuple, Vocab

PROP = "C24"
DOM = "xdsl/irdl/dominance.py"
VOCAB = Vocab({"_dominance": "dict:ref:ref:set", "parent": "ref:Region", "stack": "list:pair:Block,bool", "seen": "set:ref:Block"})
PO = "xdsl/ir/post_order.py"


def table(st, me, a, b):
    d = st.sel("_dominance", me)
    return z3.And(st.dict_has(d, b), st.dict_has(st.dict_val(d, b), a))


class Reader(Spec):
    prop, file = PROP, DOM
    inline = {"self.dominates": Inline(DOM, "DominanceInfo.dominates")}

    def __init__(self, method):
        self.qualname = f"DominanceInfo.{method}"
        self.method = method

    def setup(self, st, inst):
        return {"self": VRef(st.declare_input("self", z3.Int("self")), "DominanceInfo"), "a": VRef(st.declare_input("a", z3.Int("a")), "Block"),
                "b": VRef(st.declare_input("b", z3.Int("b")), "Block")}

    def pre(self, st, a):
        # b is a block of the region the table was built for
        return [A("b-is-in-the-table", st.dict_has(st.sel("_dominance", a["self"].z), a["b"].z)), A("objects", z3.And(a["self"].z != 0, a["a"].z != 0, a["b"].z != 0))]

    def post(self, old, st, a, res):
        rz = res.z if isinstance(res, VBool) else z3.BoolVal(bool(res))
        t = table(old, a["self"].z, a["a"].z, a["b"].z)
        if self.method == "dominates":
            return [C("reads-the-dominator-set-of-b", rz == t)]
        return [C("strict-dominance-excludes-equality", rz == z3.And(a["a"].z != a["b"].z, t))]

    def native_search(self, inst, seed):
        r = N24.explore("quick", seed)
        return r["failures"][0] if r["failures"] else None


class StrictBlock(Spec):
    """_strictly_dominates_block: equality -> False; detached / different regions -> ValueError; else the table of a's region."""

    prop, file, qualname = PROP, DOM, "_strictly_dominates_block"
    SD = z3.Function("region_strictly_dominates", z3.IntSort(), z3.IntSort(), z3.IntSort(), z3.BoolSort())

    def b_info(ex, st, args, kw):  # noqa: N805
        from pyvc.engine import Res

        return [Res("val", VRef(args[0].z, "DominanceInfo"), st)]

    def b_sd(ex, st, args, kw):  # noqa: N805
        from pyvc.engine import Res

        return [Res("val", VBool(StrictBlock.SD(args[0].z, args[1].z, args[2].z)), st)]

    def b_preds(ex, st, args, kw):  # noqa: N805
        from pyvc.engine import Res
        from pyvc.values import VSeq

        # (only reached if the code starts looking at predecessors: nothing is known about them, so a shortcut based on them must be justified otherwise)
        b = st.env["b"].z if "b" in st.env else z3.IntVal(0)
        n = z3.Function("n_predecessors_of", z3.IntSort(), z3.IntSort())(b)
        st.assume(n >= 0)
        return [Res("val", VSeq(z3.Function("predecessors_of", z3.IntSort(), z3.ArraySort(z3.IntSort(), z3.IntSort()))(b), n, "ref", "Block"), st)]

    calls = {"DominanceInfo": Builtin(b_info, "DominanceInfo(region): identified with its region"),
             ".strictly_dominates": Builtin(b_sd, "contract of DominanceInfo.strictly_dominates"),
             ".predecessors": Builtin(b_preds, "Block.predecessors(): an uninterpreted sequence")}

    def setup(self, st, inst):
        return {"a": VRef(st.declare_input("a", z3.Int("a")), "Block"), "b": VRef(st.declare_input("b", z3.Int("b")), "Block")}

    def pre(self, st, a):
        return [A("objects", z3.And(a["a"].z != 0, a["b"].z != 0))]

    def post(self, old, st, a, res):
        rz = res.z if isinstance(res, VBool) else z3.BoolVal(bool(res))
        x, y = a["a"].z, a["b"].z
        pa = old.sel("parent", x)
        return [C("equal-blocks-never-strictly-dominate", z3.Implies(x == y, z3.Not(rz))),
                C("otherwise-the-table-of-the-common-region", z3.Implies(x != y, z3.And(pa != 0, pa == old.sel("parent", y), rz == StrictBlock.SD(pa, x, y))))]

    def post_exc(self, old, st, a, exc):
        if exc != "ValueError":
            return None
        x, y = a["a"].z, a["b"].z
        return [C("ValueError-only-for-detached-or-different-regions", z3.And(x != y, z3.Or(old.sel("parent", x) == 0, old.sel("parent", x) != old.sel("parent", y))))]



# =============================================================================== PostOrderIterator
from pyvc.values import FST, SND, TUP2, VSeq  # noqa: E402

I = z3.IntSort()
Bo = z3.BoolSort()
SUCC = z3.Function("successors_of", I, z3.ArraySort(I, I))  # block -> successor list of its terminator
NSUCC = z3.Function("n_successors_of", I, I)
HASTRAIT = z3.Function("last_op_is_registered_and_has_the_IsTerminator_trait", I, Bo)
UNREG = z3.Function("last_op_is_of_an_unregistered_dialect", I, Bo)


def ISTERM(b):
    """Graph definition of an edge source: the block's last op is a terminator - an op of an unregistered dialect counts as one (its successors are control flow)."""
    return z3.Or(HASTRAIT(b), UNREG(b))
REACH = z3.Function("reachable_from_the_start_block", I, Bo)
ENTRY = z3.Int("start_block")


def po_axioms():
    x, y, b, j = z3.Ints("pa!x pa!y pa!b pa!j")
    return [A("pairing", forall([x, y], z3.And(FST(TUP2(x, y)) == x, SND(TUP2(x, y)) == y), patterns=[TUP2(x, y)])),
            A("successor-counts", forall([b], NSUCC(b) >= 0)),
            A("successors-are-blocks", forall([b, j], z3.Implies(z3.And(j >= 0, j < NSUCC(b)), SUCC(b)[j] != 0), patterns=[SUCC(b)[j]])),
            A("reachability: the start block, and every successor (through a terminator) of a reachable block",
              z3.And(REACH(ENTRY), forall([b, j], z3.Implies(z3.And(REACH(b), ISTERM(b), j >= 0, j < NSUCC(b)), REACH(SUCC(b)[j])))))]


def po_inv(st, it, yielded, extra=None):
    """
    Object invariant of the iterator over the VIRTUAL stack = the stack list, plus the pair (block, visited) held in hand when `extra` is given.
    """
    S = st.sel("stack", it)
    n0 = st.list_len(S)
    seen = st.dict_dom(st.sel("seen", it))
    if extra is None:
        n = n0
        el = lambda i: st.list_el(S, i)
    else:
        n = n0 + 1
        el = lambda i: z3.If(i == n0, extra, st.list_el(S, i))
    i, j, b, k = z3.Ints("po!i po!j po!b po!k")
    on = lambda q: z3.And(q >= 0, q < n)
    idx = st.ghost["idx"]  # ghost witness: position of a pending block on the virtual stack
    return [
        A("objects", z3.And(it != 0, S != 0, st.sel("seen", it) != 0, n0 >= 0)),
        A("entries-are-pairs-of-a-block-and-a-flag", forall([i], z3.Implies(on(i), z3.And(el(i) == TUP2(FST(el(i)), SND(el(i))), z3.Or(SND(el(i)) == 0, SND(el(i)) == 1), FST(el(i)) != 0)))),
        A("stacked-blocks-are-seen", forall([i], z3.Implies(on(i), seen[FST(el(i))]))),
        A("a-block-is-on-the-stack-at-most-once", forall([i, j], z3.Implies(z3.And(on(i), on(j), i != j), FST(el(i)) != FST(el(j))))),
        A("stacked-blocks-have-not-been-yielded", forall([i], z3.Implies(on(i), z3.Not(yielded[FST(el(i))])))),
        A("yielded-blocks-are-seen", forall([b], z3.Implies(yielded[b], seen[b]))),
        A("a-seen-block-is-yielded-or-pending-on-the-stack", forall([b], z3.Implies(seen[b], z3.Or(yielded[b], z3.And(on(idx[b]), FST(el(idx[b])) == b))), patterns=[seen[b]])),
        A("expanded-blocks-have-all-successors-seen", forall([b, k], z3.Implies(z3.And(z3.Or(yielded[b], z3.Exists([i], z3.And(on(i), el(i) == TUP2(b, 1)))),
                                                                                      ISTERM(b), k >= 0, k < NSUCC(b)), seen[SUCC(b)[k]]))),
        A("seen-blocks-are-reachable", forall([b], z3.Implies(seen[b], REACH(b)))),
        A("the-start-block-stays-at-the-bottom-and-is-yielded-last", z3.And(z3.Implies(n > 0, FST(el(0)) == ENTRY), z3.Implies(yielded[ENTRY], n == 0))),
    ]


class PostOrder(Spec):
    """
    PostOrderIterator.__init__ establishes, and every __next__ preserves, the object invariant above; __next__ returns a block that has not
    been yielded before, and raises StopIteration exactly when nothing is pending - at which point (by the invariant) the yielded set is the
    seen set, closed under successors, contains the start block and only reachable blocks, i.e. it IS the reachable set, each block once,
    the start block last.  (The history argument - `yielded` collects the results - is the induction of modular verification.)
    """

    prop, file = PROP, PO
    modifies = ["list#len", "list#el", "dict#dom", "dict#val", "stack", "seen"]
    loop_ghosts = ["idx"]  # updated by the comprehension model inside the loop: havocked at the loop head like any written state

    def __init__(self, method):
        self.method = method
        self.qualname = f"PostOrderIterator.{method}"

        def b_fromkeys(ex, st, args, kw):
            from pyvc.engine import Res

            sq = args[0]
            # dict.fromkeys(seq): the distinct elements of seq (first occurrences, in order) - here: a duplicate-free sequence with the same elements
            d = VSeq(st.fresh("dedup", z3.ArraySort(I, I)), st.fresh_int("n_dedup"), "ref", "Block")
            i, j, x = z3.Ints("fk!i fk!j fk!x")
            st.assume(z3.And(d.n >= 0, d.n <= sq.n,
                             forall([i, j], z3.Implies(z3.And(i >= 0, j >= 0, i < d.n, j < d.n, i != j), d.arr[i] != d.arr[j])),
                             forall([i], z3.Implies(z3.And(i >= 0, i < d.n), z3.Exists([j], z3.And(j >= 0, j < sq.n, sq.arr[j] == d.arr[i])))),
                             forall([j], z3.Implies(z3.And(j >= 0, j < sq.n), z3.Exists([i], z3.And(i >= 0, i < d.n, d.arr[i] == sq.arr[j]))))))
            return [Res("val", d, st)]

        def b_has_trait(ex, st, args, kw):
            from pyvc.engine import Res

            b = st.env["block"].z
            v = kw.get("value_if_unregistered", True)
            vz = z3.BoolVal(v) if isinstance(v, bool) else v.z
            return [Res("val", VBool(z3.Or(HASTRAIT(b), z3.And(UNREG(b), vz))), st)]

        self.calls = {"dict.fromkeys": Builtin(b_fromkeys, "dict.fromkeys(seq): duplicate-free sequence with the same elements (TRUSTED model of CPython)"),
                      "IsTerminator": Builtin(lambda ex, st, a, k: [__import__("pyvc.engine", fromlist=["Res"]).Res("val", VRef(z3.IntVal(99), "trait"), st)], ""),
                      "term.has_trait": Builtin(b_has_trait, "Operation.has_trait(trait, value_if_unregistered=True): the trait of a registered op, the default for an unregistered one")}

    @property
    def globals(self):
        def getattr_(ex, st, base, attr):
            if attr == "last_op":
                return VRef(z3.If(z3.Or(ISTERM(base.z), st.fresh_bool("has-a-last-op")), z3.IntVal(7), z3.IntVal(0)), "Operation")  # only its terminator-ness and successors matter
            if attr == "successors":
                b = st.env["block"].z
                return VSeq(SUCC(b), NSUCC(b), "ref", "Block")
            return None

        def isinst(ex, st, v, cls):
            from pyvc.values import VGlobal, lift_bool

            if isinstance(cls, VGlobal) and cls.text == "Operation":
                return lift_bool(v.z != 0) if isinstance(v, VRef) else (v is not None)
            return None

        def expr(ex, st, text):
            it = st.env["self"].z
            seen = st.dict_dom(st.sel("seen", it))
            if text == "[x for x in dict.fromkeys(term.successors) if x not in self.seen]":
                b = st.env["block"].z
                u = VSeq(st.fresh("unseen", z3.ArraySort(I, I)), st.fresh_int("n_unseen"), "ref", "Block")
                i, j, x = z3.Ints("us!i us!j us!x")
                # the filtered, duplicate-free successor list: distinct elements; x is in it iff x is a successor of the block and not yet seen
                st.assume(z3.And(u.n >= 0,
                                 forall([i, j], z3.Implies(z3.And(i >= 0, j >= 0, i < u.n, j < u.n, i != j), u.arr[i] != u.arr[j])),
                                 forall([i], z3.Implies(z3.And(i >= 0, i < u.n), z3.And(z3.Not(seen[u.arr[i]]), z3.Exists([j], z3.And(j >= 0, j < NSUCC(b), SUCC(b)[j] == u.arr[i]))))),
                                 forall([j], z3.Implies(z3.And(j >= 0, j < NSUCC(b), z3.Not(seen[SUCC(b)[j]])), z3.Exists([i], z3.And(i >= 0, i < u.n, u.arr[i] == SUCC(b)[j]))))))
                # (definitional extension: a duplicate-free list has an inverse position function)
                upos = st.fresh("unseen_pos", z3.ArraySort(I, I))
                st.assume(forall([i], z3.Implies(z3.And(i >= 0, i < u.n), upos[u.arr[i]] == i)))
                st.ghost["_upos"] = upos
                return u
            if text == "((x, False) for x in reversed(unseen))":
                u = st.env["unseen"]
                j, x = z3.Ints("rv!j rv!x")
                upos = st.ghost["_upos"]
                base = st.list_len(st.sel("stack", it))
                in_u = lambda y: z3.And(upos[y] >= 0, upos[y] < u.n, u.arr[upos[y]] == y)
                # ghost witness for the new pending blocks: reversed(unseen)[j] goes to position base + j
                st.ghost["idx"] = z3.Lambda([x], z3.If(in_u(x), base + (u.n - 1 - upos[x]), st.ghost["idx"][x]))
                return VSeq(z3.Lambda([j], TUP2(u.arr[u.n - 1 - j], 0)), u.n, "pair", "Block,bool")
            return None

        return {"__getattr__": getattr_, "__isinstance__": isinst, "__expr__": expr, "dict": __import__("pyvc.values", fromlist=["VGlobal"]).VGlobal("dict")}

    def setup(self, st, inst):
        st.ghost["yielded"] = z3.Const("yielded0", z3.ArraySort(I, Bo))
        st.ghost["idx"] = z3.Const("idx0", z3.ArraySort(I, I))
        it = st.declare_input("self", z3.Int("self"))
        a = {"self": VRef(it, "PostOrderIterator")}
        if self.method == "__init__":
            a["block"] = VRef(ENTRY, "Block")
        return a

    def pre(self, st, a):
        it = a["self"].z
        if self.method == "__init__":
            return po_axioms() + [A("objects", z3.And(it != 0, ENTRY != 0))]
        return po_axioms() + po_inv(st, it, st.ghost["yielded"])

    def inv(self, n, entry, st, a, lv):
        it = a["self"].z
        env = lv["env"]
        blk, vis = env["block"].z, env["visited"].z
        return po_inv(st, it, st.ghost["yielded"], TUP2(blk, vis)) + [A("same-containers", z3.And(st.sel("stack", it) == entry.sel("stack", it), st.sel("seen", it) == entry.sel("seen", it))),
                                                                       A("flag", z3.Or(vis == 0, vis == 1))]

    def ghost_update(self, old, st, a, res):
        if self.method == "__next__" and res is not None:
            return {"yielded": z3.Store(old.ghost["yielded"], res.z, True)}
        if self.method == "__init__":
            # nothing yielded yet; witness: the start block sits at position 0
            return {"yielded": z3.K(I, z3.BoolVal(False)), "idx": z3.K(I, z3.IntVal(0))}
        return {}

    def post(self, old, st, a, res):
        it = a["self"].z
        if self.method == "__init__":
            return [Clause(c.name, c.z, "property") for c in po_inv(st, it, st.ghost["yielded"])] + [
                C("the-start-block-is-pending-and-seen", z3.And(st.list_len(st.sel("stack", it)) == 1, st.dict_dom(st.sel("seen", it))[ENTRY]))]
        y0, y1 = old.ghost["yielded"], st.ghost["yielded"]
        b = res.z
        return [Clause(c.name, c.z, "property") for c in po_inv(st, it, y1)] + [
            C("yields-a-block-that-was-not-yielded-before (each block at most once)", z3.Not(y0[b])),
            C("yields-a-reachable-block", REACH(b)),
            C("post-order: every successor of the yielded block has been seen (yielded earlier or an ancestor still pending)",
              forall([z3.Int("pq!k")], z3.Implies(z3.And(ISTERM(b), z3.Int("pq!k") >= 0, z3.Int("pq!k") < NSUCC(b)), st.dict_dom(st.sel("seen", it))[SUCC(b)[z3.Int("pq!k")]])))]

    def post_exc(self, old, st, a, exc):
        if exc != "StopIteration" or self.method != "__next__":
            return None
        it = a["self"].z
        x = z3.Int("pe!x")
        seen = old.dict_dom(old.sel("seen", it))
        y0 = old.ghost["yielded"]
        return [C("stops-only-when-nothing-is-pending", old.list_len(old.sel("stack", it)) == 0),
                C("at-the-end-every-seen-block-has-been-yielded", forall([x], seen[x] == y0[x])),
                C("at-the-end-the-yielded-set-is-closed-under-successors (with the start block inside: it contains every reachable block)",
                  forall([x, z3.Int("pe!k")], z3.Implies(z3.And(y0[x], ISTERM(x), z3.Int("pe!k") >= 0, z3.Int("pe!k") < NSUCC(x)), y0[SUCC(x)[z3.Int("pe!k")]])))]

    def native_search(self, inst, seed):
        r = N24.explore("quick", seed)
        return r["failures"][0] if r["failures"] else None


# =============================================================================== DominanceInfo.__init__ (the fixpoint)
I = z3.IntSort()
Bo = z3.BoolSort()
RBLOCKS, RNB = z3.Function("blocks_of_region", I, z3.ArraySort(I, I)), z3.Function("n_blocks_of_region", I, I)
LASTOP = z3.Function("last_op_of_block", I, I)  # 0: the block is empty
OSUCC, ONSUCC = z3.Function("successors_of_op", I, z3.ArraySort(I, I)), z3.Function("n_successors_of_op", I, I)
INR = z3.Function("is_block_of_region", I, I, Bo)
IDXR = z3.Function("index_of_block_in_region", I, I, I)
SUCCW = z3.Function("successor_index_witness", I, I, I)  # (p, b): a position of b among the successors of p's last op, when p -> b


def edge(p, b, upto=None):
    """p -> b: b is among the (first `upto`) successors of the last op of p.  SUCCW(p, b) is the LEAST position of b among them (axiom least_witness)."""
    w = SUCCW(p, b)
    n = ONSUCC(LASTOP(p))
    return z3.And(LASTOP(p) != 0, w >= 0, w < n, w < (n if upto is None else upto), OSUCC(LASTOP(p))[w] == b)


def least_witness():
    p, m = z3.Ints("lw!p lw!m")
    s_ = OSUCC(LASTOP(p))[m]
    return forall([p, m], z3.Implies(z3.And(LASTOP(p) != 0, m >= 0, m < ONSUCC(LASTOP(p))),
                                     z3.And(SUCCW(p, s_) >= 0, SUCCW(p, s_) <= m, OSUCC(LASTOP(p))[SUCCW(p, s_)] == s_)), patterns=[OSUCC(LASTOP(p))[m]])


class DomInit(Spec):
    """
    DominanceInfo.__init__(region): when the fixpoint loop exits, the table satisfies the dominance data-flow equations for EVERY block at once:
        Dom(entry) = {entry},   Dom(b) = {b} U (the intersection of Dom(p) over the predecessors p of b,  or all blocks if b has none)
    (the sweep that found no change left every set as it was, so each equation, checked when its block was visited, still holds at the end).
    That the solution reached is the GREATEST one (sets start full and only shrink) - which makes it the dominator relation - is not proved here:
    bounded stand-in.
    """

    prop, file, qualname = PROP, DOM, "DominanceInfo.__init__"
    modifies = ["dict#dom", "dict#val", "_dominance"]
    timeout_factor = 4
    loop_alloc = True  # objects created in one iteration of a cut loop are distinct from those created in other iterations

    INTER_TEXT = "set[Block].intersection(*(self._dominance[p] for p in pred[b]))"

    @property
    def globals(self):
        from pyvc.values import VSeq

        spec = self

        def ga(ex, st, base, attr):
            if attr == "blocks":
                return VSeq(RBLOCKS(base.z), RNB(base.z), "ref", "Block")
            if attr == "last_op" and base.cls == "Block":
                return VRef(LASTOP(base.z), "Operation")
            if attr == "successors" and base.cls == "Operation":
                return VSeq(OSUCC(base.z), ONSUCC(base.z), "ref", "Block")
            return None

        def expr(ex, st, text):
            if text != spec.INTER_TEXT:
                return None
            # the intersection of the current dominator sets of the predecessors of b: a new set, characterised pointwise
            b = st.env["b"].z
            table = st.sel("_dominance", st.env["self"].z)
            ps = st.dict_val(st.env["pred"].z, b)
            p_, x = z3.Ints("ie!p ie!x")
            ex.oblige(st, "call-pre", "every-predecessor-has-an-entry-in-the-table", forall([p_], z3.Implies(st.dict_has(ps, p_), st.dict_has(table, p_))), "aux")
            r = st.new_object("intersection")
            dom = st.fresh("inter_dom", z3.ArraySort(I, Bo))
            st.assume(forall([x], dom[x] == forall([p_], z3.Implies(st.dict_has(ps, p_), st.dict_has(st.dict_val(table, p_), x)))))
            st.dict_store(r, dom, z3.K(I, z3.IntVal(0)))
            return VRef(r, "set", ("set", "ref"))

        def set_of(ex, st, arg):
            # set(region.blocks): membership is `is a block of the region`
            if isinstance(arg, VSeq) and arg.arr.eq(RBLOCKS(spec._r)):
                x = z3.Int("so!x")
                return z3.Lambda([x], INR(spec._r, x))
            return None

        return {"__getattr__": ga, "__expr__": expr, "__expr_calls__": True, "__set_of__": set_of}

    def setup(self, st, inst):
        me = st.declare_input("self", z3.Int("self"))
        r = st.declare_input("region", z3.Int("region"))
        self._r = r
        return {"self": VRef(me, "DominanceInfo"), "region": VRef(r, "Region"), "_me": me, "_r": r}

    def pre(self, st, a):
        r = a["_r"]
        b, j, k, p = z3.Ints("dp!b dp!j dp!k dp!p")
        return [A("objects", z3.And(a["_me"] != 0, r != 0, RNB(r) >= 0)),
                A("blocks-of-the-region", z3.And(
                    forall([j], z3.Implies(z3.And(j >= 0, j < RNB(r)), z3.And(RBLOCKS(r)[j] != 0, INR(r, RBLOCKS(r)[j]), IDXR(r, RBLOCKS(r)[j]) == j)), patterns=[RBLOCKS(r)[j]]),
                    forall([b], z3.Implies(INR(r, b), z3.And(IDXR(r, b) >= 0, IDXR(r, b) < RNB(r), RBLOCKS(r)[IDXR(r, b)] == b)), patterns=[INR(r, b)]))),
                A("successors-of-a-block-of-the-region-are-blocks-of-the-region", forall([b, k], z3.Implies(
                    z3.And(INR(r, b), LASTOP(b) != 0, k >= 0, k < ONSUCC(LASTOP(b))), INR(r, OSUCC(LASTOP(b))[k])))),
                A("successor-lists-have-lengths", forall([p], ONSUCC(p) >= 0)),
                AX("successor_index_witness(p, b) is the least position of b among the successors of p (definition of the choice function)", least_witness())]

    # ---- vocabulary of the invariants
    @staticmethod
    def pset(st, pred, b):
        return st.dict_dom(st.dict_val(pred, b))

    def pred_is(self, st, pred, r, upto, inner=None):
        """pred[b] = { p among the first `upto` blocks (plus, for block #upto, its first `inner` successors) : p -> b }, for every block b of the region."""
        b, p = z3.Ints("pi!b pi!p")
        blk = lambda i: RBLOCKS(r)[i]
        full = z3.And(INR(r, p), IDXR(r, p) < upto, edge(p, b))
        part = z3.BoolVal(False) if inner is None else z3.And(p == blk(upto), edge(p, b, inner))
        return forall([b, p], z3.Implies(INR(r, b), self.pset(st, pred, b)[p] == z3.Or(full, part)))

    def pred_shape(self, st, pred, r, upto):
        """pred has a key for each of the first `upto` blocks; the value sets are distinct allocated objects, none of them the table or pred itself."""
        b, c = z3.Ints("ps!b ps!c")
        has = lambda x: z3.And(INR(r, x), IDXR(r, x) < upto)
        return z3.And(forall([b], z3.Implies(has(b), z3.And(st.dict_has(pred, b), st.dict_val(pred, b) != 0, st.alloc()[st.dict_val(pred, b)], st.dict_val(pred, b) != pred))),
                      forall([b, c], z3.Implies(z3.And(has(b), has(c), b != c), st.dict_val(pred, b) != st.dict_val(pred, c))),
                      forall([b], z3.Implies(st.dict_has(pred, b), has(b))))

    def table_shape(self, st, me, pred, r, upto):
        """The table has the entry block and the first `upto` other blocks as keys; value sets are allocated, pairwise distinct, distinct from pred's sets."""
        b, c = z3.Ints("ts!b ts!c")
        t = st.sel("_dominance", me)
        has = lambda x: z3.And(INR(r, x), IDXR(r, x) <= upto)
        return z3.And(t != 0, t != pred, forall([b], st.dict_has(t, b) == has(b)),
                      forall([b], z3.Implies(has(b), z3.And(st.dict_val(t, b) != 0, st.alloc()[st.dict_val(t, b)], st.dict_val(t, b) != t, st.dict_val(t, b) != pred))),
                      forall([b, c], z3.Implies(z3.And(has(b), INR(r, c)), st.dict_val(t, b) != st.dict_val(pred, c))))

    @staticmethod
    def doms(st, me, b):
        return st.dict_dom(st.dict_val(st.sel("_dominance", me), b))

    def equation(self, st, me, pred, r, b):
        """Dom(b) = {b} U (intersection over pred[b], or all blocks if pred[b] is empty) - in the CURRENT table."""
        x, p = z3.Ints("eq!x eq!p")
        ps = self.pset(st, pred, b)
        nonempty = z3.Exists([p], ps[p])
        rhs = z3.If(nonempty, forall([p], z3.Implies(ps[p], self.doms(st, me, p)[x])), INR(r, x))
        return forall([x], self.doms(st, me, b)[x] == z3.Or(x == b, rhs))

    def inv(self, n, entry, st, a, lv):
        me, r = a["_me"], a["_r"]
        env = lv["env"]
        pred = env["pred"].z
        k = lv.get("k")
        b, x = z3.Ints("iv!b iv!x")
        blk = lambda i: RBLOCKS(r)[i]
        n_all = RNB(r)
        t_ = st.sel("_dominance", me)
        frame = [A("self-table-object-unchanged", z3.And(t_ == entry.sel("_dominance", me), t_ != 0, st.alloc()[t_], t_ != pred, pred != 0, st.alloc()[pred],
                                                          forall([b], z3.Implies(st.dict_has(pred, b), st.dict_val(pred, b) != t_))))]
        if n == 0:
            # for b in region.blocks: pred[b] = set()
            return frame + [A("pred-has-an-empty-set-for-each-processed-block", z3.And(self.pred_shape(st, pred, r, k), forall([b, x], z3.Implies(
                z3.And(INR(r, b), IDXR(r, b) < k), z3.Not(self.pset(st, pred, b)[x]))))),
                            A("table-still-empty", forall([b], z3.Not(st.dict_has(st.sel("_dominance", me), b))))]
        if n == 1:
            # for b in region.blocks: if b.last_op is not None: for s in b.last_op.successors: pred[s].add(b)
            return frame + [A("pred-shape", self.pred_shape(st, pred, r, n_all)), A("pred-collects-the-edges-of-processed-blocks", self.pred_is(st, pred, r, k)),
                            A("table-still-empty", forall([b], z3.Not(st.dict_has(st.sel("_dominance", me), b))))]
        if n == 2:
            k1 = lv["outer"][1]
            return frame + [A("pred-shape", self.pred_shape(st, pred, r, n_all)), A("pred-collects-the-edges-so-far", self.pred_is(st, pred, r, k1, k)),
                            A("table-still-empty", forall([b], z3.Not(st.dict_has(st.sel("_dominance", me), b))))]
        pred_done = [A("pred-shape", self.pred_shape(st, pred, r, n_all)), A("pred-is-the-predecessor-relation", self.pred_is(st, pred, r, n_all)),
                     A("pred-unchanged", z3.And(*[z3.BoolVal(True)]))]
        entry_eq = A("entry-is-dominated-only-by-itself", forall([x], self.doms(st, me, blk(0))[x] == (x == blk(0))))
        if n == 3:
            # for b in blocks: self._dominance[b] = set(region.blocks)
            return frame + pred_done + [A("table-shape", self.table_shape(st, me, pred, r, k)), entry_eq]
        changed = env["changed"]
        ch = changed.z if isinstance(changed, VBool) else z3.BoolVal(bool(changed))
        all_eq = lambda s_, upto: forall([b], z3.Implies(z3.And(INR(r, b), IDXR(r, b) >= 1, IDXR(r, b) <= upto), self.equation(s_, me, pred, r, b)))
        shape = A("table-shape", self.table_shape(st, me, pred, r, n_all - 1))
        p_ = z3.Int("iv!p")
        preds_in_region = Clause("predecessors-are-blocks-of-the-region", forall([b, p_], z3.Implies(z3.And(INR(r, b), self.pset(st, pred, b)[p_]), INR(r, p_))), "lemma")
        if n == 4:
            # while changed: ...
            return frame + pred_done + [shape, entry_eq, preds_in_region,
                                        A("no-change-in-the-last-sweep-means-every-equation-holds", z3.Implies(z3.Not(ch), all_eq(st, n_all - 1)))]
        # n == 5: for b in blocks (one sweep); `entry` is the state at the start of the sweep.  While nothing has changed every set still has the content it
        # had at the start of the sweep, so the equations can be stated over that (fixed) content: visited blocks keep satisfying them for free.
        same_content = forall([b], z3.Implies(INR(r, b), self.doms(st, me, b) == self.doms(entry, me, b)))
        return frame + pred_done + [shape, entry_eq, preds_in_region,
                                    Clause("while-nothing-changed-every-set-has-the-content-it-had-at-the-start-of-the-sweep", z3.Implies(z3.Not(ch), same_content), "lemma"),
                                    A("while-nothing-changed-the-blocks-visited-in-this-sweep-satisfy-their-equation-over-that-content", z3.Implies(z3.Not(ch), all_eq(entry, k)))]

    def post(self, old, st, a, res):
        me, r = a["_me"], a["_r"]
        b, x = z3.Ints("po!b po!x")
        pred_rel = lambda p_, b_: z3.And(INR(r, p_), edge(p_, b_))
        p_ = z3.Int("po!p")
        y = z3.Int("po!y")
        has_pred = lambda b_: z3.Exists([p_], pred_rel(p_, b_))
        eq = lambda b_: forall([y], self.doms(st, me, b_)[y] == z3.Or(y == b_, z3.If(has_pred(b_), forall([p_], z3.Implies(pred_rel(p_, b_), self.doms(st, me, p_)[y])), INR(r, y))))
        t = st.sel("_dominance", me)
        return [C("the-table-has-exactly-the-blocks-of-the-region", z3.Implies(RNB(r) > 0, forall([b], st.dict_has(t, b) == INR(r, b)))),
                C("empty-region-empty-table", z3.Implies(RNB(r) == 0, forall([b], z3.Not(st.dict_has(t, b))))),
                C("the-entry-block-is-dominated-only-by-itself", z3.Implies(RNB(r) > 0, forall([y], self.doms(st, me, RBLOCKS(r)[0])[y] == (y == RBLOCKS(r)[0])))),
                C("every-other-block-satisfies-the-dominance-equation-at-exit", forall([b], z3.Implies(z3.And(INR(r, b), IDXR(r, b) >= 1), eq(b))))]

    def native_search(self, inst, seed):
        r = N24.explore("quick", seed)
        return r["failures"][0] if r["failures"] else None


NATIVE = [("all-small-cfgs", N24.explore)]


def make_specs(tier):
    s = [Reader("dominates"), Reader("strictly_dominates"), StrictBlock(), PostOrder("__init__"), PostOrder("__next__"), DomInit()]
    for x in s:
        x.instances = [{}]
    return s


ASSUMPTIONS = [
    "DominanceInfo.__init__ is under contract for the fixpoint EQUATIONS at exit (any number of blocks); that the iteration reaches the GREATEST solution (= dominators), and "
    "termination, are not proved: the dominance clauses as such are decided by the bounded stand-in (exhaustive for <= 3 (quick) / 4 (thorough) blocks, random to 8 blocks)",
    "in that unit: `set[Block].intersection(*(self._dominance[p] for p in pred[b]))` is a trusted model bound to its exact text (a new set characterised pointwise); "
    "successor_index_witness is a choice function (least position) axiomatised by its definition; objects created in different iterations of a cut loop are distinct "
    "(allocation map only grows)",
    "PostOrderIterator: dict.fromkeys, the filtered list comprehension and the reversed generator are TRUSTED models (duplicate-free list with the same elements / exactly the unseen successors / "
    "reversed pairs) bound to their exact source text; `yielded` is ghost history (the set of results of earlier __next__ calls); termination of __next__ is not proved",
    "block successors are read from the last op of each block when it is a terminator",
]

SPECS = make_specs(os.environ.get("VERIF_TIER", "quick"))
