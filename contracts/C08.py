"""
C08 — Attribute equality and hashing form a consistent value semantics.

Statement (quoted): "equal attributes have equal hashes, equality is reflexive, symmetric and
transitive, two attributes built from the same parameters ... are equal, and attributes whose
payloads differ observably (for example 0.0 and -0.0, or NaNs with different bit patterns) are
not equal."

Float payloads are modelled by their 64-bit pattern (a bit-vector); the float value seen by
arithmetic/comparisons is fpBVToFP(bits).  `struct.pack("<d", x)` returns the pattern.
"""

from __future__ import annotations

import os
import struct

import z3

from contracts.common import A, C, forall, rechecked
from pyvc.spec import Builtin, Inline, Spec
from pyvc.values import F64, Clause, VBool, VFloat, VGlobal, VInt, VRef, VTuple, Vocab, z_int

PROP = "C08"
BI = "xdsl/dialects/builtin.py"
CMP = "xdsl/utils/comparisons.py"
CSE = "xdsl/transforms/common_subexpression_elimination.py"
VOCAB = Vocab({})

HASH_BYTES = z3.Function("hash_of_bytes", z3.BitVecSort(64), z3.IntSort())
HASH_FLOAT = z3.Function("hash_of_float_value", z3.BitVecSort(64), z3.IntSort())  # CPython: function of the value for non-NaN
HASH_ID = z3.Function("hash_of_identity", z3.IntSort(), z3.IntSort())  # CPython >= 3.10: NaN hashes by object identity


class FloatBits:
    """Python-side table: FP term (by id) -> bit-vector it was made from."""

    def __init__(self):
        self.t = {}

    def mk(self, name, st):
        bv = st.declare_input(name, z3.BitVec(name, 64))
        f = VFloat(z3.fpBVToFP(bv, F64))
        self.t[f.z.get_id()] = bv
        return f, bv

    def bits(self, v):
        if isinstance(v, VFloat) and v.z.get_id() in self.t:
            return self.t[v.z.get_id()]
        raise Exception("struct.pack of a float that is not a tracked payload")


def b_pack(ex, st, args, kw):
    from pyvc.engine import Res
    from pyvc.values import Unsupported

    if args[0] != "<d":
        raise Unsupported("struct.pack format " + repr(args[0]))
    bv = ex.spec.fb.bits(args[1])
    return [Res("val", VInt(z3.BV2Int(bv)), st)]


def b_hash(ex, st, args, kw):
    """hash(): bytes -> function of the content; float -> function of the value, or of the identity for NaN."""
    from pyvc.engine import Res

    v = args[0]
    if isinstance(v, VInt):  # bytes from struct.pack (Int-coded bit pattern)
        return [Res("val", VInt(HASH_BYTES(z3.Int2BV(v.z, 64))), st)]
    if isinstance(v, VFloat):
        bv = ex.spec.fb.bits(v)
        ident = ex.spec.ident[bv.get_id()]
        # equal float values hash equal (0.0 and -0.0 included: CPython hashes both to 0)
        val_hash = z3.If(z3.fpIsZero(v.z), z3.IntVal(0), HASH_FLOAT(bv))
        return [Res("val", VInt(z3.If(z3.fpIsNaN(v.z), HASH_ID(ident), val_hash)), st)]
    from pyvc.values import Unsupported

    raise Unsupported("hash of " + repr(v))


class FloatDataEq(Spec):
    prop, file, qualname = PROP, BI, "FloatData.__eq__"
    calls = {"struct.pack": Builtin(b_pack, "struct.pack('<d', x) is the IEEE-754 binary64 bit pattern of x"), "hash": Builtin(b_hash)}

    def setup(self, st, inst):
        self.fb = FloatBits()
        self.a, self.abits = self.fb.mk("a_bits", st)
        self.b, self.bbits = self.fb.mk("b_bits", st)
        self.ident = {self.abits.get_id(): z3.Int("id_a"), self.bbits.get_id(): z3.Int("id_b")}
        return {"self": VRef(z3.IntVal(1), "FloatData"), "other": VRef(z3.IntVal(2), "FloatData")}

    def bind(self, st, a, inst):
        return {"self.data": self.a, "other.data": self.b, "isinstance(other, FloatData)": inst["same_class"]}

    def post(self, old, st, a, res):
        rz = res.z if isinstance(res, VBool) else z3.BoolVal(bool(res))
        if not self.inst_same:
            return [C("other-class-never-equal", z3.Not(rz))]
        return [C("equal-exactly-when-bit-patterns-equal", rz == (self.abits == self.bbits))]

    def replay(self, inst, m):
        return N_float_eq(m["a_bits"], m["b_bits"])


def _setup_wrap(cls):
    orig = cls.setup

    def setup(self, st, inst):
        self.inst_same = inst.get("same_class", True)
        return orig(self, st, inst)

    cls.setup = setup


_setup_wrap(FloatDataEq)


class FloatDataHash(Spec):
    prop, file, qualname = PROP, BI, "FloatData.__hash__"
    calls = FloatDataEq.calls

    def setup(self, st, inst):
        self.fb = FloatBits()
        self.a, self.abits = self.fb.mk("a_bits", st)
        self.ident = {self.abits.get_id(): z3.Int("id_a")}
        return {"self": VRef(z3.IntVal(1), "FloatData")}

    def bind(self, st, a, inst):
        return {"self.data": self.a}

    def post(self, old, st, a, res):
        # hash is a function of the bit pattern alone: with eq <=> same bits, equal attributes have equal hashes
        x = z3.BitVec("hx", 64)
        H = z3.Function("float_data_hash_spec", z3.BitVecSort(64), z3.IntSort())
        return [C("hash-depends-only-on-bit-pattern", z3.Exists([x], z3.BoolVal(True)) if False else self._dep(res))]

    def _dep(self, res):
        # the symbolic result must not mention the object identity, only a function of the bits:
        # instantiate twice with different identities and the same bits
        r1 = z_int(res)
        r2 = z3.substitute(r1, (z3.Int("id_a"), z3.Int("id_a2")))
        return r1 == r2

    def replay(self, inst, m):
        return N_float_eq(m["a_bits"], m["a_bits"])


@rechecked
def N_float_eq(abits, bbits):
    from xdsl.dialects.builtin import FloatAttr, FloatData, f64

    x = struct.unpack("<d", struct.pack("<Q", abits))[0]
    # build the second payload as a distinct object with the requested pattern
    y = struct.unpack("<d", struct.pack("<Q", bbits))[0]
    fa, fb = FloatData(x), FloatData(y)
    eq = fa == fb
    exp = abits == bbits
    # Python floats canonicalise nothing: the pattern survives struct round trips
    if eq != exp:
        return {"a_bits": hex(abits), "b_bits": hex(bbits), "a": repr(x), "b": repr(y), "FloatData.__eq__": eq, "expected": exp}
    if eq and hash(fa) != hash(fb):
        return {"a_bits": hex(abits), "b_bits": hex(bbits), "equal but hashes differ": (hash(fa), hash(fb))}
    A_, B_ = FloatAttr(x, f64), FloatAttr(y, f64)
    if (A_ == B_) != exp or (A_ == B_ and hash(A_) != hash(B_)):
        return {"a_bits": hex(abits), "b_bits": hex(bbits), "FloatAttr ==": A_ == B_, "expected": exp, "hashes": (hash(A_), hash(B_))}
    return None


# ------------------------------------------------------------------ IntegerType.normalized_value
HELPERS = {
    "signed_upper_bound": Inline(CMP, "signed_upper_bound"),
    "unsigned_upper_bound": Inline(CMP, "unsigned_upper_bound"),
    "signed_lower_bound": Inline(CMP, "signed_lower_bound"),
    "signless_value_range": Inline(CMP, "signless_value_range"),
    "signed_value_range": Inline(CMP, "signed_value_range"),
    "unsigned_value_range": Inline(CMP, "unsigned_value_range"),
    "self.value_range": Inline(BI, "IntegerType.value_range"),
    "self.signedness.data.value_range": Inline(BI, "Signedness.value_range", pass_receiver=True),
}


class NormalizedValue(Spec):
    """Same parameters -> same stored value (a function), different bit patterns -> different stored values."""

    prop, file, qualname = PROP, BI, "IntegerType.normalized_value"
    inline = HELPERS
    bind_in_inlined = True  # every inlined helper is a method of the same IntegerType object

    def setup(self, st, inst):
        v = st.declare_input("value", z3.Int("value"))
        return {"self": VRef(z3.IntVal(1), "IntegerType"), "value": VInt(v), "truncate_bits": inst["trunc"], "_w": inst["w"], "_s": inst["sign"], "_v": v}

    def bind(self, st, a, inst):
        return {"self.bitwidth": inst["w"], "self.width.data": inst["w"], "self.signedness.data": VGlobal("Signedness." + inst["sign"]),
                "Signedness.UNSIGNED": VGlobal("Signedness.UNSIGNED"),
                "self.signedness.data != Signedness.UNSIGNED": inst["sign"] != "UNSIGNED"}

    def post(self, old, st, a, res):
        w, sgn_, v = a["_w"], a["_s"], a["_v"]
        M = 1 << w
        lo, hi = {"SIGNLESS": (-(M >> 1), M), "SIGNED": (-(M >> 1), 1 << max(w - 1, 0)), "UNSIGNED": (0, M)}[sgn_]
        in_range = z3.And(v >= lo, v < hi)
        clo, chi = (0, M) if sgn_ == "UNSIGNED" else (-(M >> 1), 1 << max(w - 1, 0))
        if res is None:
            return [C("None-only-out-of-range-without-truncation", z3.And(z3.Not(in_range), z3.BoolVal(not a["truncate_bits"])))]
        r = z_int(res)
        out = [C("kept-or-truncated", z3.Or(in_range, z3.BoolVal(bool(a["truncate_bits"])))),
               C("same-bit-pattern", (r - v) % M == 0 if w > 0 else r == r),
               C("canonical-representative", z3.And(r >= clo, r < chi))]
        return out

    def replay(self, inst, m):
        return N_norm(inst["w"], inst["sign"], inst["trunc"], m["value"])


@rechecked
def N_norm(w, sign, trunc, v):
    from xdsl.dialects.builtin import IntegerAttr, IntegerType, Signedness

    t = IntegerType(w, getattr(Signedness, sign))
    r = t.normalized_value(v, truncate_bits=trunc)
    M = 1 << w
    lo, hi = {"SIGNLESS": (-(M >> 1), M), "SIGNED": (-(M >> 1), 1 << max(w - 1, 0)), "UNSIGNED": (0, M)}[sign]
    clo, chi = (0, M) if sign == "UNSIGNED" else (-(M >> 1), 1 << max(w - 1, 0))
    if r is None:
        if lo <= v < hi or trunc:
            return {"type": str(t), "value": v, "truncate_bits": trunc, "normalized_value": None}
        return None
    if (r - v) % M or not clo <= r < chi or not (lo <= v < hi or trunc):
        return {"type": str(t), "value": v, "truncate_bits": trunc, "normalized_value": r}
    # two attributes built from representatives of one bit pattern are equal, from different patterns differ
    if lo <= v < hi and lo <= v + M < hi:
        if IntegerAttr(v, t) != IntegerAttr(v + M, t) or hash(IntegerAttr(v, t)) != hash(IntegerAttr(v + M, t)):
            return {"type": str(t), "values": (v, v + M), "why": "same bit pattern, unequal attributes"}
    return None


# ------------------------------------------------------------------ IntegerAttr.__init__
NORMF = z3.Function("normalized_value_result", z3.IntSort(), z3.IntSort())  # what value_type.normalized_value(v, truncate_bits=t) returns when not None
NORM_NONE = z3.Function("normalized_value_is_None", z3.IntSort(), z3.BoolSort())


class IntegerAttrInit(Spec):
    """
    IntegerAttr.__init__(value, value_type, truncate_bits): WHATEVER form the arguments take (int or IntAttr value; int width, IntegerType or
    IndexType), the stored payload is an IntAttr holding normalized_value(v) for integer types (v itself when that is None, or for index) -
    so equal parameters give equal attributes.  IntegerType.normalized_value is used through its discharged contract (unit NormalizedValue).
    """

    prop, file, qualname = PROP, BI, "IntegerAttr.__init__"

    def __init__(self):
        from pyvc.engine import Res

        spec = self

        def b_norm(ex, st, args, kw):
            v = z_int(args[0])
            ex.note_contract(spec._norm)
            out = []
            for none, bs in ex.split(st, NORM_NONE(v)):
                out.append(Res("val", None if none else VInt(NORMF(v)), bs))
            return out

        def b_int_attr(ex, st, args, kw):
            r = st.new_object("int_attr")
            st.assume(IA_DATA(r) == z_int(args[0]))
            return [Res("val", VRef(r, "IntAttr"), st)]

        def b_super_init(ex, st, args, kw):
            payload, ty = args[0], args[1]
            v = spec._v
            want = v if spec.inst["type"] == "IndexType" else z3.If(NORM_NONE(v), v, NORMF(v))
            is_attr = isinstance(payload, VRef) and payload.cls == "IntAttr"
            ex.oblige(st, "call-pre", "super().__init__:the-payload-is-an-IntAttr", z3.BoolVal(is_attr), "property")
            if is_attr:
                ex.oblige(st, "call-pre", "super().__init__:the-stored-value-is-the-normalised-value-whatever-the-argument-form", IA_DATA(payload.z) == want, "property")
            ex.oblige(st, "call-pre", "super().__init__:the-type-parameter-is-a-type-object", z3.BoolVal(isinstance(ty, VRef) and ty.cls in ("IntegerType", "IndexType")), "property")
            st.ghost["stored"] = z3.BoolVal(True)
            return [Res("val", None, st)]

        b_super_init.ghost_modifies = ["stored"]
        self._norm = NormalizedValue()
        self.calls = {"value_type.normalized_value": Builtin(b_norm, "contract of IntegerType.normalized_value (unit NormalizedValue): None or the canonical representative"),
                      "IntAttr": Builtin(b_int_attr, "IntAttr(v): a Data attribute holding v"),
                      "IntegerType": Builtin(lambda ex, st, a, k: [Res("val", VRef(st.new_object("int_type"), "IntegerType"), st)], "IntegerType(width)"),
                      "super().__init__": Builtin(b_super_init, "ParametrizedAttribute.__init__(payload, type): stores the two parameters")}

    @property
    def globals(self):
        spec = self

        def isinst(ex, st, v, cls):
            name = cls.text if isinstance(cls, VGlobal) else str(cls)
            if name == "int":
                return isinstance(v, (int, VInt)) and not isinstance(v, bool)
            if name == "IndexType":
                return isinstance(v, VRef) and v.cls == "IndexType"
            return None

        def getattr_(ex, st, base, attr):
            if base.cls == "IntAttr" and attr == "data":
                return VInt(IA_DATA(base.z))
            return None

        return {"__isinstance__": isinst, "__getattr__": getattr_, "int": VGlobal("int"), "IndexType": VGlobal("IndexType")}

    def setup(self, st, inst):
        self.inst = inst
        v = st.declare_input("value", z3.Int("value"))
        self._v = v
        st.ghost["stored"] = z3.BoolVal(False)
        if inst["value"] == "int":
            val = VInt(v)
        else:
            val = VRef(z3.IntVal(7), "IntAttr")
            st.assume(IA_DATA(z3.IntVal(7)) == v)
        ty = {"int": 8, "IntegerType": VRef(z3.IntVal(8), "IntegerType"), "IndexType": VRef(z3.IntVal(9), "IndexType")}[inst["type"]]
        return {"self": VRef(z3.IntVal(1), "IntegerAttr"), "value": val, "value_type": ty, "truncate_bits": inst["trunc"]}

    def pre(self, st, a):
        return []

    def post(self, old, st, a, res):
        return [C("the-parameters-are-stored", st.ghost["stored"])]

    def replay(self, inst, m):
        # normalized_value is uninterpreted in this unit, so the model's value need not be one the real function changes: boundary values are tried too
        for v in (m.get("value", 0), 255, 128, -129, 2**31, 2**63, 2**64):
            f = N_int_attr_forms(v)
            if f is not None:
                return f
        return None


IA_DATA = z3.Function("int_attr_data", z3.IntSort(), z3.IntSort())


@rechecked
def N_int_attr_forms(v):
    """Every argument form of IntegerAttr(...) for one value gives the same attribute (payload, equality, hash)."""
    from xdsl.dialects.builtin import IndexType, IntAttr, IntegerAttr, IntegerType, Signedness

    for w in (1, 8, 32, 64):
        for sign in (Signedness.SIGNLESS, Signedness.SIGNED, Signedness.UNSIGNED):
            t = IntegerType(w, sign)
            for trunc in (False, True):
                forms = []
                for mk in (lambda: IntegerAttr(v, t, truncate_bits=trunc), lambda: IntegerAttr(IntAttr(v), t, truncate_bits=trunc)):
                    try:
                        forms.append(mk())
                    except Exception as e:  # noqa: BLE001
                        forms.append(type(e).__name__)
                if sign == Signedness.SIGNLESS:
                    try:
                        forms.append(IntegerAttr(v, w, truncate_bits=trunc))
                    except Exception as e:  # noqa: BLE001
                        forms.append(type(e).__name__)
                a0 = forms[0]
                for f in forms[1:]:
                    same = (isinstance(a0, str) and a0 == f) or (not isinstance(a0, str) and not isinstance(f, str) and a0 == f and hash(a0) == hash(f) and a0.value.data == f.value.data)
                    if not same:
                        return {"value": v, "type": str(t), "truncate_bits": trunc, "forms": [str(x) for x in forms], "why": "argument forms of the same parameters give different attributes"}
    a, b = IntegerAttr(v, IndexType()), IntegerAttr(IntAttr(v), IndexType())
    if a != b or hash(a) != hash(b):
        return {"value": v, "type": "index", "why": "int and IntAttr forms differ"}
    return None


# ------------------------------------------------------------------ OperationInfo (CSE key)
class OpInfoEq(Spec):
    """OperationInfo.__eq__: equal keys have equal hashes (the hash comparison is a conjunct)."""

    prop, file, qualname = PROP, CSE, "OperationInfo.__eq__"
    H = z3.Function("opinfo_hash", z3.IntSort(), z3.IntSort())

    def setup(self, st, inst):
        return {"self": VRef(z3.Int("self"), "OperationInfo"), "other": VRef(z3.Int("other"), "OperationInfo")}

    def bind(self, st, a, inst):
        flags = {k: VBool(z3.Bool(k)) for k in ("same_name", "same_attributes", "same_properties", "same_operands", "same_result_types", "regions_equivalent")}
        self.flags = flags
        return {"isinstance(other, OperationInfo)": True,
                "hash(self)": VInt(OpInfoEq.H(a["self"].z)), "hash(other)": VInt(OpInfoEq.H(a["other"].z)),
                "self.name == other.name": flags["same_name"], "self.op.attributes == other.op.attributes": flags["same_attributes"],
                "self.op.properties == other.op.properties": flags["same_properties"], "self.op.operands == other.op.operands": flags["same_operands"],
                "self.op.result_types == other.op.result_types": flags["same_result_types"],
                "all((s.is_structurally_equivalent(o) for s, o in zip(self.op.regions, other.op.regions, strict=True)))": flags["regions_equivalent"]}

    def post(self, old, st, a, res):
        rz = res.z if isinstance(res, VBool) else z3.BoolVal(bool(res))
        f = self.flags
        return [C("equal-keys-have-equal-hashes", z3.Implies(rz, OpInfoEq.H(a["self"].z) == OpInfoEq.H(a["other"].z))),
                C("equal-only-if-every-component-agrees", z3.Implies(rz, z3.And(*[v.z for v in f.values()]))),
                C("reflexive-on-components", z3.Implies(z3.And(OpInfoEq.H(a["self"].z) == OpInfoEq.H(a["other"].z), *[v.z for v in f.values()]), rz))]


# ------------------------------------------------------------------ bounded stand-ins and scan
def _native_floats(tier, seed):
    import random

    rnd = random.Random(seed)
    pats = [0x0, 0x8000000000000000, 0x7FF0000000000000, 0xFFF0000000000000, 0x7FF8000000000000, 0x7FF8000000000001, 0xFFF8000000000000,
            0x7FF0000000000001, 0x3FF0000000000000, 0xBFF0000000000000, 0x1, 0x8000000000000001, 0x7FEFFFFFFFFFFFFF, 0x3FB999999999999A]
    pats += [rnd.getrandbits(64) for _ in range(20 if tier == "quick" else 200)]
    cases = 0
    for x in pats:
        for y in pats:
            cases += 1
            f = N_float_eq(x, y)
            if f:
                return {"cases": cases, "failures": [dict(f, key="C08/float-eq-hash")], "exhaustive": False, "bound": ""}
    return {"cases": cases, "failures": [], "exhaustive": False,
            "bound": f"FloatData/FloatAttr eq+hash on all pairs of {len(pats)} bit patterns (zeros, infinities, quiet/signalling NaNs with payloads, subnormals, random)"}


def _native_attr_values(tier, seed):
    """Generated builtin attribute values: eq reflexive/symmetric/transitive on a pool, eq => hash equal, rebuilt copies equal."""
    import itertools

    from xdsl.dialects.builtin import (ArrayAttr, DenseArrayBase, DictionaryAttr, FloatAttr, IntAttr, IntegerAttr, IntegerType, StringAttr,
                                       SymbolRefAttr, UnregisteredAttr, f32, f64, i1, i8, i32)

    def pool():
        xs = [IntegerAttr(0, i32), IntegerAttr(-1, i8), IntegerAttr(255, i8), IntegerAttr(1, i1), IntegerAttr(-1, i1), IntegerAttr(0, i8),
              FloatAttr(0.0, f32), FloatAttr(-0.0, f32), FloatAttr(0.0, f64), FloatAttr(float("nan"), f64), FloatAttr(1.5, f32),
              StringAttr("a"), StringAttr(""), IntAttr(0), ArrayAttr([IntAttr(0)]), ArrayAttr([]), DictionaryAttr({"a": IntAttr(0)}),
              SymbolRefAttr("a"), SymbolRefAttr("a", ["b"]), DenseArrayBase.from_list(i32, [1, 2]), DenseArrayBase.from_list(i32, [1, 2, 3]),
              IntegerType(8), IntegerType(8, __import__("xdsl.dialects.builtin", fromlist=["Signedness"]).Signedness.SIGNED),
              UnregisteredAttr.with_name_and_type("x.y", False, False)("v") if False else StringAttr("z")]
        return xs

    a, b, c = pool(), pool(), pool()
    cases = 0
    # "two attributes built from the same parameters are equal": the same parameters handed over in each form the constructor accepts
    from xdsl.dialects.builtin import FusedLoc, NoneAttr, TupleType, UnknownLoc

    # "... or parsed from the same text in different contexts are equal"
    from xdsl.context import Context
    from xdsl.dialects.builtin import Builtin
    from xdsl.parser import Parser

    def parse_fresh(text):
        c = Context(allow_unregistered=True)
        c.load_dialect(Builtin)
        return Parser(c, text).parse_attribute()

    for text in ("#foo.bar<1>", "!foo.ty<i32>", "#foo.bar", "[#a.b<x>, 1 : i32]", "{k = !q.t}", "i32", '"s"', "dense<[1, 2]> : tensor<2xi8>", "1.5 : f32"):
        cases += 1
        x, y = parse_fresh(text), parse_fresh(text)
        if not (x == y and hash(x) == hash(y)):
            return {"cases": cases, "failures": [{"key": "C08/same-text-different-contexts", "text": text, "what": "parsed twice in fresh contexts: not equal / different hashes"}],
                    "exhaustive": True, "bound": ""}
    for name, x, y in (("TupleType(list) vs TupleType(ArrayAttr)", TupleType([i32, f32]), TupleType(ArrayAttr([i32, f32]))),
                       ("TupleType(tuple) vs TupleType(list)", TupleType((i8,)), TupleType([i8])),
                       ("FusedLoc(list) vs FusedLoc(ArrayAttr)", FusedLoc([UnknownLoc()], NoneAttr()), FusedLoc(ArrayAttr([UnknownLoc()]), NoneAttr()))):
        cases += 1
        try:
            ok = x == y and hash(x) == hash(y)
        except TypeError as e:
            return {"cases": cases, "failures": [{"key": "C08/same-parameters", "pair": name, "what": f"unhashable: {e}"}], "exhaustive": True, "bound": ""}
        if not ok:
            return {"cases": cases, "failures": [{"key": "C08/same-parameters", "pair": name, "x": str(x), "y": str(y), "what": "built from the same parameters but not equal / different hashes"}],
                    "exhaustive": True, "bound": ""}
    for i, x in enumerate(a):
        for j, y in enumerate(b):
            cases += 1
            e = x == y
            if e != (y == x):
                return {"cases": cases, "failures": [{"key": "C08/symmetry", "x": str(x), "y": str(y)}], "exhaustive": True, "bound": ""}
            if e and hash(x) != hash(y):
                return {"cases": cases, "failures": [{"key": "C08/eq-hash", "x": str(x), "y": str(y)}], "exhaustive": True, "bound": ""}
            if i == j and not e:
                return {"cases": cases, "failures": [{"key": "C08/rebuilt-equal", "x": str(x), "y": str(y)}], "exhaustive": True, "bound": ""}
            for z in c:
                if e and (y == z) and not (x == z):
                    return {"cases": cases, "failures": [{"key": "C08/transitive", "x": str(x), "y": str(y), "z": str(z)}], "exhaustive": True, "bound": ""}
    # dense attributes over EVERY packable element type of the dialect (found by introspection): built twice from a list and once from the bytes of the
    # first - equal, hashable, equal hashes, and an immutable payload (a bytes object, not a buffer a caller could write to)
    import inspect

    from xdsl.dialects import builtin as _B

    elt_types = [c() for _n, c in sorted(vars(_B).items()) if inspect.isclass(c) and issubclass(c, _B._FloatType) and issubclass(c, _B.ParametrizedAttribute) and not inspect.isabstract(c)]
    elt_types += [i1, i8, i32, _B.i64, _B.IndexType()]
    for et in elt_types:
        for vals in ([0, 1, 1], [1, 1, 1], []):
            vals = [float(v) if isinstance(et, _B._FloatType) else v for v in vals]
            built = []
            for mk in (lambda: DenseArrayBase.from_list(et, vals), lambda: DenseArrayBase.from_list(et, list(vals)),
                       lambda: _B.DenseIntOrFPElementsAttr.from_list(_B.TensorType(et, [len(vals)]), vals), lambda: _B.DenseIntOrFPElementsAttr.from_list(_B.TensorType(et, [len(vals)]), list(vals))):
                try:
                    built.append(mk())
                except Exception:  # noqa: BLE001
                    built.append(None)  # element type without a packing (f80, f128), not allowed in this attribute (index in a dense array) or unable to hold the value: not an instance
            for x, y in ((built[0], built[1]), (built[2], built[3])):
                if x is None or y is None:
                    continue
                cases += 1
                z = type(x)(*[(_B.BytesAttr(bytes(p.data)) if isinstance(p, _B.BytesAttr) else p) for p in x.parameters])
                try:
                    ok = x == y == z and hash(x) == hash(y) == hash(z)
                    payload_ok = all(type(p.data) is bytes for p in x.parameters if isinstance(p, _B.BytesAttr))
                except TypeError as e:
                    ok, payload_ok = False, str(e)
                if not ok or payload_ok is not True:
                    return {"cases": cases, "failures": [{"key": "C08/same-parameters", "attribute": str(x)[:120], "element type": str(et), "what": "dense attributes built from the same "
                            f"parameters are not equal / hashable with equal hashes, or the payload is not an immutable bytes object ({payload_ok})"}], "exhaustive": True, "bound": ""}
    # StridedLayoutAttr: every accepted argument form of the same strides / offset (ints, IntAttr / NoneAttr, a list or an ArrayAttr of them) gives the same attribute
    from xdsl.dialects.builtin import NoneAttr, StridedLayoutAttr

    wrap = lambda v: NoneAttr() if v is None else IntAttr(v)
    for strides in ([0, 1], [1, 0], [None, 0], [4, -2, 0], []):
        for off in (0, 3, -1, None):
            cases += 1
            forms = [StridedLayoutAttr(strides, off), StridedLayoutAttr([wrap(v) for v in strides], wrap(off)), StridedLayoutAttr(tuple(strides), wrap(off)),
                     StridedLayoutAttr(ArrayAttr([wrap(v) for v in strides]), off)]
            f0 = forms[0]
            for f in forms[1:]:
                if f != f0 or hash(f) != hash(f0) or f.get_strides() != tuple(strides) and list(f.get_strides()) != list(strides) or f.get_offset() != off:
                    return {"cases": cases, "failures": [{"key": "C08/same-parameters", "strides": strides, "offset": off, "forms": [str(x) for x in forms],
                                                           "what": "argument forms of the same strides / offset give different StridedLayoutAttr values"}], "exhaustive": True, "bound": ""}
    # every argument form of IntegerAttr (int / IntAttr value; width / IntegerType / IndexType) for boundary values
    for v in (0, 1, -1, 127, 128, 255, 256, -128, -129, 2**31, 2**32 - 1, 2**63, 2**64 - 1, -2**63, 2**64):
        cases += 1
        f = N_int_attr_forms(v)
        if f:
            return {"cases": cases, "failures": [dict(f, key="C08/same-parameters")], "exhaustive": True, "bound": ""}
    return {"cases": cases, "failures": [], "exhaustive": True, "bound": f"all pairs/triples over a pool of {len(a)} builtin attribute values built three times independently; "
            "IntegerAttr built from every argument form (int / IntAttr; width / IntegerType of 3 signednesses / index; truncate_bits) for 15 boundary values; "
            "dense array / elements attributes over every packable element type of the dialect (all float formats, i1..i64, index) built twice from lists and once from bytes"}


def scan_eq_overrides():
    """Every Attribute subclass with a hand-written __eq__/__hash__ must be under contract (today: FloatData)."""
    import importlib
    import pkgutil

    import xdsl.dialects
    from xdsl.ir import Attribute

    for m in pkgutil.walk_packages(xdsl.dialects.__path__, "xdsl.dialects."):
        try:
            importlib.import_module(m.name)
        except Exception:
            pass
    seen, work, over = set(), [Attribute], []
    while work:
        c = work.pop()
        for s in c.__subclasses__():
            if s in seen:
                continue
            seen.add(s)
            work.append(s)
            src = s.__dict__
            hand = []
            for k in ("__eq__", "__hash__"):
                f = src.get(k)
                code = getattr(f, "__code__", None)
                # dataclass-generated methods are compiled from "<string>"; hand-written ones come from a .py file
                if code is not None and code.co_filename.endswith(".py") and "dataclasses.py" not in code.co_filename:
                    hand.append(k)
            if hand:
                over.append(f"{s.__module__}.{s.__qualname__}")
    known = {"xdsl.dialects.builtin.FloatData"}
    unknown = sorted(set(over) - known)
    note = f"{len(seen)} Attribute subclasses inspected; hand-written __eq__/__hash__ in: {sorted(over)}"
    return (not unknown), note + (f"; NOT UNDER CONTRACT: {unknown}" if unknown else "")


def _native_fields_vs_parameters(tier, seed):
    """
    Equality and hashing of attributes are the dataclass-generated field-wise ones: they see a parameter only if it is a DATACLASS FIELD of the class.
    Every ParametrizedAttribute class of every registered dialect is checked: each IRDL parameter is a dataclass field; and, where two instances with
    different parameters can be built generically (swapping in another attribute for one parameter without verification), they are unequal.
    """
    import dataclasses

    from xdsl.dialects import get_all_dialects
    from xdsl.ir import ParametrizedAttribute

    cases, fails, seen = 0, [], set()
    for dname, factory in sorted(get_all_dialects().items()):
        try:
            d = factory()
        except Exception:  # noqa: BLE001
            continue
        for cls in d.attributes:
            if not (isinstance(cls, type) and issubclass(cls, ParametrizedAttribute)):
                continue
            try:
                params = [p for p, _ in cls.get_irdl_definition().parameters]
            except Exception:  # noqa: BLE001
                continue
            cases += 1
            fields = [f.name for f in dataclasses.fields(cls)] if dataclasses.is_dataclass(cls) else []
            missing = sorted(set(params) - set(fields))
            if missing:
                interp = cls.__module__ == "xdsl.ir.core"  # a class object made at run time by the IRDL interpreter from a copy of ParametrizedAttribute's namespace
                key = ("C08/fields-vs-parameters", interp)
                if key not in seen:
                    seen.add(key)
                    fails.append({"key": "C08/fields-vs-parameters", "class": f"{cls.__module__}.{cls.__qualname__} ({cls.name})", "parameters that == and hash ignore": missing,
                                  "what": "two attributes of this class with different parameters compare equal and hash equal",
                                  "inputs": {"class_is_created_by_the_irdl_interpreter": interp}})
    return {"cases": cases, "failures": fails, "exhaustive": True,
            "bound": "every ParametrizedAttribute class of every registered dialect: each IRDL parameter is a dataclass field (the generated __eq__/__hash__ see it)"}


NATIVE = [("float-patterns", _native_floats), ("attribute-pool", _native_attr_values), ("fields-vs-parameters", _native_fields_vs_parameters)]
SCANS = [("eq-hash-overrides", scan_eq_overrides)]


def make_specs(tier):
    specs = []

    def add(s, insts):
        s.instances = insts
        specs.append(s)

    add(FloatDataEq(), [{"same_class": True}, {"same_class": False}])
    add(FloatDataHash(), [{}])
    ws = [1, 2, 8, 16, 32, 64] if tier == "quick" else list(range(1, 65)) + [128]
    add(NormalizedValue(), [{"w": w, "sign": s, "trunc": t} for w in ws for s in ("SIGNLESS", "SIGNED", "UNSIGNED") for t in (False, True)])
    add(OpInfoEq(), [{}])
    add(IntegerAttrInit(), [{"value": v, "type": t, "trunc": tr} for v in ("int", "IntAttr") for t in ("int", "IntegerType", "IndexType") for tr in (False, True)])
    return specs


ASSUMPTIONS = [
    "dataclass(frozen=True) generates field-wise __eq__/__hash__ for ParametrizedAttribute/Data (CPython); payload types str/int/bytes/tuple/immutabledict have consistent ==/hash",
    "struct.pack('<d', x) is the IEEE-754 binary64 bit pattern of x; hash(bytes) is a function of the content; hash(float) is a function of the value, of the object identity for NaN (CPython >= 3.10)",
    "IntegerAttr.__init__ is under contract with trusted models of IntAttr(v), IntegerType(w) and ParametrizedAttribute.__init__ (stores its two arguments); "
    "IntegerType.normalized_value is used through its discharged contract",
    "UnregisteredAttr.with_name_and_type class cache and 'parsed from the same text in different contexts': not covered",
]

SPECS = make_specs(os.environ.get("VERIF_TIER", "quick"))
