"""
Bounded stand-in for C02: generated IR (multi-block regions, forward references, values from
enclosing regions), every clone entry point (whole op, op without regions, region into an empty or
non-empty destination at every index, apply_to_clone); checks: the copy is isomorphic to the
source (independent oracle), every reference to something defined inside points to the copy and
outside references are unchanged, source and pre-existing destination IR are untouched (textual
form + structural invariants), and edits of the copy are invisible in the source.
"""

from __future__ import annotations

import random

from contracts.C03_native import _blocks, _ops, build, gen_spec, iso
from contracts.common import rechecked
from contracts.ir_native import Broken, check_invariants


def inner_defs(top):
    """ids of all values and blocks defined inside top (incl. its results)."""
    ids = set(id(r) for r in top.results)
    for o in top.walk():
        ids.update(id(r) for r in o.results)
        for r in o.regions:
            for b in _blocks(r):
                ids.add(id(b))
                ids.update(id(a) for a in b._args)
    return ids


def refs_ok(src, copy):
    """Every operand/successor of the copy: inside-defined -> points into the copy; outside -> identical to the source's."""
    sd, cd = inner_defs(src), inner_defs(copy)
    for a, b in zip(src.walk(), copy.walk()):
        for u, v in zip(list(a._operands) + list(a._successors), list(b._operands) + list(b._successors)):
            if id(u) in sd:
                if id(v) not in cd:
                    return f"{b.name}: reference to a value/block defined inside the cloned part still points outside the copy"
            elif u is not v:
                return f"{b.name}: reference to an outside value/block was changed"
    return None


@rechecked
def check_clone(spec, entry, index=0, dest_blocks=0):
    from xdsl.context import Context
    from xdsl.dialects import test
    from xdsl.dialects.builtin import ModuleOp
    from xdsl.ir import Block, Region
    from xdsl.passes import ModulePass

    a, outer = build(spec)
    holder = ModuleOp([outer[0].op, a])
    before = str(holder)
    key = f"C02/{entry}"
    try:
        if entry == "op.clone":
            c = a.clone()
            if not iso(a, c):
                return {"entry": entry, "source": str(a), "clone": str(c), "why": "clone is not isomorphic to the source", "key": key}
            w = refs_ok(a, c)
            if w:
                return {"entry": entry, "source": str(a), "clone": str(c), "why": w, "key": key}
            roots = [holder, c]
        elif entry == "op.clone_without_regions":
            c = a.clone_without_regions()
            if c.name != a.name or list(c._operands) != list(a._operands) or [r.type for r in c.results] != [r.type for r in a.results] \
                    or c.attributes != a.attributes or c.properties != a.properties or len(c.regions) != len(a.regions) \
                    or any(r._first_block is not None for r in c.regions) or c.attributes is a.attributes or c.properties is a.properties:
                return {"entry": entry, "source": str(a), "clone": str(c), "why": "shallow clone differs from the source op or shares its dictionaries", "key": key}
            roots = [holder, c]
        elif entry == "region.clone":
            r = a.regions[0]
            c = test.TestOp.create(regions=[r.clone()])
            if not iso(a, c):
                return {"entry": entry, "source": str(a), "clone": str(c), "why": "cloned region is not isomorphic to the source", "key": key}
            w = refs_ok(a, c)
            if w:
                return {"entry": entry, "source": str(a), "clone": str(c), "why": w, "key": key}
            roots = [holder, c]
        elif entry == "region.clone_into":
            r = a.regions[0]
            pre = [Block([test.TestOp.create(result_types=[outer[0].type])], arg_types=[outer[0].type]) for _ in range(dest_blocks)]
            for i, b in enumerate(pre):
                # pre-existing IR with internal uses
                o = b._first_op
                b.add_op(test.TestOp.create(operands=[o.results[0], b.args[0]]))
            dest = Region(pre)
            dholder = test.TestOp.create(regions=[dest])
            dbefore = [str(b._first_op) + "|" + str(b._last_op) + f"|{len(_ops(b))}" for b in pre]
            nsrc = len(_blocks(r))
            idx = min(index, dest_blocks)
            r.clone_into(dest, idx)
            got = _blocks(dest)
            if len(got) != dest_blocks + nsrc:
                return {"entry": entry, "why": f"destination has {len(got)} blocks, expected {dest_blocks}+{nsrc}", "source": str(a), "key": key}
            new = got[idx:idx + nsrc]
            old = got[:idx] + got[idx + nsrc:]
            if [id(b) for b in old] != [id(b) for b in pre]:
                return {"entry": entry, "index": idx, "why": "pre-existing destination blocks moved/reordered", "source": str(a), "key": key}
            dafter = [str(b._first_op) + "|" + str(b._last_op) + f"|{len(_ops(b))}" for b in pre]
            if dafter != dbefore:
                return {"entry": entry, "index": idx, "dest_blocks": dest_blocks, "source": str(a), "destination after": str(dholder),
                        "why": "IR already present in the destination was modified by clone_into", "key": key}
            # compare the inserted blocks with the source region
            for b in new:
                dest.detach_block(b)
            c = test.TestOp.create(regions=[Region(new)])
            if not iso(a, c):
                return {"entry": entry, "index": idx, "dest_blocks": dest_blocks, "source": str(a), "inserted": str(c),
                        "why": "blocks inserted by clone_into are not isomorphic to the source region", "key": key}
            w = refs_ok(a, c)
            if w:
                return {"entry": entry, "index": idx, "dest_blocks": dest_blocks, "source": str(a), "inserted": str(c), "why": w, "key": key}
            roots = [holder, c, dholder]
        elif entry == "mapper-reuse":
            # the caller supplies ONE value mapper / block mapper and clones the same op twice with it (the mappers then already hold every inside value
            # and block of the first copy): the second copy must again be an independent isomorphic copy whose inside references point into ITSELF
            vm, bm = {}, {}
            c1 = a.clone(vm, bm)
            c2 = a.clone(vm, bm)
            for which, c in (("first", c1), ("second", c2)):
                if not iso(a, c):
                    return {"entry": entry, "source": str(a), "clone": str(c), "why": f"the {which} clone made with a shared caller-supplied mapper is not isomorphic to the source", "key": key}
                w = refs_ok(a, c)
                if w:
                    return {"entry": entry, "source": str(a), "clone": str(c), "why": f"{which} clone with a shared caller-supplied mapper: " + w, "key": key}
            roots = [holder, c1, c2]
        else:  # apply_to_clone
            class Clobber(ModulePass):
                name = "c02-clobber"

                def apply(self, ctx, op):
                    for o in list(op.walk()):
                        if o.parent is not None and not o.regions and o.name == "test.op":
                            for res in o.results:
                                res.replace_all_uses_with(test.TestOp.create(result_types=[res.type]).results[0])
                            o.detach()

            _, c = Clobber().apply_to_clone(Context(), holder)
            roots = [holder]
        if str(holder) != before:
            return {"entry": entry, "source before": before, "source after": str(holder), "why": "cloning modified the source", "key": key}
        check_invariants(roots)
        # later edits of the copy are invisible in the source (and vice versa)
        if entry in ("op.clone", "region.clone"):
            for o in list(c.walk()):
                if o is not c and o.parent is not None:
                    for res in o.results:
                        res.replace_all_uses_with(outer[1])
                    o.parent.erase_op(o, safe_erase=False)
                    break
            if str(holder) != before:
                return {"entry": entry, "source before": before, "source after": str(holder), "why": "an edit of the copy is visible in the source", "key": key}
            check_invariants([holder, c])
    except Broken as e:
        return {"entry": entry, "source": before, "why": "structural invariants broken after cloning: " + str(e), "key": key}
    return None


@rechecked
def check_self_reference(n_results, self_positions, nested):
    """
    Operation.clone() called DIRECTLY on an op that uses its own results (legal in graph regions such as a module body), optionally with a
    nested op that uses them too: every such reference must point into the copy, and the source must not gain or lose a use.
    """
    from xdsl.dialects import test
    from xdsl.dialects.builtin import ModuleOp, i32
    from xdsl.ir import Block, Region

    outer = test.TestOp(result_types=[i32])
    a = test.TestOp(operands=[outer.results[0]] * (max(self_positions, default=0) + 2), result_types=[i32] * n_results,
                    regions=[Region(Block())] if nested else [])
    for p in self_positions:
        a.operands[p] = a.results[p % n_results]
    if nested:
        inner = test.TestOp(operands=[a.results[0], outer.results[0]], result_types=[i32])
        a.regions[0].blocks[0].add_ops([inner, test.TestTermOp()])
    holder = ModuleOp([outer, a])
    holder.verify()
    before = str(holder)
    uses_before = [r.uses.get_length() for r in a.results] + [outer.results[0].uses.get_length()]
    key = "C02/op.clone"
    c = a.clone()
    why = refs_ok(a, c)
    if why is None and not iso(a, c):
        why = "clone is not isomorphic to the source"
    uses_after = [r.uses.get_length() for r in a.results] + [outer.results[0].uses.get_length()]
    # the outer value legitimately gains the uses of the copy; the SOURCE's own results must not
    if why is None and uses_after[:-1] != uses_before[:-1]:
        why = f"results of the source op gained/lost uses by cloning it: {uses_before[:-1]} -> {uses_after[:-1]}"
    if why is None and str(holder) != before:
        why = "the source changed textually"
    if why:
        return {"entry": "op.clone", "source": before, "clone": str(c), "why": why, "key": key, "self_positions": list(self_positions)}
    try:
        check_invariants([holder, c])
    except Broken as e:
        return {"entry": "op.clone", "source": before, "why": "structural invariants broken after cloning: " + str(e), "key": key}
    return None


def explore(tier, seed):
    rnd = random.Random(seed)
    n = 150 if tier == "quick" else 2000
    cases = 0
    fails = []
    seen = set()

    def rec(f):
        k = (f["key"], f.get("dest_blocks", 0) > 0 and f["entry"] == "region.clone_into") if f else None
        if f and k not in seen:
            seen.add(k)
            f["inputs"] = {"destination_not_empty": bool(f.get("dest_blocks", 0)) and f["entry"] == "region.clone_into"}
            fails.append(f)

    for n_results in (1, 2):
        for self_positions in ((0,), (1,), (0, 1), ()):
            for nested in (False, True):
                cases += 1
                rec(check_self_reference(n_results, self_positions, nested))
    for _ in range(n):
        spec = gen_spec(rnd)
        for entry in ("op.clone", "op.clone_without_regions", "region.clone", "apply_to_clone", "mapper-reuse"):
            cases += 1
            rec(check_clone(spec, entry))
        for dest_blocks in (0, 1, 2):
            for index in range(dest_blocks + 1):
                cases += 1
                rec(check_clone(spec, "region.clone_into", index, dest_blocks))
    return {"cases": cases, "failures": fails, "exhaustive": False,
            "bound": f"16 directed root ops that use their own results (graph-region feedback, with/without a nested user) cloned directly; {n} seeded programs (<=2 blocks x <=3 ops, forward/outer references, successors, one nested region level) x entry points "
                     "{Operation.clone, clone_without_regions, Region.clone, two clones through one caller-supplied mapper, Region.clone_into (destination with 0/1/2 blocks, every index), "
                     "ModulePass.apply_to_clone}; isomorphism oracle, reference remapping, source/destination untouched, edit independence"}
