"""
Bounded stand-in for C03 (also used by C02): generated small IR, an independent isomorphism
oracle written from the statement (positional one-to-one correspondence of values and blocks,
forward references included), single-point mutations, clones.
"""

from __future__ import annotations

import itertools
import random

from contracts.common import rechecked


# ------------------------------------------------------------------ generator
# A program spec is JSON-like so that it can be replayed:
#  region = [block...]; block = {"args": [ty...], "ops": [op...]}
#  op = {"res": [ty...], "opnds": [ref...], "succ": [block index...], "attrs": {k: int}, "props": {k: int}, "regions": [region...]}
#  ref = ["r", op_path_index, result_index] | ["a", block_index, arg_index] | ["o", k]  (k-th outer value)
# Values are referenced by (flat op index in the whole top region pre-order, result idx) so forward refs are expressible.

TYPES = ["i32", "i64"]


def _ty(name):
    from xdsl.dialects.builtin import i32, i64

    return {"i32": i32, "i64": i64}[name]


def build(spec, outer=None):
    """Returns (top_op, outer_values).  top_op = test.op holding the region described by spec."""
    from xdsl.dialects import test
    from xdsl.dialects.builtin import IntegerAttr, i32
    from xdsl.ir import Block, Region

    if outer is None:
        outer = list(test.TestOp.create(result_types=[i32, i32]).results)
    ops_flat = []
    blocks_of = {}

    def mk_region(rspec, path):
        blocks = [Block(arg_types=[_ty(t) for t in b["args"]]) for b in rspec]
        blocks_of[path] = blocks
        for bi, (b, bs) in enumerate(zip(blocks, rspec)):
            for os_ in bs["ops"]:
                regions = [mk_region(r, path + (len(ops_flat), ri)) for ri, r in enumerate(os_.get("regions", []))]
                # placeholders for operands: fixed up after everything exists
                op = test.TestOp.create(
                    operands=[], result_types=[_ty(t) for t in os_["res"]], regions=regions,
                    attributes={k: IntegerAttr(v, i32) for k, v in os_.get("attrs", {}).items()},
                    properties={k: IntegerAttr(v, i32) for k, v in os_.get("props", {}).items()})
                ops_flat.append((op, os_, path))
                b.add_op(op)
        return Region(blocks)

    # pre-order numbering must match creation order: create parents' placeholders first
    # (regions are created before their op above, so number ops in a separate pass)
    top_region = mk_region(spec, ())
    top = test.TestOp.create(regions=[top_region])
    order = [o for o in top.walk() if o is not top]
    spec_of = {id(op): (s, p) for op, s, p in ops_flat}

    def visible_ops(o):
        """Ops whose results may legally be referenced from o: same region (any order: graph-region style) and enclosing regions."""
        vis = []
        cur = o
        while cur is not None and cur is not top:
            region = cur.parent.parent
            for x in order:
                if x.parent is not None and x.parent.parent is region:
                    vis.append(x)
            cur = region.parent
        return vis

    def visible_args(o):
        vis = []
        cur = o
        while cur is not None and cur is not top:
            vis += list(cur.parent._args)
            cur = cur.parent.parent.parent
        return vis

    def resolve(ref, o):
        kind = ref[0]
        if kind == "r":
            cands = [r for x in visible_ops(o) for r in x.results]
            return cands[(ref[1] * 2 + ref[2]) % len(cands)] if cands else outer[0]
        if kind == "a":
            cands = visible_args(o)
            return cands[(ref[1] * 2 + ref[2]) % len(cands)] if cands else outer[0]
        return outer[ref[1] % len(outer)]

    for o in order:
        s, path = spec_of[id(o)]
        o.operands = [resolve(r, o) for r in s.get("opnds", [])]
        if s.get("succ"):
            bl = blocks_of[path]
            o.successors = [bl[i % len(bl)] for i in s["succ"]]
    return top, outer


def gen_spec(rnd, depth=0):
    nblocks = rnd.choice([1, 1, 2])
    region = []
    for _ in range(nblocks):
        b = {"args": [rnd.choice(TYPES) for _ in range(rnd.randrange(0, 3))], "ops": []}
        for _ in range(rnd.randrange(0, 4)):
            op = {"res": [rnd.choice(TYPES) for _ in range(rnd.randrange(0, 3))], "opnds": [], "succ": [], "attrs": {}, "props": {}, "regions": []}
            for _ in range(rnd.randrange(0, 3)):
                k = rnd.random()
                if k < 0.6:
                    op["opnds"].append(["r", rnd.randrange(0, 8), rnd.randrange(0, 2)])
                elif k < 0.85:
                    op["opnds"].append(["a", rnd.randrange(0, 2), rnd.randrange(0, 2)])
                else:
                    op["opnds"].append(["o", rnd.randrange(0, 2)])
            if rnd.random() < 0.3:
                op["attrs"][rnd.choice(["a", "x"])] = rnd.randrange(0, 2)
            if rnd.random() < 0.3:
                op["props"][rnd.choice(["p", "x"])] = rnd.randrange(0, 2)
            if rnd.random() < 0.25:
                op["succ"] = [rnd.randrange(0, 2) for _ in range(rnd.randrange(1, 3))]
            if depth < 1 and rnd.random() < 0.2:
                op["regions"] = [gen_spec(rnd, depth + 1)]
            b["ops"].append(op)
        region.append(b)
    return region


# ------------------------------------------------------------------ oracle
def iso(a, b):
    """
    Independent structural-isomorphism check of two ops (with their nested regions): builds the
    positional correspondence of all defined values and blocks first, then compares every
    operation on name, operand correspondence, result types, attributes, properties, successors,
    regions, and every block on argument types.  Values defined outside must be identical.
    """
    vmap = {}

    def reg_defs(x, y):
        if x.name != y.name or len(x.results) != len(y.results) or len(x.regions) != len(y.regions):
            return False
        for r, s in zip(x.results, y.results):
            vmap[id(r)] = s
        for rx, ry in zip(x.regions, y.regions):
            bx, by = _blocks(rx), _blocks(ry)
            if len(bx) != len(by):
                return False
            for p, q in zip(bx, by):
                vmap[id(p)] = q
                if len(p._args) != len(q._args):
                    return False
                for u, v in zip(p._args, q._args):
                    vmap[id(u)] = v
                ox, oy = _ops(p), _ops(q)
                if len(ox) != len(oy):
                    return False
                for m, n in zip(ox, oy):
                    if not reg_defs(m, n):
                        return False
        return True

    def cmp(x, y):
        if x.attributes != y.attributes or x.properties != y.properties:
            return False
        if [r.type for r in x.results] != [r.type for r in y.results]:
            return False
        if len(x._operands) != len(y._operands) or len(x._successors) != len(y._successors):
            return False
        for u, v in zip(x._operands, y._operands):
            if vmap.get(id(u), u) is not v:
                return False
        for u, v in zip(x._successors, y._successors):
            if vmap.get(id(u), u) is not v:
                return False
        for rx, ry in zip(x.regions, y.regions):
            for p, q in zip(_blocks(rx), _blocks(ry)):
                if [a.type for a in p._args] != [a.type for a in q._args]:
                    return False
                for m, n in zip(_ops(p), _ops(q)):
                    if not cmp(m, n):
                        return False
        return True

    return reg_defs(a, b) and cmp(a, b)


def _blocks(r):
    out, b = [], r._first_block
    while b is not None:
        out.append(b)
        b = b._next_block
    return out


def _ops(b):
    out, o = [], b._first_op
    while o is not None:
        out.append(o)
        o = o._next_op
    return out


def has_forward_ref(top):
    """Some operand is defined later in the pre-order walk (graph-region style use-before-def)."""
    seen = set()
    fwd = False

    def walk(o):
        nonlocal fwd
        for v in o._operands:
            owner = getattr(v, "op", None)
            if owner is not None and id(owner) not in seen and _inside(owner, top):
                fwd = True
        seen.add(id(o))
        for r in o.regions:
            for b in _blocks(r):
                for x in _ops(b):
                    walk(x)

    walk(top)
    return fwd


def _inside(o, top):
    cur = o
    while cur is not None:
        if cur is top:
            return True
        cur = cur.parent
    return False


MUTATIONS = ["result_type", "arg_type", "attr", "prop", "attr_to_prop", "prop_to_attr", "shadowed_attr", "operand", "successor", "swap_ops", "swap_blocks", "drop_op", "add_result"]


def mutate(spec, kind, rnd):
    """Single-point mutation of a program spec (deep-copied); returns None if not applicable."""
    import copy

    s = copy.deepcopy(spec)
    blocks = s
    ops = [(b, i) for b in blocks for i in range(len(b["ops"]))]
    if kind == "swap_blocks":
        if len(blocks) < 2:
            return None
        blocks[0], blocks[1] = blocks[1], blocks[0]
        return s
    if kind == "arg_type":
        cands = [b for b in blocks if b["args"]]
        if not cands:
            return None
        b = rnd.choice(cands)
        i = rnd.randrange(len(b["args"]))
        b["args"][i] = "i64" if b["args"][i] == "i32" else "i32"
        return s
    if not ops:
        return None
    b, i = rnd.choice(ops)
    op = b["ops"][i]
    if kind == "result_type":
        if not op["res"]:
            return None
        j = rnd.randrange(len(op["res"]))
        op["res"][j] = "i64" if op["res"][j] == "i32" else "i32"
    elif kind == "attr":
        k = rnd.choice(sorted(op["attrs"]) or ["a"])
        op["attrs"][k] = 1 - op["attrs"][k] if k in op["attrs"] else 0
    elif kind == "prop":
        k = rnd.choice(sorted(op["props"]) or ["p"])
        op["props"][k] = 1 - op["props"][k] if k in op["props"] else 0
    elif kind == "attr_to_prop":
        if not op["attrs"]:
            return None
        k = rnd.choice(sorted(op["attrs"]))
        if k in op["props"]:
            return None
        op["props"][k] = op["attrs"].pop(k)
    elif kind == "prop_to_attr":
        if not op["props"]:
            return None
        k = rnd.choice(sorted(op["props"]))
        if k in op["attrs"]:
            return None
        op["attrs"][k] = op["props"].pop(k)
    elif kind == "shadowed_attr":
        # an attribute and a property with the same name: change only the attribute
        op["props"]["x"] = op["props"].get("x", 0)
        op["attrs"]["x"] = 1 - op["attrs"].get("x", 0)
    elif kind == "operand":
        if not op["opnds"]:
            return None
        j = rnd.randrange(len(op["opnds"]))
        op["opnds"][j] = ["r", rnd.randrange(0, 8), rnd.randrange(0, 2)] if op["opnds"][j][0] != "r" else ["o", rnd.randrange(0, 2)]
    elif kind == "successor":
        if not op["succ"] or len(blocks) < 2:
            return None
        op["succ"][0] = 1 - (op["succ"][0] % 2)
    elif kind == "swap_ops":
        if len(b["ops"]) < 2:
            return None
        j = (i + 1) % len(b["ops"])
        b["ops"][i], b["ops"][j] = b["ops"][j], b["ops"][i]
    elif kind == "drop_op":
        del b["ops"][i]
    elif kind == "add_result":
        op["res"].append("i32")
    return s


@rechecked
def check_pair(spec_a, spec_b, what):
    """what: 'self' (a vs a), 'clone' (a vs a.clone()), 'pair' (a vs b, both directions against the oracle)."""
    a, outer = build(spec_a)
    if what == "self":
        got = a.is_structurally_equivalent(a)
        if not got:
            return {"what": "reflexivity", "program": str(a), "returned": got, "expected": True, "key": "C03/reflexive"}
        return None
    if what == "clone":
        c = a.clone()
        exp = iso(a, c)
        got = a.is_structurally_equivalent(c)
        got2 = c.is_structurally_equivalent(a)
        if not exp:
            return {"what": "clone is not isomorphic to its source (oracle)", "program": str(a), "clone": str(c), "key": "C02/clone-equivalent"}
        if not got or not got2:
            key = "C03/clone-forward-ref" if has_forward_ref(a) else "C03/clone"
            return {"what": "IR vs its clone", "program": str(a), "returned": (got, got2), "expected": True,
                    "has use-before-def": has_forward_ref(a), "key": key}
        return None
    b, _ = build(spec_b, outer)
    exp = iso(a, b)
    got_ab = a.is_structurally_equivalent(b)
    got_ba = b.is_structurally_equivalent(a)
    if got_ab != got_ba:
        return {"what": "symmetry", "a": str(a), "b": str(b), "a~b": got_ab, "b~a": got_ba, "key": "C03/symmetric"}
    if got_ab != exp:
        key = "C03/forward-ref" if (has_forward_ref(a) and exp) else "C03/pair"
        return {"what": "equivalence vs isomorphism oracle", "a": str(a), "b": str(b), "returned": got_ab, "expected": exp, "key": key}
    return None


@rechecked
def check_free_references(kind):
    """
    Comparisons rooted at an OPERATION or a BLOCK whose ops refer to blocks / values defined OUTSIDE the compared IR (a branch to a sibling block, an
    operand from an enclosing region): such references correspond to themselves, so the IR is equivalent to itself and to its clone, and differs
    from a copy that refers to something else.
    """
    from xdsl.dialects import test
    from xdsl.dialects.builtin import i32
    from xdsl.ir import Block, Region

    target, other = Block(), Block()
    outside = test.TestOp.create(result_types=[i32])
    br = test.TestTermOp.create(successors=[target], operands=[outside.results[0]])
    body = Block([test.TestOp.create(operands=[outside.results[0]]), br])
    holder = test.TestOp.create(regions=[Region([Block([outside]), body, target, other])])
    root = br if kind == "op" else body
    inputs = {}
    if not root.is_structurally_equivalent(root):
        return {"key": "C03/free-references", "what": f"a {kind} with a successor / operand defined outside the compared IR is not equivalent to itself", "inputs": inputs}
    if kind == "op":
        c = br.clone()
        if not br.is_structurally_equivalent(c) or not c.is_structurally_equivalent(br):
            return {"key": "C03/free-references", "what": "an op with an outside successor is not equivalent to its clone", "inputs": inputs}
        d = test.TestTermOp.create(successors=[other], operands=[outside.results[0]])
        if br.is_structurally_equivalent(d) or d.is_structurally_equivalent(br):
            return {"key": "C03/free-references", "what": "ops branching to DIFFERENT outside blocks are reported equivalent", "inputs": inputs}
    del holder
    return None


def explore(tier, seed):
    rnd = random.Random(seed)
    n = 400 if tier == "quick" else 4000
    cases = 0
    fails = []
    seen = set()
    nontrivial = 0

    def rec(f):
        if f and f["key"] not in seen:
            seen.add(f["key"])
            fails.append(f)

    for kind in ("op", "block"):
        cases += 1
        rec(check_free_references(kind))
    for _ in range(n):
        spec = gen_spec(rnd)
        cases += 3
        rec(check_pair(spec, None, "self"))
        rec(check_pair(spec, None, "clone"))
        rec(check_pair(spec, spec, "pair"))
        for kind in MUTATIONS:
            m = mutate(spec, kind, rnd)
            if m is None:
                continue
            cases += 1
            nontrivial += 1
            rec(check_pair(spec, m, "pair"))
    return {"cases": cases, "nontrivial": nontrivial, "failures": fails, "exhaustive": False,
            "bound": f"{n} seeded programs (<=2 blocks x <=3 ops, <=2 operands incl. forward/outer references, successors, one nested region level), "
                     f"each vs itself, vs its clone, vs an identical rebuild and vs {len(MUTATIONS)} single-point mutations; both directions; "
                     "independent isomorphism oracle; op- and block-rooted comparisons with successors / operands defined outside the compared IR"}
