"""
Bounded stand-in for C29: generated nested modules with symbols of all visibilities; every
flat/nested reference looked up from every operation through each lookup entry point, compared
with an independent oracle of the nesting rules.
"""

from __future__ import annotations

import itertools
import random

from contracts.common import rechecked

NAMES = ["a", "b", "c"]


def build(tree):
    """
    tree: list of nodes; node = ("mod"|"fn"|"op", name|None, visibility|None, children)
    "mod": nested builtin.module (symbol table, optional symbol), "fn": func.func (symbol, not a table),
    "op": test.op (not a symbol, may hold a region with more nodes).
    """
    from xdsl.dialects import func, test
    from xdsl.dialects.builtin import ModuleOp, StringAttr
    from xdsl.ir import Block, Region

    def mk(node):
        kind, name, vis, children = node
        kids = [mk(c) for c in children]
        if kind == "mod":
            m = ModuleOp(kids, sym_name=StringAttr(name) if name is not None else None)
            if vis is not None:
                m.attributes["sym_visibility"] = StringAttr(vis)
            return m
        if kind == "fn":
            f = func.FuncOp(name, ((), ()), Region(Block(kids + [func.ReturnOp()])), visibility=vis)
            return f
        if kind == "uop":
            # an op of an UNREGISTERED dialect wrapping more IR: it is neither a symbol nor a symbol table (has_trait answers True by default for such ops)
            from xdsl.dialects.builtin import UnregisteredOp

            return UnregisteredOp.with_name("unknown.wrapper").create(regions=[Region(Block(kids))])
        return test.TestOp.create(regions=[Region(Block(kids + [test.TestTermOp.create()]))] if kids else [])  # (terminated: the module must verify)

    return ModuleOp([mk(n) for n in tree])


def info(op):
    from xdsl.dialects import func
    from xdsl.dialects.builtin import ModuleOp

    is_table = isinstance(op, ModuleOp)
    name = None
    vis = None
    if isinstance(op, (ModuleOp, func.FuncOp)):
        sn = op.get_attr_or_prop("sym_name")
        name = sn.data if sn is not None else None
        v = op.get_attr_or_prop("sym_visibility")
        vis = v.data if v is not None else "public"
    return is_table, name, vis


def children(table):
    blk = table.regions[0]._first_block
    out = []
    o = blk._first_op
    while o is not None:
        out.append(o)
        o = o._next_op
    return out


def oracle_in(table, root, nested):
    """The nesting rules of the property, written from the statement."""
    cur = None
    for c in children(table):
        if info(c)[1] == root:
            cur = c
            break
    if cur is None:
        return None
    for ref in nested:
        if not info(cur)[0]:
            return None
        nxt = None
        for c in children(cur):
            if info(c)[1] == ref:
                nxt = c
                break
        if nxt is None or info(nxt)[2] == "private":
            return None
        cur = nxt
    return cur


def nearest_table(op):
    cur = op
    while cur is not None:
        if info(cur)[0]:
            return cur
        blk = cur.parent
        cur = blk.parent.parent if blk is not None and blk.parent is not None else None
    return None


def all_ops(top):
    out = []

    def walk(o):
        out.append(o)
        for r in o.regions:
            b = r._first_block
            while b is not None:
                x = b._first_op
                while x is not None:
                    walk(x)
                    x = x._next_op
                b = b._next_block

    walk(top)
    return out


def unique_names(top):
    for o in all_ops(top):
        if info(o)[0]:
            ns = [info(c)[1] for c in children(o) if info(c)[1] is not None]
            if len(ns) != len(set(ns)):
                return False
    return True


@rechecked
def check_tree(tree, which):
    from xdsl.dialects.builtin import StringAttr, SymbolRefAttr
    from xdsl.traits import SymbolTable as TraitST
    from xdsl.utils.symbol_table import SymbolTable, SymbolTableCollection

    tree = _detuple(tree)
    top = build(tree)
    # "on every verified module": the REAL verifier decides which modules the cached lookup is compared on (not this harness's own idea of validity)
    try:
        top.verify()
        uniq = True
    except Exception:  # noqa: BLE001
        uniq = False
    coll = SymbolTableCollection()
    refs = []
    for root in NAMES[:2] + [""]:  # the empty string is a legal symbol name
        refs.append((root, ()))
        for n1 in NAMES[:2] + [""]:
            refs.append((root, (n1,)))
            refs.append((root, (n1, NAMES[0])))
    for op in all_ops(top):
        table = nearest_table(op)
        for root, nested in refs:
            exp = oracle_in(table, root, nested) if table is not None else None
            attr = SymbolRefAttr(root, list(nested))
            forms = [attr] + ([root, StringAttr(root)] if not nested else [])
            for f in forms:
                got = {}

                def call(name, fn):
                    # a lookup returns an operation or nothing: any other exception of the code under test is a failure, not a harness crash
                    try:
                        got[name] = fn()
                    except ValueError:
                        got[name] = None if name.startswith("traits.") else ("raised", "ValueError")
                    except Exception as e:  # noqa: BLE001
                        got[name] = ("raised", f"{type(e).__name__}: {str(e)[:80]}")

                if which in ("utils", "all"):
                    call("utils.lookup_nearest_symbol_from", lambda: SymbolTable.lookup_nearest_symbol_from(op, f))
                if which in ("collection", "all") and uniq:
                    call("collection.lookup_nearest_symbol_from", lambda: coll.lookup_nearest_symbol_from(op, f))
                if which in ("trait", "all"):
                    call("traits.SymbolTable.lookup_symbol", lambda: TraitST.lookup_symbol(op, f))
                for k, g in got.items():
                    if g is not exp:
                        return {"entry point": k, "module": str(top), "from": op.name + "@" + str(info(op)[1]),
                                "reference": "@" + "::@".join((root,) + tuple(nested)),
                                "returned": None if g is None else (f"{g[1]}" if isinstance(g, tuple) else f"{g.name} @{info(g)[1]} ({info(g)[2]})"),
                                "expected": None if exp is None else f"{exp.name} @{info(exp)[1]} ({info(exp)[2]})",
                                "key": "C29/" + k}
    return None


def _detuple(t):
    return [(n[0], n[1], n[2], _detuple(n[3])) for n in t]


def gen_trees(tier):
    leafs = []
    for name in NAMES[:2]:
        for vis in ("public", "private", "nested"):
            leafs.append(("fn", name, vis, []))
    leafs.append(("op", None, None, []))
    inner_sets = [[], [leafs[0]], [leafs[1]], [leafs[3]], [leafs[0], leafs[4]], [("op", None, None, [leafs[1]])]]
    mids = list(leafs)
    for name in NAMES[:2] + [None]:
        for vis in ("public", "private"):
            for inner in inner_sets:
                mids.append(("mod", name, vis, inner))
    # depth-3: a module containing a module
    deep = []
    for vis2 in ("public", "private"):
        deep.append(("mod", "a", "public", [("mod", "b", vis2, [("fn", "a", "public", [])]), ("fn", "b", "public", [])]))
        deep.append(("mod", "a", "public", [("fn", "b", vis2, [("fn", "a", "public", [])]), ("fn", "a", "private", [])]))
    tops = []
    for m in mids:
        tops.append([m])
    for m1, m2 in itertools.product(mids, repeat=2):
        if tier == "quick" and (len(tops) % 3):
            tops.append(None)
            continue
        tops.append([m1, m2])
    # symbols named by the empty string (legal, and falsy in Python)
    deep.append(("mod", "", "public", [("fn", "a", "public", []), ("fn", "", "public", [])]))
    deep.append(("mod", "a", "public", [("mod", "", "public", [("fn", "a", "public", [])]), ("fn", "", "private", [])]))
    # unregistered wrapper ops between a reference and its enclosing table
    fa, fb = ("fn", "a", "public", []), ("fn", "b", "private", [])
    deep.append(("uop", None, None, [fa, ("op", None, None, [])]))
    deep.append(("mod", "a", "public", [("uop", None, None, [("op", None, None, []), fb]), fa]))
    deep.append(("uop", None, None, [("uop", None, None, [("op", None, None, [])]), ("mod", "b", "public", [fa])]))
    for d in deep:
        tops.append([d])
        tops.append([d, ("fn", "b", "public", [])])
        tops.append([("op", None, None, [d]), d])
    return [t for t in tops if t is not None]


def explore(tier, seed):
    cases = 0
    fails = []
    seen = set()
    for t in gen_trees(tier):
        cases += 1
        f = check_tree(t, "all")
        if f and f["key"] not in seen:
            seen.add(f["key"])
            fails.append(f)
    return {"cases": cases, "failures": fails, "exhaustive": True,
            "bound": "nested module trees of depth <= 3 over symbols {a,b} x {public,private,nested}, tables (builtin.module) and non-table symbols "
                     "(func.func), non-symbol ops with regions; every @x, @x::@y, @x::@y::@a reference looked up from every op through "
                     "utils.SymbolTable, SymbolTableCollection (unique names only) and traits.SymbolTable.lookup_symbol"}
