"""
C20 — Parallel-move lowering performs a simultaneous assignment.

Statement (quoted): "executing the emitted sequence of moves leaves every destination holding the
value its source held before, and changes no register other than the destinations and the
designated free registers; when no correct sequence can be produced the pass reports failure."

Decided by an exhaustive bounded stand-in (all move graphs over a few registers, emitted code run
on a register machine).  The xor-swap kernel (_insert_swap_ops) is under a discharged contract.
ParallelMovPattern.match_and_rewrite itself (pseudoforest traversal interleaved with IR
construction over dictionaries keyed by register types) is NOT proved.
"""

from __future__ import annotations

import os

import z3

from contracts import C20_native as N20
from contracts.common import A, AX, C, forall
from pyvc.arith import PYXOR
from pyvc.spec import Builtin, Inline, Spec
from pyvc.values import Clause, VBool, VInt, VRef, VTuple, Vocab

PROP = "C20"
F = "xdsl/transforms/riscv_lower_parallel_mov.py"
I = z3.IntSort()
VOCAB = Vocab({})

REG = z3.Function("register_of", I, I)  # SSA value -> physical register it lives in
VAL = z3.Function("runtime_value_of", I, I)  # SSA value -> value it holds when defined


def xor_axioms():
    x, y = z3.Ints("xa!x xa!y")
    return [AX("xor-cancel-right", forall([x, y], PYXOR(PYXOR(x, y), y) == x)), AX("xor-cancel-left", forall([x, y], PYXOR(PYXOR(x, y), x) == y)),
            AX("xor-commutes", forall([x, y], PYXOR(x, y) == PYXOR(y, x)))]


def native_xor_axioms():
    import random

    rnd = random.Random(0)
    n = 0
    for _ in range(2000):
        x, y = rnd.getrandbits(64), rnd.getrandbits(64)
        assert (x ^ y) ^ y == x and (x ^ y) ^ x == y and x ^ y == y ^ x
        n += 1
    return n


class SwapSpec(Spec):
    """_insert_swap_ops(rewriter, a, b): three xors; returns (value in b's register holding old a, value in a's register holding old b)."""

    prop, file, qualname = PROP, F, "_insert_swap_ops"

    @property
    def globals(self):
        def getattr_(ex, st, base, attr):
            if attr == "type":
                return VRef(REG(base.z), "RegisterType")
            if attr == "rd":
                return base  # the single result of the xor op is identified with the op
            return None

        return {"__getattr__": getattr_}

    def setup(self, st, inst):
        self.machine = {}  # register -> current runtime value (symbolic), updated by the emitted ops in order
        a = st.declare_input("a", z3.Int("a"))
        b = st.declare_input("b", z3.Int("b"))
        return {"rewriter": VRef(z3.IntVal(1), "PatternRewriter"), "a": VRef(a, "SSAValue"), "b": VRef(b, "SSAValue")}

    def pre(self, st, a):
        return xor_axioms() + [A("distinct-registers", REG(a["a"].z) != REG(a["b"].z)), A("values", z3.And(a["a"].z != 0, a["b"].z != 0))]

    @property
    def calls(self):
        spec = self

        def b_xor(ex, st, args, kw):
            """riscv.XorOp(x, y, rd=r): a new value in register r holding val(x) ^ val(y); x and y must still be in their registers."""
            from pyvc.engine import Res

            x, y = args[0].z, args[1].z
            rd = kw["rd"].z
            r = st.fresh_int("xor")
            st.assume(z3.And(r != 0, REG(r) == rd, VAL(r) == PYXOR(VAL(x), VAL(y))))
            # machine-level soundness of the SSA reading: both operands are the latest writers of their registers
            for v in (x, y):
                ex.oblige(st, "assert", f"operand-still-in-its-register:{len(st.ghost['log'])}", spec.latest(st, REG(v)) == v, "property")
            st.ghost["log"] = st.ghost["log"] + (r,)  # per-path record (Spec attributes are shared by all paths)
            return [Res("val", VRef(r, "XorOp"), st)]

        def b_insert(ex, st, args, kw):
            from pyvc.engine import Res

            return [Res("val", args[0], st)]

        b_xor.ghost_modifies = ["log"]
        return {"riscv.XorOp": Builtin(b_xor), "rewriter.insert": Builtin(b_insert, "rewriter.insert(op) returns op (C11)")}

    def latest(self, st, reg):
        """The SSA value that last wrote `reg` among a, b and the ops emitted so far."""
        e = z3.If(REG(self._a) == reg, self._a, z3.If(REG(self._b) == reg, self._b, z3.IntVal(0)))
        for r in st.ghost["log"]:
            e = z3.If(REG(r) == reg, r, e)
        return e

    def post(self, old, st, a, res):
        x, y = res.items
        return [C("first-result-is-old-a-in-b's-register", z3.And(REG(x.z) == REG(a["b"].z), VAL(x.z) == VAL(a["a"].z))),
                C("second-result-is-old-b-in-a's-register", z3.And(REG(y.z) == REG(a["a"].z), VAL(y.z) == VAL(a["b"].z))),
                C("results-are-the-final-contents", z3.And(self.latest(st, REG(a["a"].z)) == y.z, self.latest(st, REG(a["b"].z)) == x.z))]

    def native_search(self, inst, seed):
        r = N20.explore("quick", seed)
        fs = [f for f in r["failures"] if not (f.get("inputs") or {}).get("int_cycle_of_3_or_more_without_scratch")
              and not (f.get("inputs") or {}).get("clobbered_register_is_a_source_of_this_move")]
        return fs[0] if fs else None


def _wrap_setup(cls):
    orig = cls.setup

    def setup(self, st, inst):
        st.ghost["log"] = ()
        a = orig(self, st, inst)
        self._a, self._b = a["a"].z, a["b"].z
        return a

    cls.setup = setup


_wrap_setup(SwapSpec)


def _axioms(tier, seed):
    return {"cases": native_xor_axioms(), "failures": [], "exhaustive": False, "bound": "xor algebra facts used as axioms: 2000 random 64-bit pairs"}


NATIVE = [("all-move-graphs", N20.explore), ("xor-axioms", _axioms)]


def make_specs(tier):
    s = SwapSpec()
    s.instances = [{}]
    return [s]


ASSUMPTIONS = [
    "ParallelMovPattern.match_and_rewrite is NOT under a discharged contract: the simultaneous-assignment and no-clobber clauses are decided by the bounded "
    "stand-in only (exhaustive over 3 int / 2 float registers quick, 4 / 3 thorough)",
    "register machine model: mv/fmv copy, xor is bitwise xor; an SSA value denotes the content of its register when it is defined",
    "xor algebra (cancellation, commutativity) used as axioms for the uninterpreted xor (validated natively)",
    "a reported failure is accepted only for a float cycle without a designated free float register",
]

SPECS = make_specs(os.environ.get("VERIF_TIER", "quick"))
