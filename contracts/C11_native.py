"""
Bounded stand-in for C11: the real PatternRewriteWalker on generated nested IR with terminating pattern sets
(erase, replace, insert, modify in place, inline block, block-argument edit, forwarding), every walk configuration
(recursive or not x forward/reverse x regions first or not) and perturbed worklist orders (the walker's Worklist object is
substituted by one that pops a seeded-random member).  Postconditions, from the statement:

  fixpoint     (recursive mode) a second run of a fresh walker with the same patterns changes nothing and returns False
  reported     the walker returns True whenever the structural fingerprint of the IR changed
  alive        a pattern is never invoked on an operation that is detached or no longer inside the rewritten region
  listeners    every op that appeared has an inserted ancestor-or-self in the insertion log, every op that disappeared a removed
               ancestor-or-self in the removal log, every surviving op whose operands changed is in the modification log, every replaced
               op is in the replacement log
  flag         after each pattern invocation: fingerprint changed => rewriter.has_done_action
  consistent   the IR satisfies the C01 invariants afterwards (ir_native.check_invariants)
"""

from __future__ import annotations

import random

from contracts.common import rechecked


# ------------------------------------------------------------------ IR generation
def gen(rnd):
    """spec = nested list of op specs: (tag attrs, n_results, operand picks, [regions -> blocks -> ops])."""
    counter = [0]

    def gen_ops(depth, budget):
        ops = []
        for _ in range(rnd.randrange(1, 4 if depth else 5)):
            if budget[0] <= 0:
                break
            budget[0] -= 1
            kind = rnd.choice(["plain", "plain", "dead", "rep", "ins", "cnt", "wrap", "fwd", "addarg", "holder", "late"])
            regions = []
            if kind in ("wrap", "holder", "addarg") or (kind in ("dead", "rep") and rnd.random() < 0.5):
                if depth < 3:
                    regions = [[gen_ops(depth + 1, budget)]]  # one region, one block
                elif kind in ("wrap", "holder", "addarg"):
                    kind = "plain"
            counter[0] += 1
            ops.append({"kind": kind, "id": counter[0], "nres": 0 if kind in ("wrap", "holder", "addarg") else rnd.randrange(1, 3),
                        "picks": [rnd.randrange(0, 50) for _ in range(rnd.randrange(0, 3))], "regions": regions,
                        "cnt": rnd.randrange(1, 3)})
        return ops

    return {"ops": gen_ops(0, [rnd.randrange(3, 14)])}


def build(spec):
    from xdsl.dialects import test
    from xdsl.dialects.builtin import IntAttr, ModuleOp, StringAttr, i32
    from xdsl.ir import Block, Region

    def build_ops(specs, visible):
        out = []
        vis = list(visible)
        for s in specs:
            operands = [vis[p % len(vis)] for p in s["picks"]] if vis else []
            if s["kind"] == "fwd" and not operands:
                s = dict(s, kind="plain")
            if s["kind"] == "dead":
                pass
            regions = []
            for blocks in s["regions"]:
                blks = []
                for bops in blocks:
                    b = Block()
                    b.add_ops(build_ops(bops, vis) + [test.TestTermOp()])
                    blks.append(b)
                regions.append(Region(blks))
            attrs = {"kind": StringAttr(s["kind"]), "id": IntAttr(s["id"])}
            if s["kind"] == "cnt":
                attrs["cnt"] = IntAttr(s["cnt"])
            nres = s["nres"]
            if s["kind"] == "fwd":
                nres = 1
            op = test.TestOp(operands=operands, result_types=[i32] * nres, regions=regions, attributes=attrs)
            out.append(op)
            if s["kind"] not in ("dead",):  # results of ops that will be erased are never used (the erase pattern is a safe erase)
                vis = vis + list(op.results)
        return out

    return ModuleOp(build_ops(spec["ops"], []))


# ------------------------------------------------------------------ fingerprint (ignores name hints)
def fingerprint(root):
    """Structural identity-free fingerprint of an op tree: names, attributes, result types, operand positions by canonical numbering."""
    num = {}

    def val(v):
        return num.setdefault(id(v), len(num))

    def fop(op):
        for r in op.results:
            val(r)
        return (op.name, tuple(sorted((k, str(v)) for k, v in op.attributes.items())), tuple(str(r.type) for r in op.results),
                tuple(num.get(id(o), ("ext", str(o.type))) if id(o) in num else ("fwd", val(o)) for o in op.operands),
                tuple(tuple((tuple(str(a.type) for a in b.args), tuple(fop(o) for o in b.ops)) for b in r.blocks) for r in op.regions))

    def pre(op):
        for r in op.regions:
            for b in r.blocks:
                for a in b.args:
                    val(a)
                for o in b.ops:
                    for x in o.results:
                        val(x)
                    pre(o)

    pre(root)
    num2 = dict(num)
    num.clear()
    num.update(num2)
    return fop(root)


def all_ops(root):
    return [o for o in root.walk() if o is not root]


def anc_or_self_in(op, pool):
    cur = op
    while cur is not None:
        if id(cur) in pool:
            return True
        cur = cur.parent_op()
    return False


# ------------------------------------------------------------------ patterns
def make_patterns(log, module):
    from xdsl.dialects import test
    from xdsl.dialects.builtin import IntAttr, StringAttr, i32
    from xdsl.pattern_rewriter import PatternRewriter, RewritePattern
    from xdsl.rewriter import InsertPoint

    def kind(op):
        k = op.attributes.get("kind")
        return k.data if k is not None else None

    class Base(RewritePattern):
        def match_and_rewrite(self, op, rewriter: PatternRewriter):
            # observation point of clauses `alive` and `flag`
            inside = op.parent is not None and anc_or_self_in(op, {id(module): 1})
            if not inside:
                log["violations"].append({"key": "C11/alive", "what": f"pattern invoked on detached/erased op {op.name} id={op.attributes.get('id')}"})
                return
            before = fingerprint(module)
            self.rewrite(op, rewriter)
            if fingerprint(module) != before and not rewriter.has_done_action:
                log["violations"].append({"key": "C11/flag", "what": f"{type(self).__name__} mutated the IR but has_done_action is False"})
            log["invocations"] += 1

    class Erase(Base):
        def rewrite(self, op, rw):
            if kind(op) == "dead" and all(not r.uses.get_length() for r in op.results):
                rw.erase(op)

    class Replace(Base):
        def rewrite(self, op, rw):
            if kind(op) == "rep":
                new = test.TestOp(operands=list(op.operands), result_types=[r.type for r in op.results],
                                  attributes={"kind": StringAttr("plain"), "id": op.attributes["id"]})
                rw.replace(op, new)

    class Insert(Base):
        def rewrite(self, op, rw):
            if kind(op) == "ins":
                new = test.TestOp(result_types=[i32], attributes={"kind": StringAttr("dead"), "id": IntAttr(1000 + op.attributes["id"].data)})
                rw.insert(new, InsertPoint.before(op))
                op.attributes["kind"] = StringAttr("plain")
                rw.notify_op_modified(op)

    class Modify(Base):
        def rewrite(self, op, rw):
            if kind(op) == "cnt":
                c = op.attributes["cnt"].data
                if c > 0:
                    op.attributes["cnt"] = IntAttr(c - 1)
                else:
                    op.attributes["kind"] = StringAttr("plain")
                    del op.attributes["cnt"]
                rw.notify_op_modified(op)

    class Inline(Base):
        def rewrite(self, op, rw):
            if kind(op) == "wrap" and len(op.regions) == 1 and len(op.regions[0].blocks) == 1 and not op.results:
                blk = op.regions[0].blocks[0]
                if blk.last_op is not None and blk.last_op.name == "test.termop":
                    rw.erase(blk.last_op)
                rw.inline_block(blk, InsertPoint.before(op))
                rw.erase(op)

    class AddArg(Base):
        def rewrite(self, op, rw):
            if kind(op) == "addarg" and op.regions and op.regions[0].blocks:
                rw.insert_block_argument(op.regions[0].blocks[0], 0, i32)
                op.attributes["kind"] = StringAttr("holder")
                rw.notify_op_modified(op)

    class Forward(Base):
        def rewrite(self, op, rw):
            if kind(op) == "fwd" and len(op.results) == 1 and op.operands and op.operands[0].type == op.results[0].type:
                rw.replace_all_uses_with(op.results[0], op.operands[0])
                rw.erase(op)

    return [Erase(), Replace(), Insert(), Modify(), Inline(), AddArg(), Forward()]


def perturbed_worklist(rnd):
    from xdsl.utils.worklist import Worklist

    class Shuffled(Worklist):
        """Same abstract set as Worklist; pop returns a seeded-random member (perturbed schedule)."""

        def pop(self):
            live = [x for x in self._map]
            if not live:
                raise IndexError("pop from empty worklist")
            x = rnd.choice(live)
            self.remove(x)
            return x

    return Shuffled()


# ------------------------------------------------------------------ one case
@rechecked
def check_case(seed, case, cfg_index, perturb):
    from xdsl.pattern_rewriter import GreedyRewritePatternApplier, PatternRewriterListener, PatternRewriteWalker

    from contracts import ir_native

    rnd = random.Random(f"{seed}/{case}")
    spec = gen(rnd)
    module = build(spec)
    module.verify()
    rec, rev, rfirst = bool(cfg_index & 1), bool(cfg_index & 2), bool(cfg_index & 4)
    log = {"violations": [], "invocations": 0}
    pats = make_patterns(log, module)
    rnd.shuffle(pats)
    before_ops = {id(o): o for o in all_ops(module)}
    before_operands = {id(o): [id(x) for x in o.operands] for o in before_ops.values()}
    fp0 = fingerprint(module)
    ins, rem, mod, rep = {}, {}, {}, {}
    listener = PatternRewriterListener(operation_insertion_handler=[lambda o: ins.__setitem__(id(o), o)],
                                       operation_removal_handler=[lambda o: rem.__setitem__(id(o), o)],
                                       operation_modification_handler=[lambda o: mod.__setitem__(id(o), o)],
                                       operation_replacement_handler=[lambda o, _r: rep.__setitem__(id(o), o)])
    # keep erased ops reachable for the ancestor test: record their parent chain at removal time
    removed_subtrees = {}
    listener.operation_removal_handler.append(lambda o: removed_subtrees.update({id(x): x for x in o.walk()}))
    # half of the cases run with a post-walk function (as canonicalize does with region_dce): after each sweep it turns ONE op of kind "late"
    # (which no pattern matches) into kind "rep" (which the Replace pattern rewrites) and reports it - a recursive walker must sweep again
    use_post = random.Random(f"{seed}/{case}/post").random() < 0.5

    def post_walk(region, lst):
        from xdsl.dialects.builtin import StringAttr

        for o in region.walk():
            k = o.attributes.get("kind")
            if k is not None and k.data == "late":
                o.attributes["kind"] = StringAttr("rep")
                lst.handle_operation_modification(o)
                return True
        return False

    walker = PatternRewriteWalker(GreedyRewritePatternApplier(pats, dce_enabled=False), apply_recursively=rec, walk_reverse=rev,
                                  walk_regions_first=rfirst, listener=listener, post_walk_func=post_walk if use_post else None)
    if perturb:
        walker._worklist = perturbed_worklist(random.Random(f"{seed}/{case}/wl"))  # noqa: SLF001  (the hook named by the property)
    inputs = {"seed": seed, "case": case, "recursive": rec, "reverse": rev, "regions_first": rfirst, "perturbed": perturb, "post_walk_func": use_post}

    def fail(key, what):
        return {"key": key, "what": what, "inputs": inputs, "program": str(build(spec))[:1500]}

    try:
        ret = walker.rewrite_module(module)
    except Exception as e:  # a valid input with a terminating pattern set must not crash the driver
        return fail("C11/alive", f"driver raised {type(e).__name__}: {str(e)[:300]}")
    if log["violations"]:
        v = log["violations"][0]
        return fail(v["key"], v["what"])
    fp1 = fingerprint(module)
    if fp1 != fp0 and not ret:
        return fail("C11/reported", "the IR changed but rewrite_module returned False")
    after_ops = {id(o): o for o in all_ops(module)}
    for i, o in after_ops.items():
        if i not in before_ops and not anc_or_self_in(o, ins):
            return fail("C11/listeners", f"op {o.name} id={o.attributes.get('id')} appeared without an insertion notification")
    for i, o in before_ops.items():
        if i not in after_ops and i not in removed_subtrees:
            return fail("C11/listeners", f"op id={o.attributes.get('id')} disappeared without a removal notification")
        if i in after_ops and [id(x) for x in o.operands] != before_operands[i] and i not in mod:
            return fail("C11/listeners", f"operands of op id={o.attributes.get('id')} changed without a modification notification")
    try:
        module.verify()
        ir_native.check_invariants([module])
    except Exception as e:
        return fail("C11/consistent", f"IR inconsistent after the walk: {type(e).__name__}: {str(e)[:200]}")
    if rec:
        log2 = {"violations": [], "invocations": 0}
        w2 = PatternRewriteWalker(GreedyRewritePatternApplier(make_patterns(log2, module), dce_enabled=False), apply_recursively=False)
        ret2 = w2.rewrite_module(module)
        if ret2 or fingerprint(module) != fp1:
            return fail("C11/fixpoint", "after a recursive walk returned, a further sweep still changes the IR")
    return None


@rechecked
def check_free_region(recursive, n_users):
    """
    The walker run on a FREE-STANDING region (rewrite_region on a Region that no operation owns): a pattern retypes the block argument of the entry block
    - the block has no parent op, so nothing can be told to a listener about "the parent op", but the action flag and the walker's result must still
    report the change, and a recursive walk must reach a fixpoint.
    """
    from xdsl.dialects import test
    from xdsl.dialects.builtin import IntAttr, StringAttr, i32, i64
    from xdsl.ir import Block, Region
    from xdsl.pattern_rewriter import PatternRewriter, PatternRewriteWalker, RewritePattern

    blk = Block(arg_types=[i32])
    ops = [test.TestOp(operands=[blk.args[0]], attributes={"kind": StringAttr("retype" if i == 0 else "plain"), "id": IntAttr(i)}) for i in range(n_users)]
    blk.add_ops(ops + [test.TestTermOp()])
    region = Region([blk])
    log = {"violations": [], "n": 0}

    def text():
        return "|".join(f"{o.name}{sorted((k, str(v)) for k, v in o.attributes.items())}{[str(x.type) for x in o.operands]}" for o in blk.ops) + str([str(a.type) for a in blk.args])

    class Retype(RewritePattern):
        def match_and_rewrite(self, op, rewriter: PatternRewriter):
            k = op.attributes.get("kind")
            if k is None or k.data != "retype":
                return
            before = text()
            rewriter.replace_value_with_new_type(blk.args[0], i64)
            if text() != before and not rewriter.has_done_action:
                log["violations"].append("the pattern changed the type of a block argument but has_done_action is False")
            op.attributes["kind"] = StringAttr("plain")
            rewriter.notify_op_modified(op)
            log["n"] += 1

    t0 = text()
    try:
        ret = PatternRewriteWalker(Retype(), apply_recursively=recursive).rewrite_region(region)
    except Exception as e:  # noqa: BLE001
        return {"key": "C11/free-region", "what": f"rewrite_region raised {type(e).__name__}: {str(e)[:200]}", "inputs": {}}
    if log["violations"]:
        return {"key": "C11/free-region", "what": log["violations"][0], "inputs": {}}
    if text() != t0 and not ret:
        return {"key": "C11/free-region", "what": "the IR changed but rewrite_region returned False", "inputs": {}}
    if str(blk.args[0].type) != "i64":
        return {"key": "C11/free-region", "what": "the block argument was not retyped", "inputs": {}}
    if recursive:
        t1 = text()
        PatternRewriteWalker(Retype(), apply_recursively=False).rewrite_region(region)
        if text() != t1:
            return {"key": "C11/free-region", "what": "after a recursive walk returned, a further sweep still changes the IR", "inputs": {}}
    return None


_FOLD = {}


def folding_ops():
    """Harness-local ops with a folder: `c11.fold0` has NO results and folds away (to the empty sequence) when it carries `fold`; `c11.fold1` has one result and
    folds to its operand.  Neither is pure (the trivial-dead branch does not touch them)."""
    if not _FOLD:
        from xdsl.interfaces import HasFolderInterface
        from xdsl.irdl import IRDLOperation, irdl_op_definition, var_operand_def, var_result_def

        @irdl_op_definition
        class Fold0(IRDLOperation, HasFolderInterface):
            name = "test.c11_fold0"
            ins = var_operand_def()

            def fold(self):
                return () if "fold" in self.attributes else None

        @irdl_op_definition
        class Fold1(IRDLOperation, HasFolderInterface):
            name = "test.c11_fold1"
            ins = var_operand_def()
            outs = var_result_def()

            def fold(self):
                return (self.operands[0],) if "fold" in self.attributes and len(self.operands) == 1 and len(self.results) == 1 else None

        _FOLD.update(f0=Fold0, f1=Fold1)
    return _FOLD


@rechecked
def check_folding(layout, dce):
    """The applier with folding_enabled: an op that folds (also to ZERO results) is replaced through the rewriter and NO pattern is then invoked on it."""
    from xdsl.context import Context
    from xdsl.dialects import test
    from xdsl.dialects.builtin import Builtin, ModuleOp, UnitAttr, i32
    from xdsl.pattern_rewriter import GreedyRewritePatternApplier, PatternRewriter, PatternRewriteWalker, RewritePattern

    F = folding_ops()
    src = test.TestOp.create(result_types=[i32])
    ops = [src]
    for ch in layout:
        attrs = {"fold": UnitAttr()} if ch.isupper() else {}
        if ch.lower() == "z":
            ops.append(F["f0"].create(operands=[src.results[0]], attributes=attrs))
        else:
            o = F["f1"].create(operands=[src.results[0]], result_types=[i32], attributes=attrs)
            ops += [o, test.TestOp.create(operands=[o.results[0]])]
    module = ModuleOp(ops)
    bad = []

    class Log(RewritePattern):
        def match_and_rewrite(self, op, rewriter: PatternRewriter):
            if op.parent is None and op is not module:
                bad.append(op.name)

    ctx = Context()
    ctx.load_dialect(Builtin)
    try:
        PatternRewriteWalker(GreedyRewritePatternApplier([Log()], ctx, folding_enabled=True, dce_enabled=dce)).rewrite_module(module)
    except Exception as e:  # noqa: BLE001
        return {"key": "C11/alive", "what": f"driver raised {type(e).__name__}: {str(e)[:160]}", "inputs": {"layout": layout, "dce_enabled": dce}}
    if bad:
        return {"key": "C11/alive", "what": f"a pattern was invoked on {bad[0]} after the applier had folded it away (it is detached)", "inputs": {"layout": layout, "dce_enabled": dce}}
    left = [o.name for o in module.body.block.ops if "fold" in o.attributes]
    if left:
        return {"key": "C11/fixpoint", "what": f"a foldable op {left[0]} is left after the walk with folding enabled", "inputs": {"layout": layout, "dce_enabled": dce}}
    return None


def explore_folding(tier, seed):
    fails, cases = [], 0
    for layout in ("Z", "z", "O", "o", "ZO", "OZ", "zZo", "ZZ"):
        for dce in (False, True):
            cases += 1
            f = check_folding(layout, dce)
            if f and not fails:
                fails.append(f)
    return {"cases": cases, "failures": fails, "exhaustive": True, "nontrivial": cases,
            "bound": "GreedyRewritePatternApplier with folding_enabled on modules with zero-result and one-result foldable ops (folding or not), dce on/off: no pattern runs on a folded-away op"}


def explore_free_region(tier, seed):
    fails, cases = [], 0
    for rec in (False, True):
        for n in (1, 2, 3):
            cases += 1
            f = check_free_region(rec, n)
            if f and not fails:
                fails.append(f)
    return {"cases": cases, "failures": fails, "exhaustive": True, "nontrivial": cases,
            "bound": "rewrite_region on a free-standing region whose entry-block argument is retyped by a pattern (1-3 users, recursive or not): action flag, returned flag, fixpoint"}


def explore(tier, seed, shard=0, shards=1):
    n = 120 if tier == "quick" else 1600
    fails, cases = [], 0
    seen = set()
    for case in range(shard, n, shards):
        for cfg in range(8):
            for perturb in (False, True):
                cases += 1
                f = check_case(seed, case, cfg, perturb)
                if f and f["key"] not in seen:
                    seen.add(f["key"])
                    fails.append(f)
    return {"cases": cases, "failures": fails, "exhaustive": False, "nontrivial": cases,
            "bound": f"{n} seeded nested test-dialect modules (<= 13 ops, nesting depth <= 3; 11 op kinds) x 7 terminating patterns in seeded order x 8 walk "
                     "configurations x {stock LIFO worklist, worklist popping a seeded-random member}; half of the modules with a post-walk function that enables a pattern after a sweep"}


SHARDS = 8
NATIVE = [(f"walker-postconditions-{i}", (lambda i: lambda tier, seed: explore(tier, seed, i, SHARDS))(i)) for i in range(SHARDS)] + [("free-standing-region", explore_free_region), ("folding", explore_folding)]
