"""Bounded stand-in for C11 (filled in below)."""
