"""
C02 — Cloning yields an independent equivalent copy and leaves other IR untouched.

Statement (quoted): "Cloning an operation or a region produces IR equivalent to the source in which
every reference to a value or block defined inside the cloned part points to its copy and every
reference to something outside is unchanged.  Cloning modifies neither the source nor any IR
already present in the destination, and later edits to the copy are never visible in the source
(and vice versa); applying a pass to a clone leaves the original module unchanged."

Proved: Operation.clone_without_regions (operand / successor remapping through the mappers, fresh
attribute and property dictionaries, results registered in the value mapper, frames) and Operation.clone
(after its final walk every operand of every op of the copy is the image of the source operand under
the FINAL value mapper - own results and use-before-def included - and no operand list of the source
changes) and Region.clone_into in the form Operation.clone calls it (clone_operands=False: every block
argument and every value defined by or inside an op of the region is registered in the value mapper,
entries for values defined elsewhere keep their image, nothing that existed before is touched).
Operation.clone and Region.clone_into are verified against EACH OTHER'S discharged contract (mutual
recursion over a finite tree: partial correctness) on top of clone_without_regions' contract.
The whole-tree statement (isomorphism of the copy, Region.clone / clone_into with clone_operands=True,
apply_to_clone) is decided by the bounded stand-in with an independent isomorphism oracle.
"""

from __future__ import annotations

import os

import z3

from contracts import C02_native as N02
from contracts.common import A, AX, C, forall
from pyvc.spec import Builtin, Inline, Spec
from pyvc.values import Unsupported
from pyvc.values import Clause, VBool, VInt, VRef, VSeq, VTuple, Vocab, z_int

PROP = "C02"
CORE = "xdsl/ir/core.py"
I = z3.IntSort()
VOCAB = Vocab({"_operands": "seq:ref:SSAValue", "_successors": "seq:ref:Block", "results": "seq:ref:OpResult", "regions": "seq:ref:Region",
               "attributes": "dict:ref:ref", "properties": "dict:ref:ref", "location": "ref", "_name": "ref"})

TYPE = z3.Function("type_of", I, I)


class Create(Spec):
    """Operation.create(...) as seen by clone_without_regions (trusted allocation contract)."""

    prop, file, qualname = PROP, CORE, "Operation.create"
    trusted = True


class CloneWithoutRegions(Spec):
    prop, file, qualname = PROP, CORE, "Operation.clone_without_regions"
    modifies = ["dict#dom", "dict#val"]

    def setup(self, st, inst):
        me = st.declare_input("self", z3.Int("self"))
        vm = st.declare_input("value_mapper", z3.Int("value_mapper"))
        bm = st.declare_input("block_mapper", z3.Int("block_mapper"))
        self.flags = inst
        return {"self": VRef(me, "Operation"), "value_mapper": VRef(vm, "dict", ("dict", "ref", "ref")),
                "block_mapper": VRef(bm, "dict", ("dict", "ref", "ref")), "clone_name_hints": inst["hints"], "clone_operands": inst["operands"],
                "_me": me, "_vm": vm, "_bm": bm}

    @property
    def globals(self):
        def setter_name_hint(ex, st, args, kw):
            from pyvc.engine import Res

            st.store("_name", args[0].z, z_int(args[1]))
            return [Res("val", None, st)]

        return {"__setters__": {"name_hint": Builtin(setter_name_hint, "name_hint setter stores the (validated) name")}}

    @property
    def calls(self):
        spec = self

        def b_create(ex, st, args, kw):
            """A new operation with the given operands / successors / dictionaries; result values are fresh, typed as requested."""
            from pyvc import arith
            from pyvc.engine import Res

            r = st.new_object("op")
            opnds = arith.as_seq(ex.to_seq_value(kw["operands"], st))
            succ = arith.as_seq(ex.to_seq_value(kw["successors"], st))
            st.seq_store("_operands", r, opnds.arr, opnds.n)
            st.seq_store("_successors", r, succ.arr, succ.n)
            st.store("attributes", r, kw["attributes"].z)
            st.store("properties", r, kw["properties"].z)
            st.store("location", r, z_int(kw["location"]))
            n = spec.rt.n
            res = st.fresh("new_results", z3.ArraySort(I, I))
            j, k = z3.Ints("cr!j cr!k")
            alloc0 = st.alloc()
            st.assume(forall([j], z3.Implies(z3.And(j >= 0, j < n), z3.And(res[j] != 0, z3.Not(alloc0[res[j]]), TYPE(res[j]) == spec.rt.arr[j]))))
            st.assume(forall([j, k], z3.Implies(z3.And(j >= 0, k >= 0, j < n, k < n, j != k), res[j] != res[k])))
            st.seq_store("results", r, res, n)
            regs = arith.as_seq(ex.to_seq_value(kw["regions"], st))
            st.seq_store("regions", r, regs.arr, regs.n)
            st.ghost["created"] = r  # per-path record
            return [Res("val", VRef(r, "Operation"), st)]

        b_create.ghost_modifies = ["created"]
        return {"self.create": Builtin(b_create, "Operation.create: TRUSTED allocation contract")}

    def bind(self, st, a, inst):
        me = a["_me"]
        j = z3.Int("rt!j")
        res = VSeq(st.seq_arr("results", me), st.seq_len("results", me), "ref", "OpResult")
        # self.result_types = tuple(r.type for r in self.results)
        self.rt = VSeq(z3.Lambda([j], TYPE(z3.Select(res.arr, j))), res.n, "ref")
        nreg = st.seq_len("regions", me)
        self.new_regions = VSeq(z3.Array("fresh_regions", I, I), nreg, "ref", "Region")
        return {"self.result_types": self.rt, "[Region() for _ in self.regions]": self.new_regions,
                "self_result.name_hint": VRef(z3.Int("some_name"), "str")}

    def pre(self, st, a):
        me, vm, bm = a["_me"], a["_vm"], a["_bm"]
        al = st.alloc()
        j = z3.Int("pr!j")
        return [A("objects", z3.And(me != 0, vm != 0, bm != 0, vm != bm, st.sel("attributes", me) != 0, st.sel("properties", me) != 0,
                                    z3.Distinct(vm, bm, st.sel("attributes", me), st.sel("properties", me)))),
                A("allocated", z3.And(al[me], al[vm], al[bm], al[st.sel("attributes", me)], al[st.sel("properties", me)])),
                A("lengths", z3.And(st.seq_len("_operands", me) >= 0, st.seq_len("_successors", me) >= 0, st.seq_len("results", me) >= 0,
                                    st.seq_len("regions", me) >= 0)),
                A("results-are-objects", forall([j], z3.Implies(z3.And(j >= 0, j < st.seq_len("results", me)),
                                                                z3.And(st.seq_el("results", me, j) != 0, al[st.seq_el("results", me, j)])))),
                A("results-distinct", forall([j, z3.Int("pr!k")], z3.Implies(z3.And(j >= 0, z3.Int("pr!k") >= 0, j < st.seq_len("results", me),
                                                                               z3.Int("pr!k") < st.seq_len("results", me), j != z3.Int("pr!k")),
                                                                        st.seq_el("results", me, j) != st.seq_el("results", me, z3.Int("pr!k")))))]

    def inv(self, n, entry, st, a, lv):
        # for self_result, cloned_result in zip(self.results, cloned_op.results): value_mapper[self_result] = cloned_result
        me, vm = a["_me"], a["_vm"]
        new = st.ghost["created"]
        k = lv["k"]
        j, x, d = z3.Ints("iv!j iv!x iv!d")
        sr = lambda i: entry.seq_el("results", me, i)
        nr = lambda i: entry.seq_el("results", new, i)
        in_prefix = lambda y: z3.Exists([j], z3.And(j >= 0, j < k, sr(j) == y))
        return [A("mapped-prefix", forall([j], z3.Implies(z3.And(j >= 0, j < k), z3.And(st.dict_has(vm, sr(j)), st.dict_val(vm, sr(j)) == nr(j))))),
                A("rest-of-mapper-unchanged", forall([x], z3.Implies(z3.Not(in_prefix(x)), z3.And(st.dict_has(vm, x) == entry.dict_has(vm, x),
                                                                                                     st.dict_val(vm, x) == entry.dict_val(vm, x))))),
                A("other-dicts-unchanged", forall([d], z3.Implies(d != vm, z3.And(st.dict_dom(d) == entry.dict_dom(d), st.dict_vals(d) == entry.dict_vals(d))))),
                A("only-names-change", z3.And(*[st.heap[h] == entry.heap[h] for h in entry.heap if h in st.heap and h not in ("_name", "dict#dom", "dict#val", "alloc")]))]

    def post(self, old, st, a, res):
        me, vm, bm = a["_me"], a["_vm"], a["_bm"]
        r = res.z
        j, x, d = z3.Ints("po!j po!x po!d")
        no, ns = old.seq_len("_operands", me), old.seq_len("_successors", me)
        map_v = lambda v: z3.If(old.dict_has(vm, v), old.dict_val(vm, v), v)
        map_b = lambda v: z3.If(old.dict_has(bm, v), old.dict_val(bm, v), v)
        out = [C("copy-is-a-new-object", z3.And(r != 0, r != me, z3.Not(old.alloc()[r])))]
        if a["clone_operands"]:
            out += [C("same-number-of-operands", st.seq_len("_operands", r) == no),
                    C("operands-remapped-inside-kept-outside", forall([j], z3.Implies(z3.And(j >= 0, j < no),
                                                                                      st.seq_el("_operands", r, j) == map_v(old.seq_el("_operands", me, j)))))]
        else:
            out.append(C("no-operands", st.seq_len("_operands", r) == 0))
        out += [
            C("same-number-of-successors", st.seq_len("_successors", r) == ns),
            C("successors-remapped-inside-kept-outside", forall([j], z3.Implies(z3.And(j >= 0, j < ns),
                                                                                st.seq_el("_successors", r, j) == map_b(old.seq_el("_successors", me, j))))),
            C("result-types-equal", z3.And(st.seq_len("results", r) == old.seq_len("results", me), forall([j], z3.Implies(
                z3.And(j >= 0, j < old.seq_len("results", me)), TYPE(st.seq_el("results", r, j)) == TYPE(old.seq_el("results", me, j)))))),
            C("attributes-copied-not-shared", z3.And(st.sel("attributes", r) != old.sel("attributes", me),
                                                     st.dict_dom(st.sel("attributes", r)) == old.dict_dom(old.sel("attributes", me)),
                                                     st.dict_vals(st.sel("attributes", r)) == old.dict_vals(old.sel("attributes", me)))),
            C("properties-copied-not-shared", z3.And(st.sel("properties", r) != old.sel("properties", me),
                                                     st.dict_dom(st.sel("properties", r)) == old.dict_dom(old.sel("properties", me)),
                                                     st.dict_vals(st.sel("properties", r)) == old.dict_vals(old.sel("properties", me)))),
            C("same-number-of-regions", st.seq_len("regions", r) == old.seq_len("regions", me)),
            C("results-registered-in-value-mapper", forall([j], z3.Implies(z3.And(j >= 0, j < old.seq_len("results", me)), z3.And(
                st.dict_has(vm, old.seq_el("results", me, j)), st.dict_val(vm, old.seq_el("results", me, j)) == st.seq_el("results", r, j))))),
            C("source-op-untouched", z3.And(
                st.seq_len("_operands", me) == no, st.seq_arr("_operands", me) == old.seq_arr("_operands", me),
                st.seq_len("_successors", me) == ns, st.seq_arr("_successors", me) == old.seq_arr("_successors", me),
                st.seq_arr("results", me) == old.seq_arr("results", me), st.sel("attributes", me) == old.sel("attributes", me),
                st.dict_dom(old.sel("attributes", me)) == old.dict_dom(old.sel("attributes", me)),
                st.dict_vals(old.sel("properties", me)) == old.dict_vals(old.sel("properties", me)))),
            C("block-mapper-untouched", z3.And(st.dict_dom(bm) == old.dict_dom(bm), st.dict_vals(bm) == old.dict_vals(bm))),
            C("other-entries-of-the-value-mapper-untouched", forall([x], z3.Implies(
                forall([j], z3.Implies(z3.And(j >= 0, j < old.seq_len("results", me)), old.seq_el("results", me, j) != x)),
                z3.And(st.dict_has(vm, x) == old.dict_has(vm, x), st.dict_val(vm, x) == old.dict_val(vm, x))))),
            C("no-pre-existing-dictionary-other-than-the-value-mapper-changes", forall([d], z3.Implies(z3.And(d != vm, old.alloc()[d]),
                                                                                                        z3.And(st.dict_dom(d) == old.dict_dom(d), st.dict_vals(d) == old.dict_vals(d))))),
        ]
        return out

    def native_search(self, inst, seed):
        r = N02.explore("quick", seed)
        return r["failures"][0] if r["failures"] else None



# =============================================================================== Operation.clone (remap walk)
WALK = z3.Function("walk_of", I, z3.ArraySort(I, I))  # pre-order walk of an op tree (the op itself first)
NWALK = z3.Function("n_walk_of", I, I)
INSIDE_R = z3.Function("defined_inside_region", I, I, z3.BoolSort())  # value v is a block argument / op result defined inside region r
INSIDE_O = z3.Function("defined_by_or_inside_op", I, I, z3.BoolSort())  # value v is a result of op o or defined inside one of o's regions
A_II = z3.ArraySort(I, I)
BLOCKS, NBLOCKS = z3.Function("blocks_of_region", I, A_II), z3.Function("n_blocks_of_region", I, I)
OPSB, NOPSB = z3.Function("ops_of_block", I, A_II), z3.Function("n_ops_of_block", I, I)
ARGSB, NARGSB = z3.Function("args_of_block", I, A_II), z3.Function("n_args_of_block", I, I)
# Skolem witnesses of the two definitions (where an inside value is defined)
BI, AI, OI = (z3.Function(n, I, I, I) for n in ("block_index_of_inside_value", "arg_index_of_inside_value", "op_index_of_inside_value"))
RI, GI = (z3.Function(n, I, I, I) for n in ("result_index_of_inside_value", "region_index_of_inside_value"))


def is_arg_of_region(r, x):
    """x is a block argument of a block of r (the first disjunct of the definition, with its witnesses)."""
    bx = BLOCKS(r)[BI(r, x)]
    return z3.And(INSIDE_R(r, x), AI(r, x) >= 0, AI(r, x) < NARGSB(bx), x == ARGSB(bx)[AI(r, x)])


def inside_region_def(r):
    """INSIDE_R(r, .) unfolded one level (definition, both directions): a block argument of a block of r, or defined by/inside an op of a block of r."""
    x, k, i = z3.Ints("ir!x ir!k ir!i")
    b = lambda kk: BLOCKS(r)[kk]
    bx = b(BI(r, x))
    return [AX("defined-inside-region: only if", forall([x], z3.Implies(INSIDE_R(r, x), z3.And(
                BI(r, x) >= 0, BI(r, x) < NBLOCKS(r),
                z3.Or(z3.And(AI(r, x) >= 0, AI(r, x) < NARGSB(bx), x == ARGSB(bx)[AI(r, x)]),
                      z3.And(OI(r, x) >= 0, OI(r, x) < NOPSB(bx), INSIDE_O(OPSB(bx)[OI(r, x)], x))))), patterns=[INSIDE_R(r, x)])),
            AX("defined-inside-region: if block argument", forall([k, i], z3.Implies(z3.And(k >= 0, k < NBLOCKS(r), i >= 0, i < NARGSB(b(k))),
                                                                                      INSIDE_R(r, ARGSB(b(k))[i])), patterns=[ARGSB(b(k))[i]])),
            AX("defined-inside-region: if inside an op", forall([k, i, x], z3.Implies(z3.And(k >= 0, k < NBLOCKS(r), i >= 0, i < NOPSB(b(k)), INSIDE_O(OPSB(b(k))[i], x)),
                                                                                       INSIDE_R(r, x)), patterns=[INSIDE_O(OPSB(b(k))[i], x)]))]


def inside_op_def(st, o):
    """INSIDE_O(o, .) unfolded one level (definition, both directions): a result of o, or defined inside one of o's regions (lists read in state st)."""
    x, j = z3.Ints("io!x io!j")
    nres, nreg = st.seq_len("results", o), st.seq_len("regions", o)
    return [AX("defined-by-or-inside-op: only if", forall([x], z3.Implies(INSIDE_O(o, x), z3.Or(
                z3.And(RI(o, x) >= 0, RI(o, x) < nres, x == st.seq_el("results", o, RI(o, x))),
                z3.And(GI(o, x) >= 0, GI(o, x) < nreg, INSIDE_R(st.seq_el("regions", o, GI(o, x)), x)))), patterns=[INSIDE_O(o, x)])),
            AX("defined-by-or-inside-op: if result", forall([j], z3.Implies(z3.And(j >= 0, j < nres), INSIDE_O(o, st.seq_el("results", o, j))),
                                                            patterns=[st.seq_el("results", o, j)])),
            AX("defined-by-or-inside-op: if inside a region", forall([j, x], z3.Implies(z3.And(j >= 0, j < nreg, INSIDE_R(st.seq_el("regions", o, j), x)), INSIDE_O(o, x)),
                                                                     patterns=[INSIDE_R(st.seq_el("regions", o, j), x)]))]


def b_set_operands(ex, st, args, kw):
    """`op.operands = values` (setter): the operand tuple is replaced (use-list maintenance is C01's contract)."""
    from pyvc import arith
    from pyvc.engine import Res

    sq = arith.as_seq(ex.to_seq_value(args[1], st))
    st.seq_store("_operands", args[0].z, sq.arr, sq.n)
    return [Res("val", None, st)]


b_set_operands.modifies = ["_operands#len", "_operands#el"]


class CwrCallee(CloneWithoutRegions):
    """clone_without_regions as seen by Operation.clone: its discharged postcondition."""

    def result_value(self, st, a):
        return VRef(st.new_object("clone"), "Operation")

    def pre(self, st, a):
        return []

    def post(self, old, st, a, res):
        a2 = dict(a, _me=a["self"].z, _vm=a["value_mapper"].z, _bm=a["block_mapper"].z)
        return [Clause(c.name, c.z, "aux") for c in CloneWithoutRegions.post(self, old, st, a2, res)]


def clone_into_post(old, st, r, vm, bm):
    """The contract of Region.clone_into(dest, idx, value_mapper, block_mapper, clone_operands=False) - proved by unit CloneInto, used by Operation.clone."""
    x, d, o = z3.Ints("ci!x ci!d ci!o")
    return [("no-entry-of-the-value-mapper-is-removed", forall([x], z3.Implies(old.dict_has(vm, x), st.dict_has(vm, x)))),
            ("entries-for-values-defined-outside-the-region-are-kept", forall([x], z3.Implies(z3.And(old.dict_has(vm, x), z3.Not(INSIDE_R(r, x))),
                                                                                                 st.dict_val(vm, x) == old.dict_val(vm, x)))),
            ("every-value-defined-inside-the-region-is-registered", forall([x], z3.Implies(INSIDE_R(r, x), st.dict_has(vm, x)))),
            ("every-block-argument-of-the-region-is-mapped-to-a-value-created-by-this-call (never to a pre-existing image the caller's mapper happened to hold)",
             forall([d, o], z3.Implies(z3.And(d >= 0, d < NBLOCKS(r), o >= 0, o < NARGSB(BLOCKS(r)[d])), z3.And(
                 st.dict_val(vm, ARGSB(BLOCKS(r)[d])[o]) != 0, z3.Not(old.alloc()[st.dict_val(vm, ARGSB(BLOCKS(r)[d])[o])]))))),
            ("pre-existing-dictionaries-other-than-the-mappers-unchanged", forall([d], z3.Implies(z3.And(d != vm, d != bm, old.alloc()[d]),
                                                                                                     z3.And(st.dict_dom(d) == old.dict_dom(d), st.dict_vals(d) == old.dict_vals(d))))),
            ("pre-existing-operand-lists-untouched", forall([o], z3.Implies(old.alloc()[o], z3.And(st.seq_len("_operands", o) == old.seq_len("_operands", o),
                                                                                                    st.seq_arr("_operands", o) == old.seq_arr("_operands", o)))))]


class CloneIntoCallee(Spec):
    """Region.clone_into(dest, 0, value_mapper, block_mapper, clone_operands=False) as seen by Operation.clone: the postcondition discharged by unit CloneInto."""

    prop, file, qualname = PROP, CORE, "Region.clone_into"
    modifies = ["dict#dom", "dict#val", "_operands#len", "_operands#el"]

    def post(self, old, st, a, res):
        return [Clause(n, z, "aux") for n, z in clone_into_post(old, st, a["self"].z, a["value_mapper"].z, a["block_mapper"].z)]


class CloneOp(Spec):
    """
    Operation.clone: after the final walk every operand of every op of the copy is the image, under the FINAL value mapper, of the
    corresponding operand of the source (so references to values defined anywhere inside - the op's own results included - point into the
    copy, whatever the definition order), and no operand list of the source changes.
    """

    prop, file, qualname = PROP, CORE, "Operation.clone"
    modifies = ["dict#dom", "dict#val", "_operands#len", "_operands#el"]

    def __init__(self):
        spec = self

        def b_walk(ex, st, args, kw):
            from pyvc.engine import Res

            o = args[0].z
            if not o.eq(spec._me):
                # ASSUMED shape of the copy (from the contracts of the cloning callees): same walk length as the source, fresh pairwise distinct ops
                st.assume(spec._copy_walk_axioms(z3.Const("H0.alloc", z3.ArraySort(I, z3.BoolSort())), spec._me, o))
            return [Res("val", VSeq(WALK(o), NWALK(o), "ref", "Operation"), st)]

        self.calls = {"self.clone_without_regions": CwrCallee(), "region.clone_into": CloneIntoCallee(),
                      ".walk": Builtin(b_walk, "op.walk(): the pre-order sequence of the op tree (uninterpreted); for the copy: same length as the source's, fresh distinct ops (ASSUMED)")}

    @property
    def globals(self):
        def getattr_(ex, st, base, attr):
            if attr == "operands":
                return VSeq(st.seq_arr("_operands", base.z), st.seq_len("_operands", base.z), "ref", "SSAValue")
            return None

        return {"__getattr__": getattr_, "__setters__": {"operands": Builtin(b_set_operands, b_set_operands.__doc__)}}

    def setup(self, st, inst):
        me = st.declare_input("self", z3.Int("self"))
        vm = st.declare_input("value_mapper", z3.Int("value_mapper"))
        bm = st.declare_input("block_mapper", z3.Int("block_mapper"))
        return {"self": VRef(me, "Operation"), "value_mapper": VRef(vm, "dict", ("dict", "ref", "ref")), "block_mapper": VRef(bm, "dict", ("dict", "ref", "ref")),
                "clone_name_hints": inst["hints"], "clone_operands": inst["operands"], "_me": me, "_vm": vm, "_bm": bm}

    def pre(self, st, a):
        cw = CloneWithoutRegions()
        out = CloneWithoutRegions.pre(cw, st, a)
        me = a["_me"]
        self._me = me
        self._fentry = st.snapshot()
        o, j, k = z3.Ints("cp!o cp!j cp!k")
        al = st.alloc()
        out += [AX("walk: the op itself comes first", forall([o], z3.Implies(o != 0, z3.And(NWALK(o) >= 1, WALK(o)[0] == o)), patterns=[NWALK(o)])),
                A("the source tree is allocated", forall([j], z3.Implies(z3.And(j >= 0, j < NWALK(me)), z3.And(WALK(me)[j] != 0, al[WALK(me)[j]])))),
                A("operand-lists-have-lengths", forall([o], st.seq_len("_operands", o) >= 0)),
                A("regions-are-objects", forall([j], z3.Implies(z3.And(j >= 0, j < st.seq_len("regions", me)), st.seq_el("regions", me, j) != 0)))]
        out += inside_op_def(st, me)
        out.append(A("a-value-has-one-definition: the op's own results are not defined inside its regions",
                     forall([j, k], z3.Implies(z3.And(j >= 0, j < st.seq_len("results", me), k >= 0, k < st.seq_len("regions", me)),
                                               z3.Not(INSIDE_R(st.seq_el("regions", me, k), st.seq_el("results", me, j)))))))
        return out

    def _copy_walk_axioms(self, entry_alloc, me, op):
        """ASSUMED shape of the copy (from the contracts of the cloning callees): same walk length, fresh pairwise distinct ops."""
        j, k = z3.Ints("cw!j cw!k")
        return z3.And(NWALK(op) == NWALK(me),
                      forall([j], z3.Implies(z3.And(j >= 0, j < NWALK(op)), z3.And(WALK(op)[j] != 0, z3.Not(entry_alloc[WALK(op)[j]])))),
                      forall([j, k], z3.Implies(z3.And(j >= 0, k >= 0, j < NWALK(op), k < NWALK(op), j != k), WALK(op)[j] != WALK(op)[k])))

    def inv(self, n, entry, st, a, lv):
        me, vm, bm = a["_me"], a["_vm"], a["_bm"]
        x, d, j, i = z3.Ints("ci!x ci!d ci!j ci!i")
        env = lv["env"]
        op = env["op"].z
        if n == 0:
            # for idx, region in enumerate(self.regions): region.clone_into(...)
            fe = self._fentry
            reg = lambda jj: fe.seq_el("regions", me, jj)
            return [A("no-entry-removed", forall([x], z3.Implies(entry.dict_has(vm, x), st.dict_has(vm, x)))),
                    A("entries-for-values-defined-elsewhere-kept", forall([x], z3.Implies(z3.And(entry.dict_has(vm, x), z3.Not(INSIDE_O(me, x))),
                                                                                            st.dict_val(vm, x) == entry.dict_val(vm, x)))),
                    A("own-result-entries-kept", forall([j], z3.Implies(z3.And(j >= 0, j < fe.seq_len("results", me)),
                                                                          st.dict_val(vm, fe.seq_el("results", me, j)) == entry.dict_val(vm, fe.seq_el("results", me, j))))),
                    A("inside-values-of-processed-regions-registered", forall([j, x], z3.Implies(z3.And(j >= 0, j < lv["k"], INSIDE_R(reg(j), x)), st.dict_has(vm, x)))),
                    A("pre-existing-operand-lists-untouched", forall([i], z3.Implies(fe.alloc()[i], z3.And(st.seq_len("_operands", i) == entry.seq_len("_operands", i),
                                                                                                             st.seq_arr("_operands", i) == entry.seq_arr("_operands", i))))),
                    A("pre-existing-dicts-unchanged", forall([d], z3.Implies(z3.And(d != vm, d != bm, fe.alloc()[d]),
                                                                               z3.And(st.dict_dom(d) == entry.dict_dom(d), st.dict_vals(d) == entry.dict_vals(d))))),
                    A("regions-and-results-of-all-ops-unchanged", z3.And(st.fld("regions#len") == entry.fld("regions#len"), st.arr2("regions#el") == entry.arr2("regions#el"),
                                                                         st.fld("results#len") == entry.fld("results#len"), st.arr2("results#el") == entry.arr2("results#el")))]
        # for old, new in zip(self.walk(), op.walk()): new.operands = tuple(value_mapper.get(operand, operand) for operand in old.operands)
        k = lv["k"]
        m = lambda v: z3.If(entry.dict_has(vm, v), entry.dict_val(vm, v), v)
        return [A("remapped-prefix", forall([j], z3.Implies(z3.And(j >= 0, j < k), z3.And(
                    st.seq_len("_operands", WALK(op)[j]) == entry.seq_len("_operands", WALK(me)[j]),
                    forall([i], z3.Implies(z3.And(i >= 0, i < entry.seq_len("_operands", WALK(me)[j])),
                                           st.seq_el("_operands", WALK(op)[j], i) == m(entry.seq_el("_operands", WALK(me)[j], i)))))))),
                A("other-operand-lists-untouched", forall([x], z3.Implies(forall([j], z3.Implies(z3.And(j >= 0, j < k), x != WALK(op)[j])),
                                                                            z3.And(st.seq_len("_operands", x) == entry.seq_len("_operands", x), st.seq_arr("_operands", x) == entry.seq_arr("_operands", x))))),
                A("mappers-unchanged", z3.And(st.arr2("dict#dom", True) == entry.arr2("dict#dom", True), st.arr2("dict#val") == entry.arr2("dict#val")))]

    def post(self, old, st, a, res):
        me, vm = a["_me"], a["_vm"]
        op = res.z
        j, i, x = z3.Ints("cq!j cq!i cq!x")
        m = lambda v: z3.If(st.dict_has(vm, v), st.dict_val(vm, v), v)
        out = [C("copy-is-a-new-object", z3.And(op != 0, op != me, z3.Not(old.alloc()[op]))),
               C("no-operand-list-of-the-source-changes", forall([j], z3.Implies(z3.And(j >= 0, j < NWALK(me)), z3.And(
                   st.seq_len("_operands", WALK(me)[j]) == old.seq_len("_operands", WALK(me)[j]), st.seq_arr("_operands", WALK(me)[j]) == old.seq_arr("_operands", WALK(me)[j]))))),
               C("own-results-are-registered-in-the-final-mapper", forall([j], z3.Implies(z3.And(j >= 0, j < old.seq_len("results", me)), z3.And(
                   st.dict_has(vm, old.seq_el("results", me, j)), st.dict_val(vm, old.seq_el("results", me, j)) == st.seq_el("results", op, j))))),
               C("values-defined-inside-the-regions-are-registered-in-the-final-mapper",
                 forall([j, x], z3.Implies(z3.And(j >= 0, j < old.seq_len("regions", me), INSIDE_R(old.seq_el("regions", me, j), x)), st.dict_has(vm, x))))]
        d, o = z3.Ints("cq!d cq!o")
        bm = a["_bm"]
        out += [C("every-value-defined-by-the-op-or-inside-it-is-registered", forall([x], z3.Implies(INSIDE_O(me, x), st.dict_has(vm, x)))),
                C("no-entry-of-the-value-mapper-is-removed", forall([x], z3.Implies(old.dict_has(vm, x), st.dict_has(vm, x)))),
                C("entries-for-values-defined-elsewhere-are-kept", forall([x], z3.Implies(z3.And(old.dict_has(vm, x), z3.Not(INSIDE_O(me, x))),
                                                                                            st.dict_val(vm, x) == old.dict_val(vm, x)))),
                C("pre-existing-dictionaries-other-than-the-mappers-unchanged", forall([d], z3.Implies(z3.And(d != vm, d != bm, old.alloc()[d]),
                                                                                                         z3.And(st.dict_dom(d) == old.dict_dom(d), st.dict_vals(d) == old.dict_vals(d))))),
                C("pre-existing-operand-lists-untouched", forall([o], z3.Implies(old.alloc()[o], z3.And(st.seq_len("_operands", o) == old.seq_len("_operands", o),
                                                                                                         st.seq_arr("_operands", o) == old.seq_arr("_operands", o)))))]
        if a["clone_operands"]:
            out.append(C("every-operand-of-the-copy-is-the-image-of-the-source-operand-under-the-final-mapper (inside references point into the copy, outside ones are kept)",
                         forall([j], z3.Implies(z3.And(j >= 0, j < NWALK(me)), z3.And(
                             st.seq_len("_operands", WALK(op)[j]) == old.seq_len("_operands", WALK(me)[j]),
                             forall([i], z3.Implies(z3.And(i >= 0, i < old.seq_len("_operands", WALK(me)[j])),
                                                    st.seq_el("_operands", WALK(op)[j], i) == m(old.seq_el("_operands", WALK(me)[j], i)))))))))
        return out

    def native_search(self, inst, seed):
        r = N02.explore("quick", seed)
        return r["failures"][0] if r["failures"] else None


WALKR, NWALKR = z3.Function("walk_of_region", I, z3.ArraySort(I, I)), z3.Function("n_walk_of_region", I, I)  # pre-order walk of all ops of a region
NEWWALK = z3.Function("walk_of_the_blocks_created_for_region", I, z3.ArraySort(I, I))


class CloneOpCallee(CloneOp):
    """Operation.clone(value_mapper, block_mapper, clone_operands=False) as seen by Region.clone_into: its discharged postcondition."""

    def __init__(self):
        pass

    modifies = ["dict#dom", "dict#val", "_operands#len", "_operands#el"]

    def result_value(self, st, a):
        return VRef(st.new_object("op_clone"), "Operation")

    def pre(self, st, a):
        return []

    def post(self, old, st, a, res):
        co = a["clone_operands"]
        a2 = dict(a, _me=a["self"].z, _vm=a["value_mapper"].z, _bm=a["block_mapper"].z, clone_operands=bool(co) if isinstance(co, bool) else co)
        if not isinstance(a2["clone_operands"], bool):
            raise Unsupported("clone_operands must be a literal at this call")
        return [Clause(c.name, c.z, "aux") for c in CloneOp.post(self, old, st, a2, res)]


class CloneInto(Spec):
    """
    Region.clone_into(dest, insert_index, value_mapper, block_mapper, clone_operands=False) - the form Operation.clone calls: every block argument and
    every value defined by or inside an op of the region ends up registered in the value mapper; entries for values defined outside the region keep
    their image; no entry is removed; dictionaries and operand lists that existed before the call are untouched.  Operation.clone is used through
    its discharged contract (mutual recursion over a finite tree: partial correctness).
    """

    prop, file, qualname = PROP, CORE, "Region.clone_into"
    modifies = ["dict#dom", "dict#val", "_operands#len", "_operands#el"]

    def __init__(self):
        from pyvc.engine import Res

        def b_block(ex, st, args, kw):
            return [Res("val", VRef(st.new_object("new_block"), "Block"), st)]

        noop = lambda doc: Builtin(lambda ex, st, a, k: [Res("val", None, st)], doc)

        def b_insert_arg(ex, st, args, kw):
            # new_block.insert_arg(type, idx, location): afterwards new_block.args[idx] is the inserted argument (C01); recorded for the read that follows
            st.ghost["ins_blk"], st.ghost["ins_idx"] = args[0].z, z_int(args[2])
            na = st.new_object("new_arg")
            st.ghost["ins_arg"] = na
            return [Res("val", VRef(na, "BlockArgument"), st)]

        b_insert_arg.ghost_modifies = ["ins_blk", "ins_idx", "ins_arg"]
        self.calls = {"Block": Builtin(b_block, "Block(): a fresh block"),
                      "dest.insert_block": noop("Region.insert_block: block-list surgery on the destination (C01); touches no mapper, no operand list"),
                      "self.walk": Builtin(lambda ex, st, a, k: [Res("val", VSeq(WALKR(st.env["self"].z), NWALKR(st.env["self"].z), "ref", "Operation"), st)],
                                           "Region.walk(): the pre-order sequence of the ops of the region (uninterpreted)"),
                      ".insert_arg": Builtin(b_insert_arg, "Block.insert_arg on a block created by this call (C01): args[idx] is then the new argument"),
                      "new_block.add_op": noop("Block.add_op on a block created by this call (C01)"),
                      "op.clone": CloneOpCallee()}

    @property
    def globals(self):
        def getattr_(ex, st, base, attr):
            if attr == "blocks":
                return VSeq(BLOCKS(base.z), NBLOCKS(base.z), "ref", "Block")
            if attr == "args":
                return VRef(base.z, "BlockArgs")  # the argument view of a block: iterated (source blocks) or read right after insert_arg (new blocks)
            if attr == "ops":
                return VSeq(OPSB(base.z), NOPSB(base.z), "ref", "Operation")
            if base.cls == "BlockArgument" and attr in ("type", "location", "name_hint"):
                return VRef(z3.Function("arg_" + attr, I, I)(base.z), "str" if attr == "name_hint" else None)
            return None

        def setter_name_hint(ex, st, args, kw):
            from pyvc.engine import Res

            st.store("_name", args[0].z, z_int(args[1]))
            return [Res("val", None, st)]

        def iter_(ex, st, itv):
            if isinstance(itv, VRef) and itv.cls == "BlockArgs":
                b = itv.z
                return (lambda j, s_: VRef(ARGSB(b)[j], "BlockArgument")), NARGSB(b)
            return None

        def getitem_(ex, st, base, idx):
            from pyvc.engine import Res

            if isinstance(base, VRef) and base.cls == "BlockArgs":
                ex.oblige(st, "call-pre", "args[idx]:reads-the-argument-inserted-just-before", z3.And(st.ghost["ins_blk"] == base.z, st.ghost["ins_idx"] == z_int(idx)), "aux")
                return [Res("val", VRef(st.ghost["ins_arg"], "BlockArgument"), st)]
            return None

        spec = self

        def expr(ex, st, text):
            if text != "(op for new_block in new_blocks for op in new_block.walk())":
                return None
            # ASSUMED shape of the copy (from the contracts of the cloning callees): the ops of the new blocks, walked in order, pair positionally with the walk of
            # the source region and are fresh pairwise distinct ops
            r = st.env["self"].z
            j, k = z3.Ints("nw!j nw!k")
            al = spec._fentry.alloc()
            st.assume(z3.And(forall([j], z3.Implies(z3.And(j >= 0, j < NWALKR(r)), z3.And(NEWWALK(r)[j] != 0, z3.Not(al[NEWWALK(r)[j]])))),
                             forall([j, k], z3.Implies(z3.And(j >= 0, k >= 0, j < NWALKR(r), k < NWALKR(r), j != k), NEWWALK(r)[j] != NEWWALK(r)[k]))))
            return VSeq(NEWWALK(r), NWALKR(r), "ref", "Operation")

        def getattr2(ex, st, base, attr):
            if attr == "operands" and base.cls == "Operation":
                return VSeq(st.seq_arr("_operands", base.z), st.seq_len("_operands", base.z), "ref", "SSAValue")
            return getattr_(ex, st, base, attr)

        return {"__getattr__": getattr2, "__iter__": iter_, "__getitem__": getitem_, "__expr__": expr,
                "__setters__": {"name_hint": Builtin(setter_name_hint, "name_hint setter stores the (validated) name"), "operands": Builtin(b_set_operands, b_set_operands.__doc__)}}

    def setup(self, st, inst):
        st.ghost["ins_blk"], st.ghost["ins_idx"], st.ghost["ins_arg"] = z3.IntVal(0), z3.IntVal(-1), z3.IntVal(0)
        r = st.declare_input("self", z3.Int("self"))
        dest = st.declare_input("dest", z3.Int("dest"))
        vm = st.declare_input("value_mapper", z3.Int("value_mapper"))
        bm = st.declare_input("block_mapper", z3.Int("block_mapper"))
        return {"self": VRef(r, "Region"), "dest": VRef(dest, "Region"), "insert_index": 0, "value_mapper": VRef(vm, "dict", ("dict", "ref", "ref")),
                "block_mapper": VRef(bm, "dict", ("dict", "ref", "ref")), "clone_name_hints": inst["hints"], "clone_operands": bool(inst.get("operands", False)),
                "_r": r, "_vm": vm, "_bm": bm}

    def pre(self, st, a):
        r, vm, bm = a["_r"], a["_vm"], a["_bm"]
        self._fentry = st.snapshot()
        al = st.alloc()
        b, k, i = z3.Ints("cp!b cp!k cp!i")
        return inside_region_def(r) + [
            A("objects", z3.And(r != 0, a["dest"].z != 0, a["dest"].z != r, vm != 0, bm != 0, vm != bm, al[r], al[vm], al[bm])),
            A("sequences", z3.And(NBLOCKS(r) >= 0, forall([b], z3.And(NARGSB(b) >= 0, NOPSB(b) >= 0)))),
            A("blocks-args-and-ops-of-the-source-are-objects", z3.And(
                forall([k], z3.Implies(z3.And(k >= 0, k < NBLOCKS(r)), z3.And(BLOCKS(r)[k] != 0, al[BLOCKS(r)[k]]))),
                forall([b, i], z3.Implies(z3.And(al[b], i >= 0, i < NARGSB(b)), z3.And(ARGSB(b)[i] != 0, al[ARGSB(b)[i]]))),
                forall([b, i], z3.Implies(z3.And(al[b], i >= 0, i < NOPSB(b)), z3.And(OPSB(b)[i] != 0, al[OPSB(b)[i]]))))),
            A("operand-lists-have-lengths", forall([i], st.seq_len("_operands", i) >= 0)),
            A("the-ops-of-the-source-region-are-objects", z3.And(NWALKR(r) >= 0, forall([i], z3.Implies(z3.And(i >= 0, i < NWALKR(r)), z3.And(WALKR(r)[i] != 0, al[WALKR(r)[i]]))))),
            A("a-value-has-one-definition: a block argument of the region is not defined by or inside an op of the region",
              forall([k, i, b, z3.Int("cp!j")], z3.Implies(z3.And(k >= 0, k < NBLOCKS(r), i >= 0, i < NOPSB(BLOCKS(r)[k]), b >= 0, b < NBLOCKS(r), z3.Int("cp!j") >= 0,
                                                                 z3.Int("cp!j") < NARGSB(BLOCKS(r)[b])), z3.Not(INSIDE_O(OPSB(BLOCKS(r)[k])[i], ARGSB(BLOCKS(r)[b])[z3.Int("cp!j")])))))]

    def _common(self, st, a):
        fe = self._fentry
        r, vm, bm = a["_r"], a["_vm"], a["_bm"]
        x, d, o = z3.Ints("cv!x cv!d cv!o")
        return [A("no-entry-removed", forall([x], z3.Implies(fe.dict_has(vm, x), st.dict_has(vm, x)))),
                A("outside-entries-kept", forall([x], z3.Implies(z3.And(fe.dict_has(vm, x), z3.Not(INSIDE_R(r, x))), st.dict_val(vm, x) == fe.dict_val(vm, x)))),
                A("pre-existing-dicts-unchanged", forall([d], z3.Implies(z3.And(d != vm, d != bm, fe.alloc()[d]),
                                                                           z3.And(st.dict_dom(d) == fe.dict_dom(d), st.dict_vals(d) == fe.dict_vals(d))))),
                A("pre-existing-operand-lists-untouched", forall([o], z3.Implies(fe.alloc()[o], z3.And(st.seq_len("_operands", o) == fe.seq_len("_operands", o),
                                                                                                        st.seq_arr("_operands", o) == fe.seq_arr("_operands", o)))))]

    def inv(self, n, entry, st, a, lv):
        fe = self._fentry
        r, vm = a["_r"], a["_vm"]
        x, j = z3.Ints("cj!x cj!j")
        k = lv["k"]
        blk = lambda kk: BLOCKS(r)[kk]
        fresh = lambda v: z3.And(st.dict_val(vm, v) != 0, z3.Not(fe.alloc()[st.dict_val(vm, v)]))
        d_, o_ = z3.Ints("cj!d cj!o")
        done_blocks = lambda kk: A("values-of-processed-blocks-registered", forall([x], z3.Implies(z3.And(INSIDE_R(r, x), BI(r, x) < kk), st.dict_has(vm, x))))
        done_args = lambda kk: A("arguments-of-processed-blocks-are-mapped-to-values-created-by-this-call",
                                 forall([d_, o_], z3.Implies(z3.And(d_ >= 0, d_ < kk, o_ >= 0, o_ < NARGSB(blk(d_))), z3.And(st.dict_has(vm, ARGSB(blk(d_))[o_]), fresh(ARGSB(blk(d_))[o_])))))
        if n == 0:
            # for block in self.blocks: new_blocks.append(Block()); block_mapper[block] = new_block
            nb = lv["env"]["new_blocks"]
            n_new = nb.n if isinstance(nb, VSeq) else z3.IntVal(len(nb.items))
            return self._common(st, a) + [A("one-new-block-per-processed-block", n_new == k),
                                          A("value-mapper-untouched", z3.And(st.dict_dom(vm) == fe.dict_dom(vm), st.dict_vals(vm) == fe.dict_vals(vm)))]
        if n == 1:
            # for block, new_block in zip(self.blocks, new_blocks)
            return self._common(st, a) + [done_blocks(k), done_args(k)]
        if n >= 4:
            # for old, new in zip(self.walk(), new_ops): new.operands = tuple(value_mapper.get(operand, operand) for operand in old.operands)
            i_ = z3.Int("cj!i")
            m = lambda v: z3.If(entry.dict_has(vm, v), entry.dict_val(vm, v), v)
            return self._common(st, a) + [done_blocks(NBLOCKS(r)), done_args(NBLOCKS(r)),
                A("mappers-unchanged", z3.And(st.arr2("dict#dom", True) == entry.arr2("dict#dom", True), st.arr2("dict#val") == entry.arr2("dict#val"))),
                A("remapped-prefix", forall([j], z3.Implies(z3.And(j >= 0, j < k), z3.And(
                    st.seq_len("_operands", NEWWALK(r)[j]) == fe.seq_len("_operands", WALKR(r)[j]),
                    forall([i_], z3.Implies(z3.And(i_ >= 0, i_ < fe.seq_len("_operands", WALKR(r)[j])),
                                            st.seq_el("_operands", NEWWALK(r)[j], i_) == m(fe.seq_el("_operands", WALKR(r)[j], i_))))))))]
        k1 = lv["outer"][1]
        b = blk(k1)
        args_done = lambda ii: A("arguments-of-this-block-registered-to-values-created-by-this-call", forall([j], z3.Implies(z3.And(j >= 0, j < ii), z3.And(
            st.dict_has(vm, ARGSB(b)[j]), fresh(ARGSB(b)[j])))))
        if n == 2:
            # for idx, block_arg in enumerate(block.args): value_mapper[block_arg] = new_arg
            return self._common(st, a) + [done_blocks(k1), done_args(k1), args_done(k)]
        # for op in block.ops: new_block.add_op(op.clone(value_mapper, block_mapper, clone_operands=False))
        return self._common(st, a) + [done_blocks(k1), done_args(k1), args_done(NARGSB(b)),
                                      A("values-of-processed-ops-registered", forall([j, x], z3.Implies(z3.And(j >= 0, j < k, INSIDE_O(OPSB(b)[j], x)), st.dict_has(vm, x))))]

    def post(self, old, st, a, res):
        out = [C(n, z) for n, z in clone_into_post(old, st, a["_r"], a["_vm"], a["_bm"])]
        if a["clone_operands"]:
            r, vm = a["_r"], a["_vm"]
            j, i = z3.Ints("cq!j cq!i")
            m = lambda v: z3.If(st.dict_has(vm, v), st.dict_val(vm, v), v)
            out.append(C("every-operand-of-the-copy-is-the-image-of-the-source-operand-under-the-final-mapper (inside references point into the copy, outside ones are kept)",
                         forall([j], z3.Implies(z3.And(j >= 0, j < NWALKR(r)), z3.And(
                             st.seq_len("_operands", NEWWALK(r)[j]) == old.seq_len("_operands", WALKR(r)[j]),
                             forall([i], z3.Implies(z3.And(i >= 0, i < old.seq_len("_operands", WALKR(r)[j])),
                                                    st.seq_el("_operands", NEWWALK(r)[j], i) == m(old.seq_el("_operands", WALKR(r)[j], i)))))))))
        return out

    def native_search(self, inst, seed):
        r = N02.explore("quick", seed)
        return r["failures"][0] if r["failures"] else None


NATIVE = [("clone-entry-points", N02.explore)]


def make_specs(tier):
    s = CloneWithoutRegions()
    s.instances = [{"hints": h, "operands": o} for h in (True, False) for o in (True, False)]
    c = CloneOp()
    c.instances = [{"hints": True, "operands": o} for o in (True, False)]
    ci = CloneInto()
    ci.instances = [{"hints": True}, {"hints": False}, {"hints": True, "operands": True}]
    return [s, c, ci]


ASSUMPTIONS = [
    "Operation.create / Operation.__init__ are a TRUSTED allocation contract (new op with the given operands, successors, dictionaries, fresh typed results)",
    "value_mapper / block_mapper are given (the `is None` default branches create empty dicts and are covered by the bounded stand-in)",
    "dict.copy returns a new dict with the same content; the name_hint setter only stores a name",
    "Operation.clone and Region.clone_into(clone_operands=False) are verified against each other's DISCHARGED contracts (and clone_without_regions'); the recursion is over a finite "
    "tree, termination is not proved (partial correctness)",
    "`defined_inside_region` / `defined_by_or_inside_op` are uninterpreted and axiomatised by their one-level unfolding over the block / op / argument / result / region lists "
    "of the SOURCE (uninterpreted, state-independent sequences: the source's block structure is not written by any modelled statement); IR well-formedness axiom: an op's own "
    "results are not defined inside its regions",
    "in Operation.clone the walk of the copy is ASSUMED to pair positionally with the walk of the source and to consist of fresh pairwise distinct ops (shape of the copy: bounded stand-in)",
    "in Region.clone_into: Block(), Region.insert_block, Block.insert_arg (+ the read args[idx] right after it) and Block.add_op are trusted models acting on blocks created by the "
    "call (their list surgery is C01's contract); the source ops are assumed well-formed so that Operation.clone's preconditions hold for each of them",
    "Region.clone, Region.clone_into with clone_operands=True (generator over the new blocks' walks), ModulePass.apply_to_clone: bounded stand-in only",
]

SPECS = make_specs(os.environ.get("VERIF_TIER", "quick"))
