"""
Bounded stand-in for C06 (builtin attributes and types round-trip bit-exactly through text): real Printer -> text -> real Parser.

  scalars    IntegerAttr for widths 1..128 x signedness at the range boundaries; FloatAttr for EVERY bit pattern of every float type of
             <= 16 bits (exhaustive: f16, bf16) and boundary/seeded patterns for f32/f64 (all exponents x {0, 1, mid, max} mantissas,
             subnormals, signed zeros, infinities, NaNs with payloads); strings over a hostile alphabet (non-ASCII, quotes, control
             characters); bytes
  structured dense elements (int/float/i1, splats, signed zeros, NaN/inf elements, empty), dense arrays, arrays, dictionaries, symbol
             references, locations, affine maps, shaped/function/tuple/complex types - generated recursively (depth <= 2), seeded
Oracle: parse_attribute(str(a)) == a AND the bit patterns of every float payload are equal (attribute equality alone would be blind to what
FloatData.__eq__ ignores; it is bit-based since the C08 fix, the second clause keeps the oracle independent).
"""

from __future__ import annotations

import io
import math
import random
import struct

from contracts.common import rechecked

_CTX = None


def ctx():
    global _CTX
    if _CTX is None:
        from xdsl.context import Context
        from xdsl.dialects.builtin import Builtin

        _CTX = Context()
        _CTX.load_dialect(Builtin)
    return _CTX


def to_text(a):
    from xdsl.printer import Printer

    s = io.StringIO()
    Printer(stream=s).print_attribute(a)
    return s.getvalue()


def float_bits(a):
    """Bit patterns of all float payloads reachable in an attribute (recursively), as a comparable structure."""
    from xdsl.dialects.builtin import ArrayAttr, DenseArrayBase, DenseIntOrFPElementsAttr, DictionaryAttr, FloatAttr
    from xdsl.ir import ParametrizedAttribute

    if isinstance(a, FloatAttr):
        return ("f", struct.pack("<d", a.value.data))
    if isinstance(a, (DenseIntOrFPElementsAttr, DenseArrayBase)):
        return ("d", bytes(a.data.data))
    if isinstance(a, ArrayAttr):
        return tuple(float_bits(x) for x in a.data)
    if isinstance(a, DictionaryAttr):
        return tuple((k, float_bits(v)) for k, v in sorted(a.data.items()))
    if isinstance(a, ParametrizedAttribute):
        return tuple(float_bits(p) for p in a.parameters)
    return ()


def classify(a, text):
    from xdsl.dialects.builtin import BytesAttr, NoneAttr

    def walk(x):
        # only what is PRINTED as an attribute of its own: the value itself and, recursively, elements of arrays and dictionaries
        from xdsl.dialects.builtin import ArrayAttr, DictionaryAttr

        yield x
        if isinstance(x, ArrayAttr):
            for y in x.data:
                yield from walk(y)
        elif isinstance(x, DictionaryAttr):
            for y in x.data.values():
                yield from walk(y)

    parts = list(walk(a))
    return {
        "contains_a_BytesAttr_whose_payload_is_valid_utf8": any(isinstance(x, BytesAttr) and _is_utf8(x.data) for x in parts),
        "contains_a_NoneAttr": any(isinstance(x, NoneAttr) for x in parts),
    }


def _is_utf8(b):
    try:
        b.decode("utf-8")
        return True
    except UnicodeDecodeError:
        return False


@rechecked
def check_value(kind, seed, index):
    """Rebuild the value deterministically from (kind, seed, index) and round-trip it."""
    a = make_value(kind, seed, index)
    if a is None:
        return None
    return roundtrip(a, {"kind": kind, "seed": seed, "index": index})


def roundtrip(a, where):
    from xdsl.parser import Parser

    try:
        text = to_text(a)
    except Exception as e:
        return {"key": "C06/roundtrip", "what": f"printing raised {type(e).__name__}: {str(e)[:120]}", "value": repr(a)[:200], "inputs": dict(where)}
    inputs = dict(where, **classify(a, text))
    try:
        b = Parser(ctx(), text).parse_attribute()
    except Exception as e:
        return {"key": "C06/roundtrip", "what": f"printed text does not parse: {type(e).__name__}: {str(e)[:100]}", "text": text[:200], "value": repr(a)[:200], "inputs": inputs}
    if b != a or type(b) is not type(a):
        return {"key": "C06/roundtrip", "what": "printed text parses back to a different value", "text": text[:200], "value": repr(a)[:200], "parsed": repr(b)[:200], "inputs": inputs}
    if float_bits(a) != float_bits(b):
        return {"key": "C06/bits", "what": "numeric payload not preserved bit for bit", "text": text[:200], "value": repr(a)[:200], "inputs": inputs}
    return None


# ------------------------------------------------------------------ generators
STR_ALPHABET = ["a", "Z", "0", " ", '"', "\\", "\n", "\t", "é", "日", "\x00", "\x7f", "'", "{", "%", "😀"]


def f_from_bits(bits, fmt):
    return struct.unpack(fmt, bits)[0]


def float_patterns(rnd, width, n_random):
    """Bit patterns (as ints) for an IEEE-like format of `width` bits with the given exponent/mantissa split of f32 / f64."""
    e, m = {32: (8, 23), 64: (11, 52)}[width]
    out = set()
    for sign in (0, 1):
        for exp in range(0, 1 << e):
            if width == 64 and exp not in (0, 1, 2, 1022, 1023, 1024, 2045, 2046, 2047) and exp % 97:
                continue
            for man in (0, 1, (1 << (m - 1)), (1 << m) - 1, (1 << (m - 1)) | 1):
                out.add((sign << (width - 1)) | (exp << m) | man)
    for _ in range(n_random):
        out.add(rnd.getrandbits(width))
    return sorted(out)


def scalar_values(tier, seed):
    """Deterministic list of (kind, index) -> value factories."""
    return None


def make_value(kind, seed, index):
    from xdsl.dialects.builtin import (AffineMapAttr, ArrayAttr, BFloat16Type, BytesAttr, ComplexType, DenseArrayBase, DenseIntOrFPElementsAttr, DictionaryAttr,
                                       Float16Type, Float32Type, Float64Type, FloatAttr, FunctionType, IndexType, IntAttr, IntegerAttr, IntegerType, MemRefType,
                                       Signedness, StringAttr, SymbolRefAttr, TensorType, TupleType, UnitAttr, UnknownLoc, VectorType, FileLineColLoc, i1, i32, i64, f32, f64)
    from xdsl.ir.affine import AffineMap

    rnd = random.Random(f"{kind}/{seed}/{index}")
    if kind == "f16":
        return FloatAttr(f_from_bits(struct.pack("<H", index), "<e"), Float16Type())
    if kind == "bf16":
        return FloatAttr(f_from_bits(struct.pack("<I", index << 16), "<f"), BFloat16Type())
    if kind == "f32":
        return FloatAttr(f_from_bits(struct.pack("<I", index), "<f"), Float32Type())
    if kind == "f64":
        return FloatAttr(f_from_bits(struct.pack("<Q", index), "<d"), Float64Type())
    if kind == "int":
        w, sg, which = index
        s = [Signedness.SIGNLESS, Signedness.SIGNED, Signedness.UNSIGNED][sg]
        t = IntegerType(w, s)
        lo, hi = (0, (1 << w) - 1) if s == Signedness.UNSIGNED else (-(1 << (w - 1)), (1 << (w - 1)) - 1)
        v = [lo, hi, 0, min(1, hi), max(-1, lo), hi // 2, lo // 2 if lo else 0][which]
        return IntegerAttr(v, t)
    if kind == "index":
        return IntegerAttr([0, 1, -1, 2**63 - 1, -2**63][index], IndexType())
    if kind == "str":
        return StringAttr("".join(rnd.choice(STR_ALPHABET) for _ in range(rnd.randrange(0, 5))))
    if kind == "bytes":
        return BytesAttr(bytes(rnd.choice([0, 1, 0x22, 0x5C, 0x41, 0x7E, 0x7F, 0x80, 0xC3, 0xA9, 0xFF]) for _ in range(rnd.randrange(0, 5))))
    if kind == "struct":
        return gen_attr(rnd, 2)
    raise ValueError(kind)


def gen_float_value(rnd):
    return rnd.choice([0.0, -0.0, 1.0, -1.5, 0.1, 1e-45, 3.4028234663852886e38, float("inf"), float("-inf"), float("nan"), 1e300, 5e-324, 2.5])


def gen_type(rnd, depth):
    from xdsl.dialects.builtin import (ComplexType, FunctionType, IndexType, IntegerType, MemRefType, Signedness, TensorType, TupleType, VectorType, f16, f32, f64, i1, i32, i64)

    base = [i1, i32, i64, f16, f32, f64, IndexType(), IntegerType(7, Signedness.UNSIGNED), IntegerType(128, Signedness.SIGNED)]
    k = rnd.randrange(0, 7 if depth > 0 else 1)
    if k == 0:
        return rnd.choice(base)
    from xdsl.dialects.builtin import DYNAMIC_INDEX, AffineMapAttr, ArrayAttr, BoolAttr, IntegerAttr, NoneAttr, StridedLayoutAttr, StringAttr
    from xdsl.ir.affine import AffineMap

    dim = lambda lo: rnd.choice([lo, 1, 3, DYNAMIC_INDEX])
    if k == 1:
        shape = [dim(0) for _ in range(rnd.randrange(0, 3))]
        enc = rnd.choice([None, None, StringAttr("enc"), IntegerAttr(0, i64)])
        return TensorType(rnd.choice([i32, f32, f64, i1, IndexType()]), shape) if enc is None else TensorType(rnd.choice([i32, f32]), shape, enc)
    if k == 2:
        shape = [dim(0) for _ in range(rnd.randrange(0, 3))]
        # layouts: none, strided (static strides including ZERO and negative ones, dynamic strides, static/zero/dynamic offset), affine map
        layout = rnd.choice([NoneAttr(), NoneAttr(),
                             StridedLayoutAttr([rnd.choice([0, 1, 7, -2, None]) for _ in shape], rnd.choice([0, 0, 3, -1, None])),
                             AffineMapAttr(AffineMap.identity(len(shape)))])
        space = rnd.choice([NoneAttr(), NoneAttr(), IntegerAttr(0, i64), IntegerAttr(1, i32), StringAttr("shared")])
        return MemRefType(rnd.choice([i32, f32, f64]), shape, layout, space)
    if k == 3:
        shape = [rnd.randrange(1, 4) for _ in range(rnd.randrange(1, 3))]
        scal = None if rnd.random() < 0.6 else ArrayAttr([BoolAttr(rnd.random() < 0.5, i1) for _ in shape])
        return VectorType(rnd.choice([i32, f32, i1]), shape, scal)
    if k == 4:
        return ComplexType(rnd.choice([f32, f64, i32]))
    if k == 5:
        return TupleType([gen_type(rnd, depth - 1) for _ in range(rnd.randrange(0, 3))])
    return FunctionType.from_lists([gen_type(rnd, depth - 1) for _ in range(rnd.randrange(0, 3))], [gen_type(rnd, depth - 1) for _ in range(rnd.randrange(0, 3))])


def gen_attr(rnd, depth):
    from xdsl.dialects.builtin import (AffineMapAttr, ArrayAttr, BytesAttr, ComplexType, DenseArrayBase, DenseIntOrFPElementsAttr, DictionaryAttr, FileLineColLoc, FloatAttr,
                                       IndexType, IntAttr, IntegerAttr, IntegerType, Signedness, StringAttr, SymbolRefAttr, TensorType, UnitAttr, UnknownLoc, VectorType,
                                       f16, f32, f64, i1, i8, i32, i64)
    from xdsl.ir.affine import AffineMap

    k = rnd.randrange(0, 12 if depth > 0 else 8)
    if k == 0:
        return IntegerAttr(rnd.choice([0, 1, -1, 127, -128, 2**31 - 1]), rnd.choice([i32, i64, IndexType()]))
    if k == 1:
        return FloatAttr(gen_float_value(rnd), rnd.choice([f32, f64]))
    if k == 2:
        return StringAttr("".join(rnd.choice(STR_ALPHABET) for _ in range(rnd.randrange(0, 4))))
    if k == 3:
        return gen_type(rnd, depth)
    if k == 4:
        et = rnd.choice([f32, f64, f16])
        n = rnd.randrange(0, 4)
        vals = [gen_float_value(rnd) for _ in range(n)]
        if rnd.random() < 0.3 and n:
            vals = [vals[0]] * n  # a genuine splat
        if et is f16:
            vals = [v if abs(v) < 6e4 or math.isinf(v) or math.isnan(v) else 1.0 for v in vals]
        if et is f32:
            vals = [v if abs(v) < 3.5e38 or math.isinf(v) or math.isnan(v) else 1.0 for v in vals]
        if rnd.random() < 0.3:
            # complex elements: NaN / infinity components are printed as bit patterns next to decimal ones
            return DenseIntOrFPElementsAttr.from_list(TensorType(ComplexType(et), [n]), [(v, rnd.choice(vals)) for v in vals])
        return DenseIntOrFPElementsAttr.from_list(TensorType(et, [n]), vals)
    if k == 5:
        if rnd.random() < 0.25:
            # rank >= 3: the nested-list form has to chunk by the product of the trailing dimensions
            shape = rnd.choice([[2, 3, 4], [2, 2, 2], [1, 2, 2, 2], [2, 1, 3], [3, 1, 1], [2, 3, 1], [1, 1, 5]])
            et = rnd.choice([i1, i32, f32])
            cnt = math.prod(shape)
            vals = [(i % 2 if et is i1 else (float(i) if et is f32 else i)) for i in range(cnt)]
            return DenseIntOrFPElementsAttr.from_list((VectorType if rnd.random() < 0.3 else TensorType)(et, shape), vals)
        et = rnd.choice([i1, i8, i32, i64, IndexType()])
        n = rnd.randrange(0, 4)
        hi = 1 if et is i1 else 127
        vals = [rnd.choice([0, 1, hi, -hi if et is not i1 else 0]) for _ in range(n)]
        if rnd.random() < 0.3 and n:
            vals = [vals[0]] * n
        shape = [n] if rnd.random() < 0.7 or n != 2 else [1, 2]
        mk = TensorType if rnd.random() < 0.8 or isinstance(et, IndexType) else VectorType
        if mk is VectorType and n == 0:
            mk = TensorType
        return DenseIntOrFPElementsAttr.from_list(mk(et, shape), vals)
    if k == 6:
        et = rnd.choice([f32, f64, i8, i32, i64, i1])
        n = rnd.randrange(0, 4)
        if et in (f32, f64):
            vals = [gen_float_value(rnd) for _ in range(n)]
            if et is f32:
                vals = [v if abs(v) < 3.5e38 or math.isinf(v) or math.isnan(v) else 1.0 for v in vals]
        else:
            hi = 1 if et is i1 else 127
            vals = [rnd.choice([0, 1, hi]) for _ in range(n)]
        return DenseArrayBase.from_list(et, vals)
    if k == 7:
        from xdsl.dialects.builtin import NoneAttr

        from xdsl.dialects.builtin import BoolAttr, CallSiteLoc, FusedLoc, NameLoc, StridedLayoutAttr

        return rnd.choice([UnitAttr(), NoneAttr(), UnknownLoc(), FileLineColLoc(StringAttr("f.mlir"), IntAttr(3), IntAttr(7)), SymbolRefAttr("a"), SymbolRefAttr("a b", ["c", "d-e"]),
                           # names that are ALMOST bare identifiers (a bare identifier followed / preceded by a newline or space, empty, digits first, dots and dollars)
                           SymbolRefAttr("foo\n"), SymbolRefAttr("foo", ["bar\n", "baz"]), SymbolRefAttr("\nfoo"), SymbolRefAttr("foo "), SymbolRefAttr(""),
                           SymbolRefAttr("9a"), SymbolRefAttr("a.b$c"), SymbolRefAttr("a\n\n"),
                           FileLineColLoc(StringAttr(""), IntAttr(0), IntAttr(0)), BoolAttr(False, i1), BoolAttr(True, i1),
                           StridedLayoutAttr([rnd.choice([0, 1, -3, None]) for _ in range(rnd.randrange(0, 3))], rnd.choice([0, 5, -1, None])),
                           FusedLoc([UnknownLoc(), FileLineColLoc(StringAttr("g"), IntAttr(1), IntAttr(2))], NoneAttr()), FusedLoc([UnknownLoc()], StringAttr("meta")),
                           FusedLoc([], NoneAttr()), FusedLoc([UnknownLoc(), UnknownLoc()], DictionaryAttr({"a": UnitAttr()})),
                           CallSiteLoc(UnknownLoc(), FileLineColLoc(StringAttr("c"), IntAttr(4), IntAttr(5))), NameLoc(StringAttr("n"), NoneAttr()),
                           NameLoc(StringAttr("n m"), UnknownLoc()),
                           AffineMapAttr(AffineMap.identity(2)), AffineMapAttr(AffineMap.from_callable(lambda i, j: (i + 2 * j, j % 3, i // 2)))])
    if k in (8, 9):
        return ArrayAttr([gen_attr(rnd, depth - 1) for _ in range(rnd.randrange(0, 4))])
    keys = ["a", "b c", "x.y", "_z", "9"]
    d = {rnd.choice(keys) + str(i): gen_attr(rnd, depth - 1) for i in range(rnd.randrange(0, 3))}
    if rnd.random() < 0.3:
        # keys that are a bare identifier plus trailing / leading whitespace, next to the bare identifier itself
        d.update({k: gen_attr(rnd, 0) for k in rnd.sample(["k", "k\n", "\nk", "k ", "k\t", ""], rnd.randrange(1, 4))})
    return DictionaryAttr(d)


def explore(tier, seed, shard=0, shards=1):
    rnd = random.Random(seed)
    jobs = []
    for bits in range(1 << 16):
        jobs.append(("f16", bits))
        jobs.append(("bf16", bits))
    for b in float_patterns(rnd, 32, 300 if tier == "quick" else 5000):
        jobs.append(("f32", b))
    for b in float_patterns(rnd, 64, 300 if tier == "quick" else 5000):
        jobs.append(("f64", b))
    for w in ([1, 2, 7, 8, 16, 31, 32, 63, 64, 65, 127, 128] if tier == "quick" else range(1, 129)):
        for sg in range(3):
            for which in range(7):
                jobs.append(("int", (w, sg, which)))
    for i in range(5):
        jobs.append(("index", i))
    for i in range(300 if tier == "quick" else 3000):
        jobs.append(("str", i))
        jobs.append(("bytes", i))
    for i in range(1500 if tier == "quick" else 20000):
        jobs.append(("struct", i))
    fails, seen, cases = [], set(), 0
    for n, (kind, index) in enumerate(jobs):
        if n % shards != shard:
            continue
        cases += 1
        f = check_value(kind, seed, index)
        if f:
            k = (f["key"], tuple(sorted(k for k, v in f["inputs"].items() if v is True)))
            if k not in seen:
                seen.add(k)
                fails.append(f)
    return {"cases": cases, "failures": fails, "exhaustive": False, "nontrivial": cases,
            "bound": "FloatAttr: every bit pattern of f16 and bf16 (exhaustive, 2 x 65536), boundary + seeded patterns of f32/f64; IntegerAttr widths 1..128 (quick: 12 widths) x 3 "
                     "signednesses x 7 boundary values; index; seeded strings/bytes over hostile alphabets; seeded structured attributes of depth <= 2 (dense elements, dense arrays, "
                     "arrays, dictionaries, symbol refs, locations, affine maps, shaped/function/tuple/complex types)"}


@rechecked
def check_byte_codec(first):
    """print_bytes_literal / StringLiteral.bytes_contents: decode(encode(bytes([first, b]))) == bytes([first, b]) for EVERY second byte b, and the single byte."""
    from xdsl.utils.lexer import Input
    from xdsl.utils.mlir_lexer import StringLiteral

    def enc(bs):
        from xdsl.printer import Printer

        s = io.StringIO()
        Printer(stream=s).print_bytes_literal(bs)
        return s.getvalue()

    for bs in [bytes([first])] + [bytes([first, b]) for b in range(256)]:
        text = enc(bs)
        lit = StringLiteral(0, len(text), Input(text, "<codec>"))
        try:
            got = lit.bytes_contents
        except Exception as e:
            return {"key": "C06/byte-codec", "what": f"decoder raised {type(e).__name__} on the encoding of {bs!r}", "text": text, "inputs": {"first": first}}
        if got != bs:
            return {"key": "C06/byte-codec", "what": f"decode(encode({bs!r})) = {got!r}", "text": text, "inputs": {"first": first}}
    return None


def explore_codec(tier, seed):
    fails = []
    for first in range(256):
        f = check_byte_codec(first)
        if f:
            fails.append(f)
            break
    return {"cases": 256 * 257, "failures": fails, "exhaustive": True, "nontrivial": 256 * 257,
            "bound": "every byte string of length 1 and 2 (exhaustive) through Printer.print_bytes_literal and StringLiteral.bytes_contents"}


SHARDS = 8
NATIVE = [(f"builtin-roundtrip-{i}", (lambda i: lambda tier, seed: explore(tier, seed, i, SHARDS))(i)) for i in range(SHARDS)] + [("byte-codec", explore_codec)]
