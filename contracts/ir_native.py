"""
Native abstraction functions and the structural-invariant checker for xdsl IR (the executable
reading of the C01 invariants), plus small IR builders shared by the bounded stand-ins.
The checker reads private link fields directly and never goes through the API under test.
"""

from __future__ import annotations

LIMIT = 10_000


class Broken(Exception):
    pass


def ops_forward(block):
    out = []
    o = block._first_op
    while o is not None:
        out.append(o)
        if len(out) > LIMIT:
            raise Broken(f"cycle in forward op list of block {id(block):x}")
        o = o._next_op
    return out


def ops_backward(block):
    out = []
    o = block._last_op
    while o is not None:
        out.append(o)
        if len(out) > LIMIT:
            raise Broken(f"cycle in backward op list of block {id(block):x}")
        o = o._prev_op
    return out


def blocks_forward(region):
    out = []
    b = region._first_block
    while b is not None:
        out.append(b)
        if len(out) > LIMIT:
            raise Broken("cycle in forward block list")
        b = b._next_block
    return out


def blocks_backward(region):
    out = []
    b = region._last_block
    while b is not None:
        out.append(b)
        if len(out) > LIMIT:
            raise Broken("cycle in backward block list")
        b = b._prev_block
    return out


def uses_of(value):
    out = []
    u = value.first_use
    prev = None
    while u is not None:
        if u._prev_use is not prev:
            raise Broken(f"use list of {_d(value)}: _prev_use of entry {len(out)} does not point to the previous entry")
        out.append(u)
        if len(out) > LIMIT:
            raise Broken("cycle in use list")
        prev = u
        u = u._next_use
    return out


def _d(x):
    return f"<{type(x).__name__} {id(x) & 0xFFFF:x}>"


def collect(roots):
    """All alive ops / blocks / regions reachable from the given root objects (downwards)."""
    from xdsl.ir import Block, Operation, Region

    ops, blocks, regions = [], [], []
    seen = set()

    def visit(x):
        if id(x) in seen:
            raise Broken(f"{_d(x)} reachable twice (shared between two containers)")
        seen.add(id(x))
        if isinstance(x, Operation):
            ops.append(x)
            for r in x.regions:
                visit(r)
        elif isinstance(x, Block):
            blocks.append(x)
            for o in ops_forward(x):
                visit(o)
        elif isinstance(x, Region):
            regions.append(x)
            for b in blocks_forward(x):
                visit(b)

    for r in roots:
        visit(r)
    return ops, blocks, regions


def check_invariants(roots):
    """
    Raises Broken(description) if the IR rooted at `roots` (top-level / detached objects)
    violates a clause of C01.  Clauses (quoted from the property):
      every operation, block and region is found exactly once in its container in both forward
      and backward order and points back to that container; every value's use list and every
      block's predecessor list contains exactly the (user, position) pairs that appear in operand
      and successor lists; argument/result positions match their index in their owner.
    """
    ops, blocks, regions = collect(roots)
    opset = {id(o) for o in ops}
    root_ids = {id(r) for r in roots}
    for r in regions:
        f, b = blocks_forward(r), blocks_backward(r)
        if [id(x) for x in f] != [id(x) for x in reversed(b)]:
            raise Broken(f"region {_d(r)}: forward block order {len(f)} != reversed backward order {len(b)}")
        if len({id(x) for x in f}) != len(f):
            raise Broken(f"region {_d(r)}: a block occurs twice")
        for x in f:
            if x.parent is not r:
                raise Broken(f"block {_d(x)} in region {_d(r)} has parent {_d(x.parent)}")
        if f:
            if f[0]._prev_block is not None or f[-1]._next_block is not None:
                raise Broken(f"region {_d(r)}: end blocks have dangling prev/next links")
        if id(r) in root_ids and r.parent is not None:
            raise Broken(f"detached region {_d(r)} has a parent")
    for blk in blocks:
        f, b = ops_forward(blk), ops_backward(blk)
        if [id(x) for x in f] != [id(x) for x in reversed(b)]:
            raise Broken(f"block {_d(blk)}: forward op order ({len(f)}) != reversed backward order ({len(b)})")
        if len({id(x) for x in f}) != len(f):
            raise Broken(f"block {_d(blk)}: an op occurs twice")
        for x in f:
            if x.parent is not blk:
                raise Broken(f"op {_d(x)} in block {_d(blk)} has parent {_d(x.parent)}")
        if f and (f[0]._prev_op is not None or f[-1]._next_op is not None):
            raise Broken(f"block {_d(blk)}: end ops have dangling prev/next links")
        for i, a in enumerate(blk._args):
            if a.index != i or a.block is not blk:
                raise Broken(f"block argument {i} of {_d(blk)} has index {a.index} / owner {_d(a.block)}")
        if id(blk) in root_ids and (blk.parent is not None or blk._next_block is not None or blk._prev_block is not None):
            raise Broken(f"detached block {_d(blk)} still has parent/sibling links")
    expected_uses = {}  # id(value/block) -> list of (op, idx, use, kind)
    values = {}
    for o in ops:
        if id(o) in root_ids and (o.parent is not None or o._next_op is not None or o._prev_op is not None):
            raise Broken(f"detached op {_d(o)} still has parent/sibling links")
        for i, r in enumerate(o.regions):
            if r.parent is not o:
                raise Broken(f"region {i} of {_d(o)} has parent {_d(r.parent)}")
        if len({id(r) for r in o.regions}) != len(o.regions):
            raise Broken(f"op {_d(o)} lists a region twice")
        for i, res in enumerate(o.results):
            if res.index != i or res.op is not o:
                raise Broken(f"result {i} of {_d(o)} has index {res.index} / owner {_d(res.op)}")
            values[id(res)] = res
        if len(o._operand_uses) != len(o._operands):
            raise Broken(f"op {_d(o)}: {len(o._operands)} operands but {len(o._operand_uses)} operand uses")
        for i, (v, u) in enumerate(zip(o._operands, o._operand_uses)):
            if u._operation is not o or u._index != i:
                raise Broken(f"operand use {i} of {_d(o)} records (operation={_d(u._operation)}, index={u._index})")
            expected_uses.setdefault(id(v), []).append((o, i, u))
            values[id(v)] = v
        if len(o._successor_uses) != len(o._successors):
            raise Broken(f"op {_d(o)}: {len(o._successors)} successors but {len(o._successor_uses)} successor uses")
        for i, (s, u) in enumerate(zip(o._successors, o._successor_uses)):
            if u._operation is not o or u._index != i:
                raise Broken(f"successor use {i} of {_d(o)} records (operation={_d(u._operation)}, index={u._index})")
            expected_uses.setdefault(id(s), []).append((o, i, u))
            values[id(s)] = s
    for blk in blocks:
        values[id(blk)] = blk
        for a in blk._args:
            values[id(a)] = a
    for vid, v in values.items():
        got = uses_of(v)
        exp = expected_uses.get(vid, [])
        got_ids = sorted(id(u) for u in got)
        exp_ids = sorted(id(u) for (_, _, u) in exp)
        if len(set(got_ids)) != len(got_ids):
            raise Broken(f"use list of {_d(v)} contains a use twice")
        if got_ids != exp_ids:
            alive = [u for u in got if id(u._operation) in opset]
            raise Broken(
                f"use list of {_d(v)} has {len(got)} entries ({len(alive)} by alive ops) but operand/successor lists of alive ops "
                f"reference it {len(exp)} times")
    return len(ops), len(blocks), len(regions)


# ------------------------------------------------------------------ small IR builders
def mk_op(operands=(), nres=1, regions=(), successors=(), ty=None):
    from xdsl.dialects import test
    from xdsl.dialects.builtin import i32

    return test.TestOp.create(operands=list(operands), result_types=[ty or i32] * nres, regions=list(regions),
                              successors=list(successors))


def mk_term(successors=(), operands=()):
    from xdsl.dialects import test

    return test.TestTermOp.create(operands=list(operands), successors=list(successors))
