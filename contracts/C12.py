"""
C12 — Worklist, union-find and scoped dictionary follow their abstract models.

Statement (quoted): "the rewrite worklist behaves as a last-in-first-out stack without
duplicates from which items can be removed (pop returns the most recently pushed item still
present, emptiness is reported correctly); the union-find structure always represents exactly
the partition induced by the unions performed, returns a member of the element's class as
representative, and left-biased union keeps the left representative; a scoped dictionary
resolves every key to the value in the innermost scope that defines it, consistently for all
lookup forms."

Technique: data structure against an abstract view.  Each public method is verified from ANY
state satisfying the representation invariant, and re-establishes it together with the exact
view update; by induction on the history every finite call sequence stays in the model.
"""

from __future__ import annotations

import os

import z3

from contracts.common import A, C, forall
from pyvc.spec import Builtin, Inline, Spec
from pyvc.values import Clause, VBool, VInt, VRef, Vocab, z_int

PROP = "C12"
WL = "xdsl/utils/worklist.py"
DS = "xdsl/utils/disjoint_set.py"
SD = "xdsl/utils/scoped_dict.py"

I = z3.IntSort()

VOCAB = Vocab(
    {
        "_stack": "list:ref",
        "_map": "dict:ref:int",
        "_parent": "list:int",
        "_count": "list:int",
        "_base": "ref:IntDisjointSet",
        "_values": "list:ref",
        "_index_by_value": "dict:ref:int",
        "_local_scope": "dict:ref:ref",
        "parent": "ref:ScopedDict",
        "name": "ref",
    }
)

MISSING = z3.Int("MISSING")  # the module-level sentinel object _MISSING


def zb(v):
    """Bool term of a symbolic/concrete bool result."""
    if isinstance(v, bool):
        return z3.BoolVal(v)
    return v.z


def zi(v):
    return z_int(v)


# =============================================================================== Worklist
class WView:
    """Abstract view of a Worklist in state st: membership + rank (position in the stack)."""

    def __init__(self, st, w):
        self.st = st
        self.S = st.sel("_stack", w)
        self.M = st.sel("_map", w)
        self.n = st.list_len(self.S)

    def has(self, x):
        return self.st.dict_has(self.M, x)

    def rank(self, x):
        return self.st.dict_val(self.M, x)

    def el(self, i):
        return self.st.list_el(self.S, i)


def wl_inv(st, w):
    v = WView(st, w)
    x, i = z3.Ints("wl!x wl!i")
    return [
        A("containers-distinct", z3.And(v.S > 0, v.M > 0, v.S != v.M, MISSING > 0, w > 0)),
        A("len-nonneg", v.n >= 0),
        A("map-into-stack", forall([x], z3.Implies(v.has(x), z3.And(v.rank(x) >= 0, v.rank(x) < v.n, v.el(v.rank(x)) == x,
                                                                        x != MISSING)), patterns=[v.has(x)])),
        A("stack-into-map", forall([i], z3.Implies(z3.And(i >= 0, i < v.n),
                                                        z3.Or(v.el(i) == MISSING, z3.And(v.has(v.el(i)), v.rank(v.el(i)) == i))),
                                      patterns=[v.el(i)])),
    ]


def wl_same_except(old, new, w, item):
    """Every element other than `item` keeps its membership and its rank (relative order)."""
    o, n = WView(old, w), WView(new, w)
    y = z3.Int("wl!y")
    return forall([y], z3.Implies(y != item, z3.And(n.has(y) == o.has(y), z3.Implies(o.has(y), n.rank(y) == o.rank(y)))),
                     patterns=[n.has(y)])


class WorklistSpec(Spec):
    prop, file = PROP, WL
    modifies = ["list#len", "list#el", "dict#dom", "dict#val"]

    def __init__(self, method):
        self.qualname = f"Worklist.{method}"
        self.method = method

    @property
    def globals(self):
        return {"_MISSING": VRef(MISSING, "Sentinel")}

    def setup(self, st, inst):
        w = st.declare_input("self", z3.Int("self"))
        a = {"self": VRef(w, "Worklist")}
        if self.method in ("push", "remove"):
            a["item"] = VRef(st.declare_input("item", z3.Int("item")), "Operation")
        return a

    def pre(self, st, a):
        out = wl_inv(st, a["self"].z)
        if "item" in a:
            # items are objects of the element type: never None, never the sentinel
            out.append(A("item-typed", z3.And(a["item"].z > 0, a["item"].z != MISSING)))
        return out

    def inv(self, n, entry, st, a, lv):
        # loops of __bool__ and pop discard trailing _MISSING slots: the view never changes
        w = a["self"].z
        x = z3.Int("wl!x")
        o, c = WView(entry, w), WView(st, w)
        return wl_inv(st, w) + [
            A("view-unchanged", forall([x], z3.And(c.has(x) == o.has(x), z3.Implies(o.has(x), c.rank(x) == o.rank(x))),
                                          patterns=[c.has(x)])),
            A("same-containers", z3.And(c.S == o.S, c.M == o.M)),
        ]

    def post(self, old, st, a, res):
        w = a["self"].z
        o, n = WView(old, w), WView(st, w)
        x, y = z3.Ints("wl!x wl!y")
        out = [Clause(c.name, c.z, "aux") for c in wl_inv(st, w)]
        if self.method == "__bool__":
            out.append(C("reports-nonempty", zb(res) == z3.Exists([x], o.has(x))))
            out.append(C("view-unchanged", forall([x], z3.And(n.has(x) == o.has(x), z3.Implies(o.has(x), n.rank(x) == o.rank(x))),
                                                     patterns=[n.has(x)])))
        elif self.method == "push":
            it = a["item"].z
            out.append(C("item-present", n.has(it)))
            out.append(C("others-unchanged", wl_same_except(old, st, w, it)))
            out.append(C("no-duplicate: already present => unchanged", z3.Implies(o.has(it), n.rank(it) == o.rank(it))))
            out.append(C("pushed-on-top", z3.Implies(z3.Not(o.has(it)),
                                                     forall([y], z3.Implies(o.has(y), n.rank(it) > o.rank(y)), patterns=[o.has(y)]))))
        elif self.method == "pop":
            r = res.z
            out.append(C("returns-a-member", o.has(r)))
            out.append(C("returns-most-recent", forall([y], z3.Implies(o.has(y), o.rank(y) <= o.rank(r)), patterns=[o.has(y)])))
            out.append(C("removed", z3.Not(n.has(r))))
            out.append(C("others-unchanged", wl_same_except(old, st, w, r)))
        elif self.method == "remove":
            it = a["item"].z
            out.append(C("removed", z3.Not(n.has(it))))
            out.append(C("others-unchanged", wl_same_except(old, st, w, it)))
        return out

    def exc_cases(self, st, a):
        # callee view of pop: raises exactly when the view is empty (the discharged `raises` obligations below)
        if self.method == "pop":
            x = z3.Int("wl!x")
            return [("IndexError", z3.Not(z3.Exists([x], WView(st, a["self"].z).has(x))))]
        return []

    def result_value(self, st, a):
        if self.method == "pop":
            return VRef(st.fresh_int("popped"), "Operation")
        if self.method == "__bool__":
            return VBool(st.fresh_bool("nonempty"))
        return None

    def post_exc(self, old, st, a, exc):
        if self.method == "pop" and exc == "IndexError":
            w = a["self"].z
            o, n = WView(old, w), WView(st, w)
            x = z3.Int("wl!x")
            return [C("raises-only-when-empty", z3.Not(z3.Exists([x], o.has(x)))),
                    C("stays-empty", z3.Not(z3.Exists([x], n.has(x))))] + [Clause(c.name, c.z, "aux") for c in wl_inv(st, w)]
        return None


# =============================================================================== IntDisjointSet
REP = z3.Array("rep", I, I)  # ghost: representative (root) of each element
DIST = z3.Array("dist", I, I)  # ghost: strictly decreasing along parent edges (acyclicity witness)


class DView:
    def __init__(self, st, d):
        self.st = st
        self.P = st.sel("_parent", d)
        self.Cn = st.sel("_count", d)
        self.n = st.list_len(self.P)

    def parent(self, i):
        return self.st.list_el(self.P, i)

    def count(self, i):
        return self.st.list_el(self.Cn, i)


def ds_inv(st, d, rep, dist):
    v = DView(st, d)
    i = z3.Int("ds!i")
    rng = z3.And(i >= 0, i < v.n)
    return [
        A("lists-distinct", z3.And(v.P > 0, v.Cn > 0, v.P != v.Cn, d > 0)),
        A("lens-agree", z3.And(v.n >= 0, st.list_len(v.Cn) == v.n)),
        A("parents-in-range", forall([i], z3.Implies(rng, z3.And(v.parent(i) >= 0, v.parent(i) < v.n)), patterns=[v.parent(i)])),
        A("rep-is-a-root", forall([i], z3.Implies(rng, z3.And(rep[i] >= 0, rep[i] < v.n, v.parent(rep[i]) == rep[i])), patterns=[rep[i]])),
        A("rep-constant-along-parents", forall([i], z3.Implies(rng, rep[v.parent(i)] == rep[i]), patterns=[v.parent(i)])),
        A("roots-represent-themselves", forall([i], z3.Implies(z3.And(rng, v.parent(i) == i), rep[i] == i), patterns=[v.parent(i)])),
        A("dist-nonneg", forall([i], z3.Implies(rng, dist[i] >= 0), patterns=[dist[i]])),
        A("dist-decreases", forall([i], z3.Implies(z3.And(rng, v.parent(i) != i), dist[v.parent(i)] < dist[i]), patterns=[v.parent(i)])),
        A("dist-of-rep-minimal", forall([i], z3.Implies(z3.And(rng, rep[i] != i), dist[rep[i]] < dist[i]), patterns=[rep[i]])),
    ]


def same_partition(rep1, rep2, n):
    i, j = z3.Ints("ds!i ds!j")
    return forall([i, j], z3.Implies(z3.And(i >= 0, i < n, j >= 0, j < n), (rep1[i] == rep1[j]) == (rep2[i] == rep2[j])))


def merged_partition(rep_old, rep_new, n, a, b):
    """rep_new induces exactly the old partition with the classes of a and b merged."""
    i, j = z3.Ints("ds!i ds!j")
    ra, rb = rep_old[a], rep_old[b]
    in_ab = lambda k: z3.Or(rep_old[k] == ra, rep_old[k] == rb)
    return forall([i, j], z3.Implies(z3.And(i >= 0, i < n, j >= 0, j < n),
                                     (rep_new[i] == rep_new[j]) == z3.Or(rep_old[i] == rep_old[j], z3.And(in_ab(i), in_ab(j)))))


def lists_frame(old, st, touched):
    """Frame: every list object other than `touched` keeps its length and contents."""
    l = z3.Int("fr!l")
    return A("frame-other-lists", forall([l], z3.Implies(z3.And(*[l != t for t in touched]),
                                                        z3.And(st.list_len(l) == old.list_len(l), st.list_arr(l) == old.list_arr(l)))))


class IntDSSpec(Spec):
    prop, file = PROP, DS
    modifies = ["list#len", "list#el"]
    ghost_modifies = ["rep", "dist"]

    def __init__(self, method):
        self.qualname = f"IntDisjointSet.{method}"
        self.method = method
        # find / connected / value_count keep the ghost witnesses (path compression preserves rep and dist)
        self.ghost_modifies = ["rep", "dist"] if method in ("add", "union", "union_left") else []
        if method in ("union", "union_left", "connected"):
            self.calls = {"self": None}
            self.calls = {}

    @property
    def globals(self):
        g = {}
        if self.method in ("union", "union_left", "connected"):
            find = FIND

            def getitem(ex, st, base, idx):
                if isinstance(base, VRef) and base.cls == "IntDisjointSet":
                    from pyvc.calls import contract_call

                    return contract_call(ex, find, [base, idx], {}, st, "self[...]")
                return None

            g["__getitem__"] = getitem
        return g

    def setup(self, st, inst):
        d = st.declare_input("self", z3.Int("self"))
        st.ghost["rep"] = REP
        st.ghost["dist"] = DIST
        a = {"self": VRef(d, "IntDisjointSet")}
        if self.method == "__getitem__":
            a["value"] = VInt(st.declare_input("value", z3.Int("value")))
        if self.method in ("union", "union_left", "connected"):
            a["lhs"] = VInt(st.declare_input("lhs", z3.Int("lhs")))
            a["rhs"] = VInt(st.declare_input("rhs", z3.Int("rhs")))
        return a

    def pre(self, st, a):
        return ds_inv(st, a["self"].z, st.ghost["rep"], st.ghost["dist"])

    # ---- callee view ---------------------------------------------------------------------
    def result_value(self, st, a):
        if self.method in ("__getitem__", "add", "value_count"):
            return VInt(st.fresh_int("r"))
        if self.method in ("union", "union_left", "connected"):
            return VBool(st.fresh_bool("r"))
        return None

    def exc_cases(self, st, a):
        n = DView(st, a["self"].z).n
        if self.method == "__getitem__":
            v = zi(a["value"])
            return [("KeyError", z3.Or(v < 0, v >= n))]
        if self.method in ("union", "union_left", "connected"):
            l, r = zi(a["lhs"]), zi(a["rhs"])
            return [("KeyError", z3.Or(l < 0, l >= n, r < 0, r >= n))]
        return []

    # ---- loop invariants of __getitem__ ------------------------------------------------------
    def inv(self, k, entry, st, a, lv):
        d = a["self"].z
        rep, dist = st.ghost["rep"], st.ghost["dist"]
        v = DView(st, d)
        e = DView(entry, d)
        value = zi(a["value"])
        env = lv["env"]
        if k == 0:  # find the root
            root = zi(env["root"])
            return [A("root-in-range", z3.And(root >= 0, root < v.n)), A("root-in-class", rep[root] == rep[value])]
        # path compression: heap changes, partition does not
        root, cur = zi(env["root"]), zi(env["current"])
        return ds_inv(st, d, rep, dist) + [
            A("same-lists", z3.And(v.P == e.P, v.Cn == e.Cn, v.n == e.n)),
            A("root-found", z3.And(root >= 0, root < v.n, root == rep[value], v.parent(root) == root)),
            A("current-in-class", z3.And(cur >= 0, cur < v.n, rep[cur] == root)),
            A("counts-unchanged", st.list_arr(v.Cn) == entry.list_arr(e.Cn)),
            lists_frame(entry, st, [e.P, e.Cn]),
        ]

    # ---- postconditions ------------------------------------------------------------------------
    def ghost_update(self, old, st, a, res):
        d = a["self"].z
        rep, dist = old.ghost["rep"], old.ghost["dist"]
        o = DView(old, d)
        if self.method == "add":
            return {"rep": z3.Store(rep, o.n, o.n), "dist": z3.Store(dist, o.n, z3.IntVal(0))}
        if self.method in ("union", "union_left"):
            n = DView(st, d)
            rl, rr = rep[zi(a["lhs"])], rep[zi(a["rhs"])]
            # which of the two old roots is still a root in the new heap decides the merged representative
            p = z3.If(n.parent(rl) == rl, rl, rr)
            c = z3.If(n.parent(rl) == rl, rr, rl)
            i = z3.Int("ds!w")
            rep2 = z3.Lambda([i], z3.If(rl == rr, rep[i], z3.If(rep[i] == c, p, rep[i])))
            dist2 = z3.Lambda([i], z3.If(z3.And(rl != rr, rep[i] == c), dist[i] + dist[p] + 1, dist[i]))
            return {"rep": rep2, "dist": dist2}
        return {}

    def post(self, old, st, a, res):
        d = a["self"].z
        o, n = DView(old, d), DView(st, d)
        orep = old.ghost["rep"]
        rep, dist = st.ghost["rep"], st.ghost["dist"]
        out = [Clause(c.name, c.z, "aux") for c in ds_inv(st, d, rep, dist)]
        out.append(A("same-list-objects", z3.And(n.P == o.P, n.Cn == o.Cn)))
        out.append(lists_frame(old, st, [o.P, o.Cn]))
        m = self.method
        if m == "value_count":
            out += [C("counts-elements", zi(res) == o.n), C("partition-unchanged", same_partition(orep, rep, o.n)), A("size-unchanged", n.n == o.n)]
        elif m == "add":
            r = zi(res)
            i = z3.Int("ds!i")
            out += [C("returns-new-element", r == o.n), C("one-more-element", n.n == o.n + 1),
                    C("new-element-is-singleton", forall([i], z3.Implies(z3.And(i >= 0, i < o.n), rep[i] != rep[r]))),
                    C("old-partition-unchanged", same_partition(orep, rep, o.n))]
        elif m == "__getitem__":
            r = zi(res)
            v = zi(a["value"])
            out += [C("returns-representative-of-class", r == orep[v]),
                    C("representative-is-member-of-class", z3.And(r >= 0, r < o.n, orep[r] == orep[v])),
                    C("partition-unchanged", same_partition(orep, rep, o.n)),
                    A("rep-unchanged", forall([z3.Int("ds!i")], rep[z3.Int("ds!i")] == orep[z3.Int("ds!i")])),
                    A("size-unchanged", n.n == o.n), A("counts-unchanged", st.list_arr(n.Cn) == old.list_arr(o.Cn))]
        elif m == "connected":
            l, r = zi(a["lhs"]), zi(a["rhs"])
            out += [C("same-class-iff-connected", zb(res) == (orep[l] == orep[r])),
                    C("partition-unchanged", same_partition(orep, rep, o.n)), A("size-unchanged", n.n == o.n)]
        elif m in ("union", "union_left"):
            l, r = zi(a["lhs"]), zi(a["rhs"])
            out += [C("partition-is-old-with-classes-merged", merged_partition(orep, rep, o.n, l, r)),
                    C("returns-whether-merged", zb(res) == (orep[l] != orep[r])),
                    A("size-unchanged", n.n == o.n)]
            if m == "union_left":
                out.append(C("left-representative-kept", rep[l] == orep[l]))
        return out

    def post_exc(self, old, st, a, exc):
        d = a["self"].z
        o = DView(old, d)
        if exc != "KeyError":
            return None
        if self.method == "__getitem__":
            v = zi(a["value"])
            cond = z3.Or(v < 0, v >= o.n)
        elif self.method in ("union", "union_left", "connected"):
            l, r = zi(a["lhs"]), zi(a["rhs"])
            cond = z3.Or(l < 0, l >= o.n, r < 0, r >= o.n)
        else:
            return None
        rep, dist = st.ghost["rep"], st.ghost["dist"]
        return [C("KeyError-only-for-unknown-element", cond), C("partition-unchanged", same_partition(old.ghost["rep"], rep, o.n))] + [
            Clause(c.name, c.z, "aux") for c in ds_inv(st, d, rep, dist)]


FIND = IntDSSpec("__getitem__")


# =============================================================================== DisjointSet
class GView:
    def __init__(self, st, g):
        self.st = st
        self.B = st.sel("_base", g)
        self.V = st.sel("_values", g)
        self.X = st.sel("_index_by_value", g)
        self.d = DView(st, self.B)
        self.n = st.list_len(self.V)

    def value(self, i):
        return self.st.list_el(self.V, i)

    def has(self, x):
        return self.st.dict_has(self.X, x)

    def idx(self, x):
        return self.st.dict_val(self.X, x)


def gs_inv(st, g, rep, dist):
    v = GView(st, g)
    i, x = z3.Ints("gs!i gs!x")
    return ds_inv(st, v.B, rep, dist) + [
        A("objects-distinct", z3.And(g > 0, v.V > 0, v.X > 0, v.V != v.d.P, v.V != v.d.Cn)),
        A("sizes-agree", v.n == v.d.n),
        A("values-indexed", forall([i], z3.Implies(z3.And(i >= 0, i < v.n), z3.And(v.has(v.value(i)), v.idx(v.value(i)) == i)),
                                   patterns=[v.value(i)])),
        A("index-into-values", forall([x], z3.Implies(v.has(x), z3.And(v.idx(x) >= 0, v.idx(x) < v.n, v.value(v.idx(x)) == x)),
                                      patterns=[v.has(x)])),
    ]


class DSetSpec(Spec):
    """DisjointSet[T]: the IntDisjointSet contract transported through the value<->index bijection."""

    prop, file = PROP, DS
    modifies = ["list#len", "list#el", "dict#dom", "dict#val"]

    def __init__(self, method):
        self.qualname = f"DisjointSet.{method}"
        self.method = method
        self.calls = {
            "self._base.add": IntDSSpec("add"),
            "self._base.union_left": IntDSSpec("union_left"),
            "self._base.union": IntDSSpec("union"),
            "self._base.connected": IntDSSpec("connected"),
        }

    @property
    def globals(self):
        def getitem(ex, st, base, idx):
            if isinstance(base, VRef) and base.cls == "IntDisjointSet":
                from pyvc.calls import contract_call

                return contract_call(ex, FIND, [base, idx], {}, st, "self._base[...]")
            return None

        return {"__getitem__": getitem}

    def setup(self, st, inst):
        g = st.declare_input("self", z3.Int("self"))
        st.ghost["rep"] = REP
        st.ghost["dist"] = DIST
        a = {"self": VRef(g, "DisjointSet")}
        if self.method in ("add", "find"):
            a["value"] = VRef(st.declare_input("value", z3.Int("value")), "T")
        if self.method in ("union", "union_left", "connected"):
            a["lhs"] = VRef(st.declare_input("lhs", z3.Int("lhs")), "T")
            a["rhs"] = VRef(st.declare_input("rhs", z3.Int("rhs")), "T")
        return a

    def pre(self, st, a):
        out = gs_inv(st, a["self"].z, st.ghost["rep"], st.ghost["dist"])
        if self.method == "add":
            # docstring: "Add a new value": adding a value that is already present is outside the contract
            out.append(A("value-is-new", z3.Not(GView(st, a["self"].z).has(a["value"].z))))
        return out

    def post(self, old, st, a, res):
        g = a["self"].z
        o, n = GView(old, g), GView(st, g)
        orep, rep, dist = old.ghost["rep"], st.ghost["rep"], st.ghost["dist"]
        out = [Clause(c.name, c.z, "aux") for c in gs_inv(st, g, rep, dist)]
        x, y = z3.Ints("gs!x gs!y")
        cls_o = lambda v: orep[o.idx(v)]
        cls_n = lambda v: rep[n.idx(v)]
        members_same = forall([x], n.has(x) == o.has(x), patterns=[n.has(x)])
        same_part = forall([x, y], z3.Implies(z3.And(o.has(x), o.has(y)), (cls_n(x) == cls_n(y)) == (cls_o(x) == cls_o(y))))
        m = self.method
        if m == "__len__":
            out += [C("counts-values", zi(res) == o.n)]
        elif m == "add":
            v = a["value"].z
            out += [C("value-present", n.has(v)),
                    C("other-members-unchanged", forall([x], z3.Implies(x != v, n.has(x) == o.has(x)), patterns=[n.has(x)])),
                    C("new-value-is-singleton", forall([x], z3.Implies(z3.And(o.has(x)), cls_n(x) != cls_n(v)), patterns=[o.has(x)])),
                    C("old-partition-unchanged", same_part)]
        elif m == "find":
            v = a["value"].z
            out += [C("representative-is-a-member-of-the-class", z3.And(o.has(res.z), cls_o(res.z) == cls_o(v))),
                    C("representative-is-canonical", forall([y], z3.Implies(z3.And(o.has(y), cls_o(y) == cls_o(v)),
                                                                            o.value(cls_o(y)) == res.z), patterns=[o.has(y)])),
                    C("members-unchanged", members_same), C("partition-unchanged", same_part)]
        elif m == "connected":
            l, r = a["lhs"].z, a["rhs"].z
            out += [C("same-class-iff-connected", zb(res) == (cls_o(l) == cls_o(r))), C("members-unchanged", members_same),
                    C("partition-unchanged", same_part)]
        elif m in ("union", "union_left"):
            l, r = a["lhs"].z, a["rhs"].z
            in_lr = lambda v: z3.Or(cls_o(v) == cls_o(l), cls_o(v) == cls_o(r))
            out += [C("partition-is-old-with-classes-merged",
                      forall([x, y], z3.Implies(z3.And(o.has(x), o.has(y)),
                                                (cls_n(x) == cls_n(y)) == z3.Or(cls_o(x) == cls_o(y), z3.And(in_lr(x), in_lr(y)))))),
                    C("returns-whether-merged", zb(res) == (cls_o(l) != cls_o(r))), C("members-unchanged", members_same)]
            if m == "union_left":
                out.append(C("left-representative-kept", cls_n(l) == cls_o(l)))
        return out

    def post_exc(self, old, st, a, exc):
        g = a["self"].z
        o = GView(old, g)
        if exc != "KeyError":
            return None
        if self.method == "find":
            cond = z3.Not(o.has(a["value"].z))
        elif self.method in ("union", "union_left", "connected"):
            cond = z3.Or(z3.Not(o.has(a["lhs"].z)), z3.Not(o.has(a["rhs"].z)))
        else:
            return None
        return [C("KeyError-only-for-unknown-value", cond)]


# =============================================================================== ScopedDict
DEFINED = z3.Function("sd_defined", I, I, z3.BoolSort())  # (scope, key): some scope from here up defines key
LOOKUP = z3.Function("sd_lookup", I, I, I)  # value in the innermost defining scope


def sd_axioms(st):
    """
    One-level unfolding of the recursive spec functions over the (read-only) pre-state heap:
    defined(s,k) <=> k in local(s) or (parent(s) is not None and defined(parent(s),k));
    lookup(s,k)   = local(s)[k] if k in local(s) else lookup(parent(s),k).
    """
    s, k = z3.Ints("sd!s sd!k")
    loc = st.sel("_local_scope", s)
    par = st.sel("parent", s)
    return [
        A("defined-unfold", forall([s, k], DEFINED(s, k) == z3.Or(st.dict_has(loc, k), z3.And(par != 0, DEFINED(par, k))),
                                   patterns=[DEFINED(s, k)])),
        A("lookup-unfold", forall([s, k], LOOKUP(s, k) == z3.If(st.dict_has(loc, k), st.dict_val(loc, k), LOOKUP(par, k)),
                                  patterns=[LOOKUP(s, k)])),
    ]


class SDSpec(Spec):
    prop, file = PROP, SD
    modifies = []

    def __init__(self, method):
        self.qualname = f"ScopedDict.{method}"
        self.method = method
        if method == "get":
            self.calls = {"self.parent.get": self}

    @property
    def globals(self):
        contains = SD_CONTAINS

        def has(ex, st, container, item):
            if isinstance(container, VRef) and container.cls == "ScopedDict":
                from pyvc.calls import contract_call

                rs = contract_call(ex, contains, [container, item], {}, st, "key in parent")
                return rs[0].val
            return None

        return {"__contains__": has}

    def setup(self, st, inst):
        s = st.declare_input("self", z3.Int("self"))
        a = {"self": VRef(s, "ScopedDict"), "key": VRef(st.declare_input("key", z3.Int("key")), "Key")}
        if self.method == "get":
            a["default"] = VRef(st.declare_input("default", z3.Int("default")), "Value")
        if self.method == "__setitem__":
            a["value"] = VRef(st.declare_input("value", z3.Int("value")), "Value")
        return a

    def pre(self, st, a):
        s = z3.Int("sd!s")
        out = sd_axioms(st) + [A("self-not-none", a["self"].z != 0),
                               A("scopes-have-a-dict", forall([s], z3.Implies(s != 0, st.sel("_local_scope", s) != 0)))]
        return out

    def result_value(self, st, a):
        if self.method == "__contains__":
            return VBool(st.fresh_bool("r"))
        return VRef(st.fresh_int("r"), "Value")

    def inv(self, k, entry, st, a, lv):
        # __getitem__: no scope between self and cur (inclusive) defines key
        cur = lv["env"]["cur"].z
        key = a["key"].z
        me = a["self"].z
        return [A("cur-not-none", cur != 0),
                A("not-found-so-far", z3.Not(st.dict_has(st.sel("_local_scope", cur), key))),
                A("rest-decides", z3.And(DEFINED(me, key) == DEFINED(cur, key), LOOKUP(me, key) == LOOKUP(cur, key)))]

    def post(self, old, st, a, res):
        me, key = a["self"].z, a["key"].z
        m = self.method
        heap_same = [A("heap-unchanged", z3.And(*[st.heap[h] == old.heap[h] for h in old.heap if h in st.heap and h != "alloc"]))] if m != "__setitem__" else []
        if m == "get":
            r = zi(res)
            return heap_same + [C("innermost-value-or-default", r == z3.If(DEFINED(me, key), LOOKUP(me, key), zi(a["default"])))]
        if m == "__getitem__":
            return heap_same + [C("defined", DEFINED(me, key)), C("innermost-value", zi(res) == LOOKUP(me, key))]
        if m == "__contains__":
            return heap_same + [C("defined-in-some-scope", zb(res) == DEFINED(me, key))]
        if m == "__setitem__":
            loc_o = old.sel("_local_scope", me)
            loc_n = st.sel("_local_scope", me)
            k2, s2 = z3.Ints("sd!k2 sd!s2")
            return [C("local-binding-set", z3.And(st.dict_has(loc_n, key), st.dict_val(loc_n, key) == a["value"].z)),
                    C("other-local-keys-unchanged", forall([k2], z3.Implies(k2 != key, z3.And(st.dict_has(loc_n, k2) == old.dict_has(loc_o, k2),
                                                                                              st.dict_val(loc_n, k2) == old.dict_val(loc_o, k2))))),
                    C("other-scopes-unchanged", forall([s2], z3.Implies(s2 != loc_o, z3.And(st.dict_dom(s2) == old.dict_dom(s2),
                                                                                            st.dict_vals(s2) == old.dict_vals(s2))))),
                    A("links-unchanged", z3.And(st.fld("parent") == old.fld("parent"), st.fld("_local_scope") == old.fld("_local_scope")))]
        return []

    def post_exc(self, old, st, a, exc):
        if self.method == "__getitem__" and exc == "KeyError":
            return [C("KeyError-only-when-undefined", z3.Not(DEFINED(a["self"].z, a["key"].z)))]
        return None


SD_CONTAINS = SDSpec("__contains__")



def make_specs(tier):
    specs = []
    for m in ("__bool__", "push", "pop", "remove"):
        specs.append(WorklistSpec(m))
    specs.append(FIND)
    for m in ("value_count", "add", "union_left", "union", "connected"):
        specs.append(IntDSSpec(m))
    for m in ("__len__", "add", "find", "union_left", "union", "connected"):
        specs.append(DSetSpec(m))
    specs.append(SD_CONTAINS)
    for m in ("get", "__getitem__", "__setitem__"):
        specs.append(SDSpec(m))
    return specs


from contracts import C12_native as N12

NATIVE = [("worklist", N12.worklist), ("union-find", N12.union_find), ("scoped-dict", N12.scoped_dict)]


def _search(fn):
    def native_search(self, inst, seed):
        r = fn("quick", seed)
        return r["failures"][0] if r["failures"] else None

    return native_search


WorklistSpec.native_search = _search(N12.worklist)
IntDSSpec.native_search = _search(N12.union_find)
DSetSpec.native_search = _search(N12.union_find)
SDSpec.native_search = _search(N12.scoped_dict)

ASSUMPTIONS = [
    "CPython list/dict semantics as modelled (append, pop, index with negative wrap, del, in, get); dict keys compare by identity (IR objects define __eq__ as `is`)",
    "a Worklist's _stack and _map are distinct objects owned by it (established by the dataclass default factories)",
    "items are never None and never the _MISSING sentinel (typing precondition)",
    "IntDisjointSet: _parent and _count are distinct lists of equal length (established by __init__; __init__ itself is covered by the bounded stand-in only)",
    "DisjointSet.add is called with a value not yet present (its docstring: 'Add a new value'); values/indices form a bijection (established by __init__)",
    "IntDisjointSet.roots / DisjointSet.roots / __str__ are generators or string builders outside the subset: bounded stand-in only",
    "ScopedDict: partial correctness (the parent chain is assumed finite/acyclic: parent is assigned in __init__ only); recursive spec functions defined/lookup are unfolded one level by axioms",
    "termination of the union-find loops is not proved (the ghost dist gives the argument but no decreases obligation is generated)",
]

SPECS = make_specs(os.environ.get("VERIF_TIER", "quick"))
