"""
Bounded stand-in for C26: generated affine expression trees over 2 dims + 1 symbol; building,
simplifying, composing with maps, replacing dims/symbols, printing and re-parsing must all
preserve the value on every assignment in a small box.  The reference evaluator is independent
of AffineExpr.eval (plain Python arithmetic on the generation tree).
"""

from __future__ import annotations

import itertools
import random

from contracts.common import rechecked

BOX = range(-3, 4)
ENVS = [(a, b, c) for a in BOX for b in BOX for c in (-2, 0, 3)]


def ref_eval(t, d0, d1, s0):
    k = t[0]
    if k == "c":
        return t[1]
    if k == "d":
        return (d0, d1)[t[1]]
    if k == "s":
        return s0
    a = ref_eval(t[1], d0, d1, s0)
    if k == "neg":
        return -a
    b = ref_eval(t[2], d0, d1, s0)
    if k == "+":
        return a + b
    if k == "-":
        return a - b
    if k == "*":
        return a * b
    if k == "floordiv":
        return a // b
    if k == "ceildiv":
        return -((-a) // b)
    if k == "mod":
        return a % b
    raise KeyError(k)


def build(t):
    """Builds the AffineExpr through the public operator API (this is what the property is about)."""
    from xdsl.ir.affine import AffineExpr

    k = t[0]
    if k == "c":
        return AffineExpr.constant(t[1])
    if k == "d":
        return AffineExpr.dimension(t[1])
    if k == "s":
        return AffineExpr.symbol(0)
    if k in ("+", "-", "*") and len(t) > 3 and t[3] == "L" and t[1][0] == "c":
        # a Python int on the LEFT of the operator (reflected operators __radd__ / __rsub__ / __rmul__)
        b = build(t[2])
        return t[1][1] + b if k == "+" else t[1][1] - b if k == "-" else t[1][1] * b
    a = build(t[1])
    if k == "neg":
        return -a
    if k in ("floordiv", "ceildiv", "mod") or (k == "*" and t[2][0] == "c"):
        b = t[2][1] if (t[3] if len(t) > 3 else False) else build(t[2])
    else:
        b = build(t[2])
    if k == "+":
        return a + b
    if k == "-":
        return a - b
    if k == "*":
        return a * b
    if k == "floordiv":
        return a // b
    if k == "ceildiv":
        return a.ceil_div(b)
    if k == "mod":
        return a % b
    raise KeyError(k)


def gen(rnd, depth):
    if depth == 0 or rnd.random() < 0.25:
        r = rnd.random()
        if r < 0.4:
            return ("c", rnd.randrange(-2, 4))
        if r < 0.8:
            return ("d", rnd.randrange(0, 2))
        return ("s", 0)
    k = rnd.choice(["+", "+", "-", "*", "*", "floordiv", "ceildiv", "mod", "neg"])
    a = gen(rnd, depth - 1)
    if k == "neg":
        return ("neg", a)
    if k in ("floordiv", "ceildiv", "mod"):
        return (k, a, ("c", rnd.randrange(1, 5)), rnd.random() < 0.5)
    if k == "*":
        c = ("c", rnd.randrange(-2, 4))
        return ("*", a, c, rnd.random() < 0.5) if rnd.random() < 0.7 else ("*", c, a)
    return (k, a, gen(rnd, depth - 1))


def _t(x):
    return tuple(_t(y) if isinstance(y, list) else y for y in x) if isinstance(x, (list, tuple)) else x


@rechecked
def check_tree(tree):
    from xdsl.ir.affine import AffineExpr, AffineMap
    from xdsl.parser import Parser
    from xdsl.context import Context

    tree = _t(tree)

    def crashed(stage, ex):
        # every divisor of a generated tree is a positive constant: no operation on it may raise (ZeroDivisionError, AssertionError, ...)
        return {"tree": tree, "stage": stage, "raised": repr(ex)[:200], "key": f"C26/{stage}"}

    try:
        e = build(tree)
    except NotImplementedError:
        return None  # semi-affine: outside the supported (and stated) domain
    except Exception as ex:  # noqa: BLE001
        return crashed("build", ex)
    stages = {"build": e}
    try:
        stages["simplify"] = e.simplify(2, 1)
    except NotImplementedError:
        pass
    except Exception as ex:  # noqa: BLE001
        return crashed("simplify", ex)
    # replace dims/symbols and compose with a map: d0 -> d1 + 1, d1 -> d0 * 2, s0 -> s0
    nd = [AffineExpr.dimension(1) + 1, AffineExpr.dimension(0) * 2]
    ns = [AffineExpr.symbol(0)]
    try:
        repl = e.replace_dims_and_symbols(nd, ns)
        comp = e.compose(AffineMap(2, 1, tuple(nd)))
    except Exception as ex:  # noqa: BLE001
        return crashed("replace_dims_and_symbols", ex)
    # print / re-parse through an affine map
    m = AffineMap(2, 1, (e,))
    text = str(m)
    try:
        from xdsl.parser.affine_parser import AffineParser
        from xdsl.utils.lexer import Input
        from xdsl.parser.generic_parser import ParserState
        from xdsl.utils.mlir_lexer import MLIRLexer

        p = AffineParser(ParserState(MLIRLexer(Input(text, "<str>"))))
        parsed = p.parse_affine_map().results[0]
    except Exception as ex:  # noqa: BLE001
        return {"tree": tree, "printed": text, "parse raised": repr(ex), "key": "C26/print-parse"}
    stages["print-parse"] = parsed
    for (d0, d1, s0) in ENVS:
        exp = ref_eval(tree, d0, d1, s0)
        for name, x in stages.items():
            try:
                got = x.eval([d0, d1], [s0])
            except Exception as ex:  # noqa: BLE001
                return crashed(name, ex)
            if got != exp:
                return {"tree": tree, "stage": name, "expr": str(x), "env (d0,d1,s0)": (d0, d1, s0), "eval": got, "expected": exp, "key": f"C26/{name}"}
        exp2 = ref_eval(tree, d1 + 1, d0 * 2, s0)
        for name, x in (("replace_dims_and_symbols", repl), ("compose", comp)):
            try:
                got = x.eval([d0, d1], [s0])
            except Exception as ex:  # noqa: BLE001
                return crashed(name, ex)
            if got != exp2:
                return {"tree": tree, "stage": name, "expr": str(x), "env (d0,d1,s0)": (d0, d1, s0), "eval": got, "expected": exp2, "key": f"C26/{name}"}
    return None


def explore(tier, seed):
    rnd = random.Random(seed)
    n = 400 if tier == "quick" else 5000
    cases = 0
    fails = []
    seen = set()
    for _ in range(n):
        t = gen(rnd, 3)
        cases += 1
        f = check_tree(t)
        if f and f["key"] not in seen:
            seen.add(f["key"])
            fails.append(f)
    # exhaustive linear family (a*d0 + b*s0 + c) OP k: exercises the gcd / constant-term handling of the flattener
    A_ = (-2, 2, 3, 4) if tier == "quick" else (-4, -2, 0, 2, 3, 4, 6)
    B_ = (0, 4) if tier == "quick" else (0, 2, 4)
    C_ = range(-3, 4) if tier == "quick" else range(-4, 5)
    K_ = (2, 3, 4, 6) if tier == "quick" else (1, 2, 3, 4, 6)
    for a in A_:
        for b in B_:
            for c in C_:
                for k in K_:
                    for op in ("floordiv", "ceildiv", "mod"):
                        lin = ("+", ("+", ("*", ("d", 0), ("c", a), True), ("*", ("s", 0), ("c", b), True)), ("c", c))
                        for t in ((op, lin, ("c", k), True), ("+", (op, lin, ("c", k), False), ("d", 1))):
                            cases += 1
                            f = check_tree(t)
                            if f and f["key"] not in seen:
                                seen.add(f["key"])
                                fails.append(f)
    # two division-like terms over the SAME linear numerator in one expression: the flattener reuses the local it introduced for the first quotient
    # (also when the second term only has the gcd-reduced quotient in common with the first)
    import math

    for a in A_:
        for c in ((-1, 0, 2) if tier == "quick" else C_):
            for k in K_:
                lin = ("+", ("*", ("d", 0), ("c", a), True), ("c", c))
                g = math.gcd(abs(a), k) if c % math.gcd(abs(a), k) == 0 else 1
                fams = [("+", (o1, lin, ("c", k), True), (o2, lin, ("c", k), False)) for o1 in ("floordiv", "ceildiv", "mod") for o2 in ("floordiv", "ceildiv", "mod")]
                if g > 1:
                    red = ("+", ("*", ("d", 0), ("c", a // g), True), ("c", c // g))
                    fams += [("+", ("floordiv", red, ("c", k // g), True), (o2, lin, ("c", k), True)) for o2 in ("floordiv", "ceildiv", "mod")]
                for t in fams:
                    cases += 1
                    f = check_tree(t)
                    if f and f["key"] not in seen:
                        seen.add(f["key"])
                        fails.append(f)
    # a Python int on the left of + - * (reflected operators)
    for o in ("+", "-", "*"):
        for cst in (-2, 0, 1, 3):
            for rhs in (("d", 0), ("c", 4), ("+", ("*", ("d", 0), ("c", 2), True), ("c", 1)), ("s", 0)):
                cases += 1
                f = check_tree((o, ("c", cst), rhs, "L"))
                if f and f["key"] not in seen:
                    seen.add(f["key"])
                    fails.append(f)
    # constant folding on integers that a binary64 cannot represent exactly (affine constants are unbounded Python ints)
    for a in (2**53 + 1, -(2**53 + 1), 2**62 + 3, 10**18 + 7, -(10**18) - 7):
        for b in (1, 2, 3, 7):
            for o in ("floordiv", "ceildiv", "mod", "+", "-", "*"):
                t = (o, ("c", a), ("c", b), True) if o in ("floordiv", "ceildiv", "mod", "*") else (o, ("c", a), ("c", b))
                for t2 in (t, ("+", t, ("d", 0))):
                    cases += 1
                    f = check_tree(t2)
                    if f and f["key"] not in seen:
                        seen.add(f["key"])
                        fails.append(f)
    # a division-like operator by a constant applied directly to another one: (e OP1 c1) OP2 c2, every pair of small constants (divisor / multiple / coprime pairs)
    CS = (1, 2, 3, 4, 6) if tier == "quick" else (1, 2, 3, 4, 5, 6, 8, 12)
    for e in (("d", 0), ("+", ("*", ("d", 0), ("c", 2), True), ("c", 1))):
        for o1 in ("floordiv", "ceildiv", "mod"):
            for o2 in ("floordiv", "ceildiv", "mod"):
                for c1 in CS:
                    for c2 in CS:
                        for as_int in ((True, False) if tier != "quick" else (True,)):
                            cases += 1
                            f = check_tree((o2, (o1, e, ("c", c1), as_int), ("c", c2), as_int))
                            if f and f["key"] not in seen:
                                seen.add(f["key"])
                                fails.append(f)
    return {"cases": cases, "failures": fails, "exhaustive": False,
            "bound": f"{n} seeded expression trees of depth <= 3 over d0, d1, s0 and constants (+, -, neg, * by constants, floordiv/ceildiv/mod by positive "
                     f"constants, int and AffineExpr operands); build / simplify / replace_dims_and_symbols / compose / print+parse, each evaluated on "
                     f"all {len(ENVS)} assignments of a box against an independent evaluator; plus the exhaustive linear family (a*d0 + b*s0 + c) "
                     f"floordiv/ceildiv/mod k over small coefficient grids, sums of two division-like terms over the same (or gcd-reduced) linear numerator, every nesting (e OP1 c1) OP2 c2 of two division-like operators by small constants, constant folding of every binary operator on constants beyond 2^53, and + - * with a Python int as the LEFT operand"}
