"""Native (executable) reading of the C15 contracts: real ops, real interpreter, Python reference."""

from __future__ import annotations

import itertools
import math
import random
import struct

from contracts.common import rechecked

_cache = {}


def _interp(index_bitwidth=64):
    key = ("interp", index_bitwidth)
    if key not in _cache:
        from xdsl.dialects.builtin import ModuleOp
        from xdsl.interpreter import Interpreter
        from xdsl.interpreters.arith import ArithFunctions

        it = Interpreter(ModuleOp([]), index_bitwidth=index_bitwidth)
        it.register_implementations(ArithFunctions())
        _cache[key] = it
    return _cache[key]


def _val(ty):
    from xdsl.dialects import test

    return test.TestOp(result_types=[ty]).results[0]


OPS = {
    "run_addi": "AddiOp", "run_subi": "SubiOp", "run_muli": "MuliOp", "run_andi": "AndIOp", "run_ori": "OrIOp",
    "run_xori": "XOrIOp", "run_shlsi": "ShLIOp", "run_shrsi": "ShRSIOp", "run_divsi": "DivSIOp", "run_remsi": "RemSIOp",
    "run_floordivsi": "FloorDivSIOp",
}  # fmt: skip


def sgn(x, w):
    if w == 0:
        return 0
    M = 1 << w
    x %= M
    return x - M if x >= M // 2 else x


def tdiv(a, b):
    q = abs(a) // abs(b)
    return q if (a >= 0) == (b >= 0) else -q


def ref_int(fn, w, a, b):
    """Expected bit pattern (unsigned) or None when MLIR leaves the result undefined/poison."""
    M = 1 << w
    A, B = a % M, b % M
    sa, sb = sgn(a, w), sgn(b, w)
    if fn == "run_addi":
        return (A + B) % M
    if fn == "run_subi":
        return (A - B) % M
    if fn == "run_muli":
        return (A * B) % M
    if fn == "run_andi":
        return A & B
    if fn == "run_ori":
        return A | B
    if fn == "run_xori":
        return A ^ B
    if fn == "run_shlsi":
        return None if B >= w else (A << B) % M
    if fn == "run_shrsi":
        return None if B >= w else (sa >> B) % M
    if fn in ("run_divsi", "run_remsi", "run_floordivsi"):
        if B == 0 or (sa == -(M // 2) and sb == -1):
            return None
        if fn == "run_divsi":
            return tdiv(sa, sb) % M
        if fn == "run_remsi":
            return (sa - tdiv(sa, sb) * sb) % M
        return (sa // sb) % M
    raise KeyError(fn)


def ref_cmpi(pred, w, a, b):
    M = 1 << w
    A, B = a % M, b % M
    sa, sb = sgn(a, w), sgn(b, w)
    return [A == B, A != B, sa < sb, sa <= sb, sa > sb, sa >= sb, A < B, A <= B, A > B, A >= B][pred]


def run_int(fn, w, a, b):
    from xdsl.dialects import arith
    from xdsl.dialects.builtin import IntegerType

    ty = IntegerType(w)
    op = getattr(arith, OPS[fn])(_val(ty), _val(ty))
    (r,) = _interp().run_op(op, (a, b))
    return r


@rechecked
def check_int(fn, w, a, b):
    """None if the contract holds on the real code for this input, else a description."""
    exp = ref_int(fn, w, a, b)
    if exp is None:
        return None
    if fn in ("run_shlsi", "run_shrsi") and b < 0:
        return None  # outside the representation precondition of the shift implementations
    try:
        r = run_int(fn, w, a, b)
    except Exception as e:  # noqa: BLE001
        return {"call": f"{fn} : i{w} ({a}, {b})", "raised": repr(e), "expected_bits": exp}
    M = 1 << w
    if not (-(M >> 1) <= r < M) or r % M != exp:
        return {"call": f"{fn} : i{w} ({a}, {b})", "observed": r, "expected_bits": exp,
                "expected_signed": sgn(exp, w)}
    return None


def run_cmpi(pred, w, a, b):
    from xdsl.dialects import arith
    from xdsl.dialects.builtin import IntegerType

    ty = IntegerType(w)
    op = arith.CmpiOp(_val(ty), _val(ty), pred)
    (r,) = _interp().run_op(op, (a, b))
    return r


@rechecked
def check_cmpi(pred, w, a, b):
    exp = ref_cmpi(pred, w, a, b)
    try:
        r = run_cmpi(pred, w, a, b)
    except Exception as e:  # noqa: BLE001
        return {"call": f"cmpi pred={pred} : i{w} ({a}, {b})", "raised": repr(e), "expected": exp}
    if bool(r) != exp:
        return {"call": f"cmpi pred={pred} : i{w} ({a}, {b})", "observed": r, "expected": exp}
    return None


@rechecked
def check_indexcast(wi, wo, x):
    from xdsl.dialects import arith
    from xdsl.dialects.builtin import IntegerType

    op = arith.IndexCastOp(_val(IntegerType(wi)), IntegerType(wo)) if True else None
    exp = sgn(x, wi) % (1 << wo)
    try:
        (r,) = _interp().run_op(op, (x,))
    except Exception as e:  # noqa: BLE001
        return {"call": f"index_cast i{wi}->i{wo} ({x})", "raised": repr(e)}
    Mo = 1 << wo
    if not (-(Mo >> 1) <= r < Mo) or r % Mo != exp:
        return {"call": f"index_cast i{wi}->i{wo} ({x})", "observed": r, "expected_bits": exp}
    return None


@rechecked
def check_indexcast_real(direction, w, index_bw, x):
    """arith.index_cast between the real IndexType (interpreter index width index_bw) and iW: sign-extension when widening, truncation when narrowing."""
    from xdsl.dialects import arith
    from xdsl.dialects.builtin import IndexType, IntegerType

    src, dst = (IntegerType(w), IndexType()) if direction == "to_index" else (IndexType(), IntegerType(w))
    wi, wo = (w, index_bw) if direction == "to_index" else (index_bw, w)
    op = arith.IndexCastOp(_val(src), dst)
    exp = sgn(x, wi) % (1 << wo)
    try:
        (r,) = _interp(index_bw).run_op(op, (x,))
    except Exception as e:  # noqa: BLE001
        return {"call": f"index_cast {src}->{dst} (index width {index_bw}) ({x})", "raised": repr(e)}
    Mo = 1 << wo
    if not (-(Mo >> 1) <= r < Mo) or r % Mo != exp:
        return {"call": f"index_cast {src}->{dst} (index width {index_bw}) ({x})", "observed": r, "expected_bits": exp}
    return None


def explore_casts(tier, seed):
    import random

    rnd = random.Random(seed)
    cases, fails = 0, []
    for index_bw in (32, 64):
        for w in (1, 8, 16, 32, 64, 128):
            for direction in ("to_index", "from_index"):
                wi = w if direction == "to_index" else index_bw
                for x in signless_values(wi, rnd, 12 if tier == "quick" else 60):
                    cases += 1
                    f = check_indexcast_real(direction, w, index_bw, x)
                    if f and not fails:
                        fails.append(dict(f, key="C15/xdsl.interpreters.arith.ArithFunctions.run_indexcast/post#bits", inputs={}))
    return {"cases": cases, "failures": fails, "exhaustive": False,
            "bound": "arith.index_cast between the real index type (interpreter index widths 32 and 64) and i1/i8/i16/i32/i64/i128, both directions, boundary + seeded operands"}


def signless_values(w, rnd=None, extra=24):
    """All signless representatives for w <= 3, boundary + random above."""
    lo, hi = -((1 << w) >> 1), 1 << w
    if w <= 3:
        return list(range(lo, hi))
    h = 1 << (w - 1)
    vals = {lo, lo + 1, -1, 0, 1, 2, h - 1, h, h + 1, hi - 2, hi - 1, -2, w - 1, w, 3, 7}
    vals = {v for v in vals if lo <= v < hi}
    if rnd is not None:
        for _ in range(extra):
            vals.add(rnd.randrange(lo, hi))
    return sorted(vals)


def search_int(fn, w, seed):
    rnd = random.Random(seed)
    ws = [x for x in (1, 2, 3, w) if x <= max(w, 3)]
    for ww in dict.fromkeys(ws):
        vs = signless_values(ww, rnd)
        for a, b in itertools.product(vs, vs):
            f = check_int(fn, ww, a, b)
            if f:
                return f
    return None


def search_cmpi(pred, w, seed):
    rnd = random.Random(seed)
    for ww in dict.fromkeys([1, 2, 3, w]):
        vs = signless_values(ww, rnd)
        for a, b in itertools.product(vs, vs):
            f = check_cmpi(pred, ww, a, b)
            if f:
                return f
    return None


# --------------------------------------------------------------------------- floats
def f32_round(x):
    try:
        return struct.unpack("<f", struct.pack("<f", x))[0]
    except OverflowError:
        return math.copysign(math.inf, x)


def same_float(a, b):
    if a != a or b != b:
        return a != a and b != b
    return struct.pack("<d", a) == struct.pack("<d", b)


FOPS = {"run_addf": "AddfOp", "run_subf": "SubfOp", "run_mulf": "MulfOp", "run_minimumf": "MinimumfOp",
        "run_maximumf": "MaximumfOp"}


def ref_float(fn, x, y):
    if fn == "run_addf":
        return x + y
    if fn == "run_subf":
        return x - y
    if fn == "run_mulf":
        return x * y
    nan = x != x or y != y
    if nan:
        return math.nan
    if fn == "run_minimumf":
        if x == 0 and y == 0:
            return -0.0 if (math.copysign(1, x) < 0 or math.copysign(1, y) < 0) else 0.0
        return x if x < y else y
    if fn == "run_maximumf":
        if x == 0 and y == 0:
            return 0.0 if (math.copysign(1, x) > 0 or math.copysign(1, y) > 0) else -0.0
        return x if x > y else y
    raise KeyError(fn)


@rechecked
def check_float(fn, ty, x, y):
    from xdsl.dialects import arith
    from xdsl.dialects.builtin import f32, f64

    t = {"f32": f32, "f64": f64}[ty]
    op = getattr(arith, FOPS[fn])(_val(t), _val(t))
    try:
        (r,) = _interp().run_op(op, (x, y))
    except Exception as e:  # noqa: BLE001
        return {"call": f"{fn} : {ty} ({x!r}, {y!r})", "raised": repr(e)}
    exp = ref_float(fn, x, y)
    if ty == "f32":
        exp = f32_round(exp)
    if not same_float(float(r), exp):
        return {"call": f"{fn} : {ty} ({x!r}, {y!r})", "observed": repr(r), "expected": repr(exp)}
    return None


@rechecked
def check_cmpf(pred, x, y):
    from xdsl.dialects import arith
    from xdsl.dialects.builtin import f64

    op = arith.CmpfOp(_val(f64), _val(f64), pred)
    (r,) = _interp().run_op(op, (x, y))
    o = not (x != x or y != y)
    u = not o
    base = {1: x == y, 2: x > y, 3: x >= y, 4: x < y, 5: x <= y, 6: (x < y or x > y)}
    if pred == 0:
        exp = False
    elif pred == 15:
        exp = True
    elif pred == 7:
        exp = o
    elif pred == 14:
        exp = u
    elif pred <= 6:
        exp = o and base[pred]
    else:
        exp = u or base[pred - 7]
    if bool(r) != exp:
        return {"call": f"cmpf pred={pred} ({x!r}, {y!r})", "observed": r, "expected": exp}
    return None


FLOATS = [0.0, -0.0, 1.0, -1.0, 0.5, 1.5, -2.5, math.inf, -math.inf, math.nan, 5e-324, -5e-324, 2.2250738585072014e-308,
          1.7976931348623157e308, 1e-45, 3.4028234663852886e38, 16777216.0, 16777217.0, 0.1, 1 / 3]
