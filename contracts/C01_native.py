"""
Bounded stand-in / replay oracle for C01: seeded sequences of public IR-mutation calls on small
IR, with the structural invariants (contracts.ir_native.check_invariants) checked after every
successful call.  Calls that raise are skipped: the sequence is abandoned (partial mutation of a
raising call is outside the property).
"""

from __future__ import annotations

import random

from contracts.common import rechecked
from contracts.ir_native import Broken, blocks_forward, check_invariants, collect, mk_op, mk_term, ops_forward


class World:
    def __init__(self, rnd):
        from xdsl.dialects.builtin import ModuleOp
        from xdsl.ir import Block, Region

        self.rnd = rnd
        # a module with one op holding a 2-block region, plus a few detached pieces
        b0 = Block(arg_types=[self.ty()])
        b1 = Block(arg_types=[self.ty(), self.ty()])
        o1 = mk_op(nres=2)
        o2 = mk_op([o1.results[0], b0.args[0]], nres=1)
        b0.add_ops([o1, o2, mk_term([b1], [o2.results[0]])])
        o3 = mk_op([b1.args[0], b1.args[1]])
        b1.add_ops([o3, mk_term([b0, b1])])
        holder = mk_op(regions=[Region([b0, b1]), Region([Block([mk_op()])])], nres=1)
        self.module = ModuleOp([holder, mk_op([holder.results[0]])])
        self.roots = [self.module]
        self.trace = []

    def ty(self):
        from xdsl.dialects.builtin import i32, i64

        return self.rnd.choice([i32, i64])

    # ---- enumeration ------------------------------------------------------------------
    def everything(self):
        return collect(self.roots)

    def attached_ops(self):
        return [o for o in self.everything()[0] if o.parent is not None]

    def detached_ops(self):
        from xdsl.ir import Operation

        return [r for r in self.roots if isinstance(r, Operation) and r is not self.module]

    def detached_blocks(self):
        from xdsl.ir import Block

        return [r for r in self.roots if isinstance(r, Block)]

    def detached_regions(self):
        from xdsl.ir import Region

        return [r for r in self.roots if isinstance(r, Region)]

    def all_values(self):
        ops, blocks, _ = self.everything()
        vals = []
        for o in ops:
            vals += list(o.results)
        for b in blocks:
            vals += list(b._args)
        return vals

    def pick(self, xs):
        if not xs:
            raise Skip()
        return self.rnd.choice(xs)

    def new_op(self):
        vals = self.all_values()
        k = self.rnd.randrange(0, 3)
        operands = [self.rnd.choice(vals) for _ in range(k)] if vals else []
        regions = []
        if self.rnd.random() < 0.15:
            from xdsl.ir import Block, Region

            regions = [Region([Block([mk_op()], arg_types=[self.ty()])])]
        return mk_op(operands, nres=self.rnd.randrange(0, 3), regions=regions)

    def unroot(self, x):
        self.roots = [r for r in self.roots if r is not x]

    def is_inside(self, x, container):
        """x is `container` or nested inside it."""
        cur = x
        while cur is not None:
            if cur is container:
                return True
            cur = cur.parent
        return False


class Skip(Exception):
    pass


def _blocks(w):
    return w.everything()[1]


def _regions(w):
    return w.everything()[2]


# Each action returns a description string; may raise Skip if not applicable.
def a_add_op(w):
    b = w.pick(_blocks(w))
    o = w.new_op()
    b.add_op(o)
    return "Block.add_op(new)"


def a_insert_before(w):
    e = w.pick(w.attached_ops())
    o = w.new_op()
    e.parent.insert_op_before(o, e)
    return "Block.insert_op_before(new, existing)"


def a_insert_after(w):
    e = w.pick(w.attached_ops())
    o = w.new_op()
    e.parent.insert_op_after(o, e)
    return "Block.insert_op_after(new, existing)"


def a_insert_ops(w):
    e = w.pick(w.attached_ops())
    ops = [w.new_op() for _ in range(w.rnd.randrange(0, 3))]
    if w.rnd.random() < 0.5:
        e.parent.insert_ops_before(ops, e)
        return f"Block.insert_ops_before({len(ops)} new, existing)"
    e.parent.insert_ops_after(ops, e)
    return f"Block.insert_ops_after({len(ops)} new, existing)"


def a_reinsert_detached(w):
    o = w.pick(w.detached_ops())
    cands = [b for b in _blocks(w) if not w.is_inside(b, o)]
    b = w.pick(cands)
    ex = ops_forward(b)
    k = w.rnd.randrange(0, 3)
    if k == 0 or not ex:
        b.add_op(o)
        d = "Block.add_op(detached)"
    elif k == 1:
        b.insert_op_before(o, w.rnd.choice(ex))
        d = "Block.insert_op_before(detached, existing)"
    else:
        b.insert_op_after(o, w.rnd.choice(ex))
        d = "Block.insert_op_after(detached, existing)"
    w.unroot(o)
    return d


def a_detach_op(w):
    o = w.pick([x for x in w.attached_ops() if x is not w.module])
    if w.rnd.random() < 0.5:
        o.parent.detach_op(o)
        d = "Block.detach_op(op)"
    else:
        o.detach()
        d = "Operation.detach()"
    w.roots.append(o)
    return d


def a_erase_op(w):
    from xdsl.rewriter import Rewriter

    o = w.pick([x for x in w.attached_ops() if x is not w.module])
    k = w.rnd.randrange(0, 2)
    if k == 0:
        o.parent.erase_op(o, safe_erase=False)
        return "Block.erase_op(op, safe_erase=False)"
    Rewriter.erase_op(o, safe_erase=False)
    return "Rewriter.erase_op(op, safe_erase=False)"


def a_erase_detached(w):
    o = w.pick(w.detached_ops())
    o.erase(safe_erase=False)
    w.unroot(o)
    return "Operation.erase(detached, safe_erase=False)"


def a_split(w):
    o = w.pick([x for x in w.attached_ops() if x.parent.parent is not None])
    o.parent.split_before(o, arg_types=[w.ty()] if w.rnd.random() < 0.5 else [])
    return "Block.split_before(op)"


def a_insert_arg(w):
    b = w.pick(_blocks(w))
    b.insert_arg(w.ty(), w.rnd.randrange(0, len(b._args) + 1))
    return "Block.insert_arg"


def a_erase_arg(w):
    b = w.pick([b for b in _blocks(w) if b._args])
    b.erase_arg(w.rnd.choice(b._args), safe_erase=False)
    return "Block.erase_arg(safe_erase=False)"


def a_set_operand(w):
    o = w.pick([x for x in w.everything()[0] if x._operands])
    v = w.pick(w.all_values())
    n = len(o._operands)
    i = w.rnd.randrange(-2 * n, 2 * n)
    o.operands[i] = v
    return f"op.operands[{i}] = value  (op has {n} operands)"


def a_set_operands(w):
    o = w.pick(w.everything()[0])
    vals = w.all_values()
    new = [w.rnd.choice(vals) for _ in range(w.rnd.randrange(0, 4))] if vals else []
    o.operands = new
    return f"op.operands = [{len(new)} values]"


def a_set_successor(w):
    o = w.pick([x for x in w.everything()[0] if x._successors])
    b = w.pick(_blocks(w))
    n = len(o._successors)
    i = w.rnd.randrange(-2 * n, 2 * n)
    o.successors[i] = b
    return f"op.successors[{i}] = block  (op has {n} successors)"


def a_set_successors(w):
    o = w.pick(w.everything()[0])
    bl = _blocks(w)
    new = [w.rnd.choice(bl) for _ in range(w.rnd.randrange(0, 3))] if bl else []
    o.successors = new
    return f"op.successors = [{len(new)} blocks]"


def a_rauw(w):
    vals = w.all_values()
    a, b = w.pick(vals), w.pick(vals)
    if w.rnd.random() < 0.5:
        a.replace_all_uses_with(b)
        return "SSAValue.replace_all_uses_with"
    par = w.rnd.randrange(0, 2)
    a.replace_uses_with_if(b, lambda use: use.index % 2 == par)
    return "SSAValue.replace_uses_with_if"


def a_add_region(w):
    from xdsl.ir import Block, Region

    o = w.pick(w.everything()[0])
    det = [r for r in w.detached_regions() if not w.is_inside(o, r)]
    if det and w.rnd.random() < 0.6:
        r = w.rnd.choice(det)
        o.add_region(r)
        w.unroot(r)
        return "Operation.add_region(detached)"
    o.add_region(Region([Block([mk_op()])]))
    return "Operation.add_region(new)"


def a_detach_region(w):
    o = w.pick([x for x in w.everything()[0] if x.regions and x is not w.module])
    n = len(o.regions)
    i = w.rnd.randrange(-2 * n, 2 * n)
    if not -n <= i < n:
        raise Skip()
    r = o.detach_region(i if w.rnd.random() < 0.5 else o.regions[i])
    w.roots.append(r)
    return f"Operation.detach_region({i})  (op has {n} regions)"


def a_add_block(w):
    from xdsl.ir import Block

    r = w.pick(_regions(w))
    det = [b for b in w.detached_blocks() if not w.is_inside(r, b)]
    k = w.rnd.randrange(0, 4)
    ex = blocks_forward(r)
    if det and w.rnd.random() < 0.5:
        nb = [w.rnd.choice(det)]
        for b in nb:
            w.unroot(b)
    else:
        nb = [Block([mk_op()], arg_types=[w.ty()]) for _ in range(w.rnd.randrange(1, 3))]
    arg = nb[0] if len(nb) == 1 and w.rnd.random() < 0.5 else nb
    if k == 0 or not ex:
        r.add_block(arg)
        return f"Region.add_block({len(nb)})"
    if k == 1:
        r.insert_block_before(arg, w.rnd.choice(ex))
        return f"Region.insert_block_before({len(nb)})"
    if k == 2:
        r.insert_block_after(arg, w.rnd.choice(ex))
        return f"Region.insert_block_after({len(nb)})"
    idx = w.rnd.randrange(0, len(ex) + 1)
    r.insert_block(arg, idx)
    return f"Region.insert_block({len(nb)}, {idx})"


def a_detach_block(w):
    r = w.pick([r for r in _regions(w) if r._first_block is not None])
    ex = blocks_forward(r)
    b = w.rnd.choice(ex)
    if w.rnd.random() < 0.5:
        r.detach_block(b)
    else:
        r.detach_block(ex.index(b) - (len(ex) if w.rnd.random() < 0.3 else 0))
    w.roots.append(b)
    return "Region.detach_block"


def a_erase_block(w):
    r = w.pick([r for r in _regions(w) if r._first_block is not None])
    b = w.rnd.choice(blocks_forward(r))
    for o in ops_forward(b):  # make erasure legal w.r.t. uses outside: drop them
        for res in o.results:
            pass
    r.erase_block(b, safe_erase=False)
    return "Region.erase_block(safe_erase=False)"


def a_move_blocks(w):
    from xdsl.rewriter import BlockInsertPoint, Rewriter

    regs = _regions(w)
    src = w.pick(regs)
    dst = w.pick([r for r in regs if r is not src and not w.is_inside(r, src)])
    k = w.rnd.randrange(0, 4)
    ex = blocks_forward(dst)
    if k == 0 or not ex:
        src.move_blocks(dst)
        return "Region.move_blocks"
    if k == 1:
        src.move_blocks_before(w.rnd.choice(ex))
        return "Region.move_blocks_before"
    if k == 2:
        Rewriter.inline_region(src, BlockInsertPoint.before(w.rnd.choice(ex)))
        return "Rewriter.inline_region(before)"
    Rewriter.inline_region(src, BlockInsertPoint.at_end(dst))
    return "Rewriter.inline_region(at_end)"


def a_move_to_new_region(w):
    from xdsl.rewriter import Rewriter

    src = w.pick(_regions(w))
    r = Rewriter.move_region_contents_to_new_regions(src)
    w.roots.append(r)
    return "Rewriter.move_region_contents_to_new_regions"


def a_replace_op(w):
    from xdsl.rewriter import Rewriter

    o = w.pick([x for x in w.attached_ops() if x is not w.module and not x.regions])
    n = len(o.results)
    k = w.rnd.randrange(0, 3)
    if k == 0:
        new = mk_op(nres=n)
        Rewriter.replace_op(o, new, safe_erase=False)
        return "Rewriter.replace_op(op, new)"
    if k == 1:
        new = [mk_op(), mk_op(nres=n)]
        Rewriter.replace_op(o, new, safe_erase=False)
        return "Rewriter.replace_op(op, [new, new])"
    vals = [v for v in w.all_values() if v.owner is not o]
    if len(vals) < n:
        raise Skip()
    res = [w.rnd.choice(vals) if w.rnd.random() < 0.8 else None for _ in range(n)]
    Rewriter.replace_op(o, [], res, safe_erase=False)
    return "Rewriter.replace_op(op, [], values)"


def a_retype(w):
    from xdsl.rewriter import Rewriter

    v = w.pick(w.all_values())
    Rewriter.replace_value_with_new_type(v, w.ty())
    return "Rewriter.replace_value_with_new_type"


def a_inline_block(w):
    from xdsl.rewriter import InsertPoint, Rewriter

    src = w.pick([b for b in _blocks(w) if b.first_use is None])
    cands = [o for o in w.attached_ops() if not w.is_inside(o, src) and o.parent is not src]
    tgt = w.pick(cands)
    vals = [v for v in w.all_values() if getattr(v, "block", None) is not src]
    args = [w.rnd.choice(vals) for _ in src._args] if w.rnd.random() < 0.7 and vals else ()
    if not args and src._args:
        for a in list(src._args):
            if a.first_use is not None:
                raise Skip()
    ip = InsertPoint.before(tgt) if w.rnd.random() < 0.6 else InsertPoint.at_end(tgt.parent)
    was_root = any(r is src for r in w.roots)
    Rewriter.inline_block(src, ip, args)
    if was_root:
        w.unroot(src)
    return "Rewriter.inline_block"


def a_pattern_rewriter(w):
    from xdsl.pattern_rewriter import PatternRewriter
    from xdsl.rewriter import InsertPoint

    o = w.pick([x for x in w.attached_ops() if x is not w.module and not x.regions])
    rw = PatternRewriter(o)
    k = w.rnd.randrange(0, 6)
    if k == 0:
        rw.insert_op(w.new_op(), InsertPoint.before(o))
        return "PatternRewriter.insert_op(before)"
    if k == 1:
        rw.insert_op([w.new_op(), w.new_op()], InsertPoint.after(o))
        return "PatternRewriter.insert_op(after)"
    if k == 2:
        rw.replace_op(o, mk_op(nres=len(o.results)), safe_erase=False)
        return "PatternRewriter.replace_op"
    if k == 3:
        rw.erase_op(o, safe_erase=False)
        return "PatternRewriter.erase_op"
    if k == 4:
        b = w.pick(_blocks(w))
        rw.insert_block_argument(b, w.rnd.randrange(0, len(b._args) + 1), w.ty())
        return "PatternRewriter.insert_block_argument"
    b = w.pick([b for b in _blocks(w) if b._args])
    rw.erase_block_argument(w.rnd.choice(b._args), safe_erase=False)
    return "PatternRewriter.erase_block_argument"


ACTIONS = [a_add_op, a_insert_before, a_insert_after, a_insert_ops, a_reinsert_detached, a_detach_op, a_erase_op, a_erase_detached,
           a_split, a_insert_arg, a_erase_arg, a_set_operand, a_set_operands, a_set_successor, a_set_successors, a_rauw,
           a_add_region, a_detach_region, a_add_block, a_detach_block, a_erase_block, a_move_blocks, a_move_to_new_region,
           a_replace_op, a_retype, a_inline_block, a_pattern_rewriter]


STATS: dict = {}


@rechecked
def run_sequence(seed, steps, only=None):
    """Returns None or a failure description for the seeded sequence."""
    rnd = random.Random(seed)
    w = World(rnd)
    try:
        check_invariants(w.roots)
    except Broken as e:
        return {"seed": seed, "trace": [], "broken": "initial IR: " + str(e)}
    acts = [a for a in ACTIONS if only is None or a.__name__ in only]
    done = 0
    for _ in range(steps):
        act = rnd.choice(acts)
        try:
            desc = act(w)
        except Skip:
            continue
        except Broken as e:
            return {"seed": seed, "trace": w.trace + [act.__name__], "broken": str(e)}
        except (ValueError, AssertionError, IndexError, KeyError, AttributeError, TypeError, StopIteration, RuntimeError) as e:
            STATS["raised:" + act.__name__] = STATS.get("raised:" + act.__name__, 0) + 1
            # a call that raises is skipped; the (possibly partially mutated) sequence is abandoned
            return None if done >= 0 else None
        w.trace.append(desc)
        STATS[act.__name__] = STATS.get(act.__name__, 0) + 1
        done += 1
        try:
            check_invariants(w.roots)
        except Broken as e:
            return {"seed": seed, "steps": steps, "trace": list(w.trace), "broken": str(e), "after": desc}
    return None


def explore(tier, seed):
    n = 1500 if tier == "quick" else 20000
    steps = 12
    cases = 0
    calls = 0
    fails = []
    for i in range(n):
        s = seed * 1_000_003 + i
        cases += 1
        f = run_sequence(s, steps)
        if f:
            f["key"] = "C01/ir-invariants"
            fails.append(f)
            break
    return {"cases": cases, "failures": fails, "exhaustive": False,
            "bound": f"{n} seeded sequences of <= {steps} public IR-mutation calls ({len(ACTIONS)} call kinds incl. Rewriter/PatternRewriter) on a 2-region, "
                     "3-block module; all C01 invariants re-checked after every successful call"}
