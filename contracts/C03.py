"""
C03 — Structural equivalence holds exactly for isomorphic IR.

Statement (quoted): "Two pieces of IR are reported structurally equivalent exactly when a
one-to-one correspondence of their values and blocks makes every operation agree on name, operand
correspondence, result types, attributes, properties, successors and nested regions, and every
block agree on argument types.  The check is reflexive ..., symmetric, and holds between IR and
its clone."

Each of the three mutually recursive functions is verified against its own level of the spec
relation: recursive calls are replaced by the callee's contract (uninterpreted equivalence
relations threaded through the context dictionary).  Operand/successor/result lists are symbolic
(unbounded); the number of regions per op, of ops and arguments per block and of blocks per
region is instantiated (0..2), which unrolls the loops over them.
"""

from __future__ import annotations

import itertools
import os

import z3

from contracts import C03_native as N03
from contracts.common import A, C, forall
from pyvc.spec import Builtin, Inline, Spec
from pyvc.values import Clause, VBool, VGlobal, VInt, VRef, VSeq, VTuple, Vocab, z_int

PROP = "C03"
CORE = "xdsl/ir/core.py"
CSE = "xdsl/transforms/common_subexpression_elimination.py"
I = z3.IntSort()
Bo = z3.BoolSort()
AII = z3.ArraySort(I, I)
AIB = z3.ArraySort(I, Bo)

VOCAB = Vocab({"parent": "ref"})

TYPE = z3.Function("type_of", I, I)  # value -> its type attribute (Int-coded; equal attributes <=> equal codes)
# equivalence relations of the callees, as functions of the context content at the call
EQ_REGION = z3.Function("eq_region", I, I, AIB, AII, Bo)
EQ_BLOCK = z3.Function("eq_block", I, I, AIB, AII, Bo)
EQ_OP = z3.Function("eq_op", I, I, AIB, AII, Bo)
CTX_DOM = {k: z3.Function(f"ctx_dom_after_{k}", I, I, AIB, AII, AIB) for k in ("region", "block", "op")}
CTX_VAL = {k: z3.Function(f"ctx_val_after_{k}", I, I, AIB, AII, AII) for k in ("region", "block", "op")}
EQ = {"region": EQ_REGION, "block": EQ_BLOCK, "op": EQ_OP}


class Callee(Spec):
    """x.is_structurally_equivalent(y, context) of the level below: result and context update are functions of (x, y, context)."""

    prop, file = PROP, CORE
    modifies = ["dict#dom", "dict#val"]

    def __init__(self, level):
        self.level = level
        self.qualname = {"region": "Region", "block": "Block", "op": "Operation"}[level] + ".is_structurally_equivalent"

    def result_value(self, st, a):
        return VBool(st.fresh_bool("eq"))

    def post(self, old, st, a, res):
        x, y, c = a["self"].z, a["other"].z, a["context"].z
        d0, v0 = old.dict_dom(c), old.dict_vals(c)
        r = z3.Int("cl!r")
        return [A("result", res.z == EQ[self.level](x, y, d0, v0)),
                A("context-after", z3.And(st.dict_dom(c) == CTX_DOM[self.level](x, y, d0, v0), st.dict_vals(c) == CTX_VAL[self.level](x, y, d0, v0))),
                A("other-dicts-untouched", forall([r], z3.Implies(r != c, z3.And(st.dict_dom(r) == old.dict_dom(r), st.dict_vals(r) == old.dict_vals(r)))))]


def seq(name):
    return VSeq(z3.Array(name, I, I), z3.Int("n_" + name), "ref")


def corr(dom, val, x):
    """context.get(x, x)"""
    return z3.If(dom[x], val[x], x)


DICT_UNION = z3.Function("dict_union_code", I, I, I)  # `a | b` on dictionaries: some dictionary determined by the two (nothing else is known)


def _content_binop(ex, st, op, a, b):
    from pyvc.engine import Res

    if op == "|" and isinstance(a, VRef) and isinstance(b, VRef) and a.cls == b.cls == "content":
        return [Res("val", VRef(DICT_UNION(a.z, b.z), "content"), st)]
    return None


class OpEq(Spec):
    prop, file, qualname = PROP, CORE, "Operation.is_structurally_equivalent"
    calls = {".is_structurally_equivalent": Callee("region")}
    globals = {"__binop__": _content_binop}

    def setup(self, st, inst):
        me = st.declare_input("self", z3.Int("self"))
        ot = st.declare_input("other", z3.Int("other"))
        c = st.declare_input("context", z3.Int("context"))
        na, nb = inst["regions"]
        self.s = {k: seq(k) for k in ("a_operands", "b_operands", "a_results", "b_results", "a_succ", "b_succ")}
        self.ra = [z3.Int(f"a_region{i}") for i in range(na)]
        self.rb = [z3.Int(f"b_region{i}") for i in range(nb)]
        # dictionaries are content codes (equal codes <=> equal dictionaries); the comparisons themselves are executed, not bound
        self.codes = {k: st.declare_input(k, z3.Int(k)) for k in ("a_attributes", "b_attributes", "a_properties", "b_properties")}
        self.flags = {"same_name": st.declare_input("same_name", z3.Bool("same_name")),
                      "same_attributes": self.codes["a_attributes"] == self.codes["b_attributes"],
                      "same_properties": self.codes["a_properties"] == self.codes["b_properties"]}
        return {"self": VRef(me, "Operation"), "other": VRef(ot, "Operation"), "context": VRef(c, "dict", ("dict", "ref", "ref")),
                "_c": c, "_me": me, "_ot": ot}

    def same_result_types(self):
        a, b = self.s["a_results"], self.s["b_results"]
        i = z3.Int("rt!i")
        return z3.And(a.n == b.n, forall([i], z3.Implies(z3.And(i >= 0, i < a.n), TYPE(a.arr[i]) == TYPE(b.arr[i]))))

    def bind(self, st, a, inst):
        s, f = self.s, self.flags
        return {
            "isinstance(other, Operation)": True,
            "self.name != other.name": VBool(z3.Not(f["same_name"])),
            "self.operands": s["a_operands"], "other.operands": s["b_operands"],
            "self.results": s["a_results"], "other.results": s["b_results"],
            "self.successors": s["a_succ"], "other.successors": s["b_succ"],
            "self.regions": VTuple([VRef(r, "Region") for r in self.ra]), "other.regions": VTuple([VRef(r, "Region") for r in self.rb]),
            "self.attributes": VRef(self.codes["a_attributes"], "content"), "other.attributes": VRef(self.codes["b_attributes"], "content"),
            "self.properties": VRef(self.codes["a_properties"], "content"), "other.properties": VRef(self.codes["b_properties"], "content"),
            "self.result_types != other.result_types": VBool(z3.Not(self.same_result_types())),
        }

    def pre(self, st, a):
        s = self.s
        return [A("lengths-nonneg", z3.And(*[v.n >= 0 for v in s.values()])),
                A("objects", z3.And(a["_me"] != 0, a["_ot"] != 0, a["_c"] != 0)),
                A("operands-are-objects", forall([z3.Int("j")], z3.And(s["a_operands"].arr[z3.Int("j")] != 0, s["b_operands"].arr[z3.Int("j")] != 0,
                                                                       s["a_succ"].arr[z3.Int("j")] != 0, s["b_succ"].arr[z3.Int("j")] != 0)))]

    def spec(self, old, a):
        """The statement's conjunction at operation level; returns (formula, final dom, final val)."""
        s, f = self.s, self.flags
        c = a["_c"]
        d0, v0 = old.dict_dom(c), old.dict_vals(c)
        i = z3.Int("sp!i")
        pa, pb = old.sel("parent", a["_me"]), old.sel("parent", a["_ot"])
        local = z3.And(
            f["same_name"], f["same_attributes"], f["same_properties"], self.same_result_types(),
            s["a_operands"].n == s["b_operands"].n, s["a_succ"].n == s["b_succ"].n, z3.BoolVal(len(self.ra) == len(self.rb)),
            # the parent blocks correspond WHEN the parent is part of the compared IR (registered in the context by the enclosing block comparison); at the root of
            # a comparison the parents lie outside the compared pieces and say nothing (an attached op is equivalent to itself)
            z3.Implies(z3.And(pa != 0, pb != 0, d0[pa]), v0[pa] == pb),
            forall([i], z3.Implies(z3.And(i >= 0, i < s["a_operands"].n), corr(d0, v0, s["a_operands"].arr[i]) == s["b_operands"].arr[i])),
            forall([i], z3.Implies(z3.And(i >= 0, i < s["a_succ"].n), corr(d0, v0, s["a_succ"].arr[i]) == s["b_succ"].arr[i])),
        )
        # results registered (positionally) before the regions are compared
        j = z3.Int("sp!j")
        ra_, rb_ = s["a_results"], s["b_results"]
        return local, d0, v0

    def post(self, old, st, a, res):
        local, d0, v0 = self.spec(old, a)
        s = self.s
        c = a["_c"]
        rz = res.z if isinstance(res, VBool) else z3.BoolVal(bool(res))
        out = [C("True-only-if-fields-agree", z3.Implies(rz, local))]
        if len(self.ra) == len(self.rb):
            # context seen by region i: entry context + results + updates of regions < i.  The results
            # registration is a loop over a symbolic zip: its effect is characterised pointwise.
            # iff-direction: if every local field agrees and every region is reported equivalent, the result is True
            dn, vn = st.dict_dom(c), st.dict_vals(c)
            k = z3.Int("po!k")
            out.append(C("results-registered-when-equivalent", z3.Implies(rz, forall([k], z3.Implies(
                z3.And(k >= 0, k < s["a_results"].n, len(self.ra) == 0), z3.And(dn[s["a_results"].arr[k]],
                                                                              z3.Implies(self.distinct_results(), vn[s["a_results"].arr[k]] == s["b_results"].arr[k])))))))
            if not self.ra:
                out.append(C("False-only-if-some-field-disagrees", z3.Implies(z3.Not(rz), z3.Not(local))))
        return out

    def distinct_results(self):
        a = self.s["a_results"]
        i, j = z3.Ints("dr!i dr!j")
        return forall([i, j], z3.Implies(z3.And(i >= 0, j >= 0, i < a.n, j < a.n, i != j), a.arr[i] != a.arr[j]))

    def inv(self, n, entry, st, a, lv):
        # the only symbolic loop: `for result, other_result in zip(self.results, other.results): context[result] = other_result`
        c = a["_c"]
        k = lv["k"]
        s = self.s
        de, ve = entry.dict_dom(c), entry.dict_vals(c)
        dn, vn = st.dict_dom(c), st.dict_vals(c)
        x, j, r = z3.Ints("iv!x iv!j iv!r")
        ar = s["a_results"]
        in_prefix = lambda y: z3.Exists([j], z3.And(j >= 0, j < k, ar.arr[j] == y))
        return [
            A("registered-prefix", forall([j], z3.Implies(z3.And(j >= 0, j < k), dn[ar.arr[j]]))),
            A("registered-values", z3.Implies(self.distinct_results(), forall([j], z3.Implies(z3.And(j >= 0, j < k), vn[ar.arr[j]] == s["b_results"].arr[j])))),
            A("rest-of-context-unchanged", forall([x], z3.Implies(z3.Not(in_prefix(x)), z3.And(dn[x] == de[x], vn[x] == ve[x])))),
            A("other-dicts-untouched", forall([r], z3.Implies(r != c, z3.And(st.dict_dom(r) == entry.dict_dom(r), st.dict_vals(r) == entry.dict_vals(r))))),
            A("fields-untouched", st.fld("parent") == entry.fld("parent")),
        ]

    def native_search(self, inst, seed):
        r = N03.explore("quick", seed)
        return r["failures"][0] if r["failures"] else None



# =============================================================================== Block and Region levels
def b_callee(level):
    """x.is_structurally_equivalent(y, context) of the level below; the context content at the k-th call is recorded in the ghost chain CD/CV."""

    def fn(ex, st, args, kw):
        from pyvc.engine import Res

        x, y, c = args[0].z, args[1].z, args[2].z
        d, v = st.dict_dom(c), st.dict_vals(c)
        k = st.ghost["cnt"]
        st.ghost["CD"] = z3.Store(st.ghost["CD"], k, d)
        st.ghost["CV"] = z3.Store(st.ghost["CV"], k, v)
        st.ghost["cnt"] = z3.simplify(k + 1)
        st.dict_store(c, CTX_DOM[level](x, y, d, v), CTX_VAL[level](x, y, d, v))
        return [Res("val", VBool(EQ[level](x, y, d, v)), st)]

    fn.modifies = ["dict#dom", "dict#val"]
    fn.ghost_modifies = ["CD", "CV", "cnt"]
    return fn


class LevelEq(Spec):
    """
    Block.is_structurally_equivalent (ops per block instantiated, arguments and results symbolic) and
    Region.is_structurally_equivalent (blocks per region and ops per block instantiated):
      True  => counts agree, argument types agree, and every child pair is equivalent IN A CONTEXT WHERE the block(s), ALL their arguments and
               ALL results of their operations are already registered (values and blocks may be used before their definition);
      False => some count / argument type disagrees or some child pair is not equivalent in that context.
    """

    prop, file = PROP, CORE
    modifies = ["dict#dom", "dict#val"]

    def __init__(self, level):
        self.level = level
        self.qualname = ("Block" if level == "block" else "Region") + ".is_structurally_equivalent"
        child = "op" if level == "block" else "block"
        self.calls = {".is_structurally_equivalent": Builtin(b_callee(child), f"callee contract: uninterpreted equivalence of the {child} level as a function of the context content")}

    @property
    def globals(self):
        def getattr_(ex, st, base, attr):
            if attr == "type":
                return VRef(TYPE(base.z), "Attribute")
            if attr in ("args", "ops", "results", "blocks"):
                return self.view.get((attr, base.z.get_id()))
            return None

        def isinst(ex, st, v, cls):
            return True if isinstance(cls, VGlobal) and cls.text in ("Block", "Region") else None

        return {"__getattr__": getattr_, "__isinstance__": isinst}

    # ---- symbolic shape: blocks = [(block ref, args seq, [(op ref, results seq)])] for self and other
    def _mk_block(self, tag, nops):
        b = z3.Int(f"{tag}")
        args = seq(f"{tag}_args")
        ops = [(z3.Int(f"{tag}_op{k}"), seq(f"{tag}_op{k}_results")) for k in range(nops)]
        self.view[("args", b.get_id())] = args
        self.view[("ops", b.get_id())] = VTuple([VRef(o, "Operation") for o, _ in ops])
        for o, r in ops:
            self.view[("results", o.get_id())] = r
        return (b, args, ops)

    def setup(self, st, inst):
        self.view = {}
        st.ghost["CD"] = z3.Const("CD0", z3.ArraySort(I, AIB))
        st.ghost["CV"] = z3.Const("CV0", z3.ArraySort(I, AII))
        st.ghost["cnt"] = z3.IntVal(0)
        c = st.declare_input("context", z3.Int("context"))
        if self.level == "block":
            self.A = [self._mk_block("a", inst["ops"][0])]
            self.B = [self._mk_block("b", inst["ops"][1])]
            me, ot = self.A[0][0], self.B[0][0]
        else:
            self.A = [self._mk_block(f"a_blk{i}", n) for i, n in enumerate(inst["a"])]
            self.B = [self._mk_block(f"b_blk{i}", n) for i, n in enumerate(inst["b"])]
            me, ot = z3.Int("self"), z3.Int("other")
            self.view[("blocks", me.get_id())] = VTuple([VRef(b, "Block") for b, _, _ in self.A])
            self.view[("blocks", ot.get_id())] = VTuple([VRef(b, "Block") for b, _, _ in self.B])
        st.declare_input("self", me)
        st.declare_input("other", ot)
        return {"self": VRef(me, "Block" if self.level == "block" else "Region"), "other": VRef(ot, "Block" if self.level == "block" else "Region"),
                "context": VRef(c, "dict", ("dict", "ref", "ref")), "_c": c}

    def _all_seqs(self):
        return [s for side in (self.A, self.B) for (_, args, ops) in side for s in [args] + [r for _, r in ops]]

    def pre(self, st, a):
        j = z3.Int("lp!j")
        refs = [b for side in (self.A, self.B) for (b, _, ops) in side] + [o for side in (self.A, self.B) for (_, _, ops) in side for o, _ in ops]
        out = [A("lengths-nonneg", z3.And(*[s.n >= 0 for s in self._all_seqs()])),
               A("objects", z3.And(a["_c"] != 0, a["self"].z != 0, a["other"].z != 0, *[r != 0 for r in refs])),
               A("values-are-objects", z3.And(*[forall([j], s.arr[j] != 0) for s in self._all_seqs()]))]
        return out

    # ---- registration facts ------------------------------------------------------
    def _registered(self, D, V, pairs_seq, pairs_obj):
        """Everything that must be in the context before the children are compared."""
        j = z3.Int("rg!j")
        cs = []
        for sa, sb in pairs_seq:
            cs.append(forall([j], z3.Implies(z3.And(j >= 0, j < sa.n, j < sb.n), D[sa.arr[j]])))
        for x, y in pairs_obj:
            cs.append(D[x])
        return z3.And(*cs) if cs else z3.BoolVal(True)

    def inv(self, n, entry, st, a, lv):
        # every symbolic loop of both functions is a registration loop `for x, y in zip(xs, ys): context[x] = y` (the argument loop of Block
        # additionally compares types and may return False from inside)
        c = a["_c"]
        k = lv["k"]
        it = lv["iter"]
        xs = it.parts[0]
        de, ve = entry.dict_dom(c), entry.dict_vals(c)
        dn, vn = st.dict_dom(c), st.dict_vals(c)
        x, j, r = z3.Ints("li!x li!j li!r")
        out = [A("registered-prefix", forall([j], z3.Implies(z3.And(j >= 0, j < k), dn[xs.arr[j]]))),
               A("context-only-grows", forall([x], z3.Implies(de[x], dn[x]))),
               A("other-dicts-untouched", forall([r], z3.Implies(r != c, z3.And(st.dict_dom(r) == entry.dict_dom(r), st.dict_vals(r) == entry.dict_vals(r))))),
               A("no-child-compared-yet", st.ghost["cnt"] == entry.ghost["cnt"])]
        if self.level == "block" and n == 0:
            ys = it.parts[1]
            out.append(A("argument-types-agree-so-far", forall([j], z3.Implies(z3.And(j >= 0, j < k), TYPE(xs.arr[j]) == TYPE(ys.arr[j])))))
        return out

    def _spec(self, old, st, a):
        c = a["_c"]
        CD, CV = st.ghost["CD"], st.ghost["CV"]
        j = z3.Int("ls!j")
        if self.level == "block":
            (ba, aa, opsa), (bb, ab, opsb) = self.A[0], self.B[0]
            counts = z3.And(aa.n == ab.n, z3.BoolVal(len(opsa) == len(opsb)))
            types = forall([j], z3.Implies(z3.And(j >= 0, j < aa.n), TYPE(aa.arr[j]) == TYPE(ab.arr[j])))
            children = [(oa, ob) for (oa, _), (ob, _) in zip(opsa, opsb)]
            reg = self._registered(CD[0], CV[0], [(aa, ab)] + [(ra, rb) for (_, ra), (_, rb) in zip(opsa, opsb)], [(ba, bb)])
            child = "op"
        else:
            counts = z3.BoolVal(len(self.A) == len(self.B))
            types = z3.BoolVal(True)
            children = [(ba, bb) for (ba, _, _), (bb, _, _) in zip(self.A, self.B)]
            seqs, objs = [], []
            for (ba, aa, opsa), (bb, ab, opsb) in zip(self.A, self.B):
                objs.append((ba, bb))
                seqs.append((aa, ab))
                seqs += [(ra, rb) for (_, ra), (_, rb) in zip(opsa, opsb)]
            reg = self._registered(CD[0], CV[0], seqs, objs)
            child = "block"
        eqs = [EQ[child](x, y, CD[k], CV[k]) for k, (x, y) in enumerate(children)]
        return counts, types, reg, eqs, children

    def post(self, old, st, a, res):
        counts, types, reg, eqs, children = self._spec(old, st, a)
        rz = res.z if isinstance(res, VBool) else z3.BoolVal(bool(res))
        n = len(children)
        out = [C("True-only-if-counts-and-argument-types-agree", z3.Implies(rz, z3.And(counts, types))),
               C("True-only-if-every-child-pair-is-equivalent-in-its-context", z3.Implies(rz, z3.And(st.ghost["cnt"] == n, *eqs) if eqs else z3.BoolVal(True))),
               C("children-are-compared-in-a-context-where-blocks-arguments-and-all-results-are-registered",
                 z3.Implies(z3.And(rz, z3.BoolVal(n > 0)), reg)),
               C("False-only-if-something-disagrees", z3.Implies(z3.Not(rz), z3.Or(z3.Not(counts), z3.Not(types),
                                                                                    *[z3.And(st.ghost["cnt"] > k, z3.Not(e)) for k, e in enumerate(eqs)])))]
        return out

    def native_search(self, inst, seed):
        r = N03.explore("quick", seed)
        return r["failures"][0] if r["failures"] else None


class OpEqNotOp(Spec):
    """other is not an Operation -> False."""

    prop, file, qualname = PROP, CORE, "Operation.is_structurally_equivalent"

    def setup(self, st, inst):
        return {"self": VRef(z3.Int("self"), "Operation"), "other": VRef(z3.Int("other"), "Block"), "context": None}

    def bind(self, st, a, inst):
        return {"isinstance(other, Operation)": False}

    def post(self, old, st, a, res):
        return [C("different-kinds-are-not-equivalent", z3.BoolVal(res is False))]


NATIVE = [("pairs-mutations-clones", N03.explore)]


def make_specs(tier):
    specs = []
    o = OpEq()
    o.instances = [{"regions": (a, b)} for a, b in itertools.product(range(0, 3), repeat=2)]
    specs.append(o)
    n = OpEqNotOp()
    n.instances = [{}]
    specs.append(n)
    b = LevelEq("block")
    b.instances = [{"ops": (x, y)} for x, y in itertools.product(range(0, 3), repeat=2)]
    specs.append(b)
    r = LevelEq("region")
    r.instances = [{"a": x, "b": y} for x, y in [((), ()), ((1,), (1,)), ((1,), ()), ((0, 2), (0, 2)), ((2, 1), (2, 1)), ((1, 1), (1,)), ((1,), (2,))]]
    specs.append(r)
    return specs


ASSUMPTIONS = [
    "attribute/property dictionaries and op names compare by ==; their equality is abstracted by boolean flags (attribute value semantics is C08)",
    "types are Int-coded: equal type attributes <=> equal codes",
    "nested calls are replaced by uninterpreted relations EQ_REGION/EQ_BLOCK/EQ_OP of (x, y, context content): the recursion (depth induction) is assumed",
    "the number of regions per op is instantiated 0..2 x 0..2; operand, successor and result lists are symbolic",
    "Block and Region levels: ops per block and blocks per region are instantiated (0..2), argument and result lists are symbolic; the children's own verdicts are the uninterpreted "
    "relations of the level below evaluated on the context content at the call (ghost chain CD/CV)",
    "reflexivity/symmetry/clone clauses: bounded stand-in (generated programs, mutations, clones, independent isomorphism oracle)",
]

SPECS = make_specs(os.environ.get("VERIF_TIER", "quick"))
