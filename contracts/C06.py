"""
C06 — Builtin attributes and types round-trip bit-exactly through text.

Statement (quoted): "Every builtin attribute or type value (integers of any width and signedness, floats of each supported precision
including NaN, infinities and negative zero, strings with arbitrary Unicode, bytes, dense element and dense array attributes, arrays,
dictionaries, symbol references, locations, affine maps, shaped/function/tuple types) prints to text that parses back to an equal value.
Numeric payloads, including every element of dense attributes, are preserved bit for bit."

The deciding check is the BOUNDED stand-in (C06_native: real Printer -> real Parser; exhaustive over every bit pattern of the 16-bit float
types and over every byte string of length <= 2, seeded structured values).  Deductive kernels:
  * Printer.print_bytes_literal: for a byte string of ANY length the emitted pieces are  "  enc(b_0) ... enc(b_{n-1})  "  with
        enc(0x5C) = two backslashes; enc(b) = backslash + two hex digits for b < 0x20, b > 0x7E, b = 0x22; enc(b) = the character itself otherwise
    (so each byte is encoded independently of its neighbours: together with the exhaustive decode(encode(.)) check over all byte strings of
    length <= 2 - which covers every adjacent pair - this is the per-byte codec argument of DESIGN.md §4 C06);
  * IntegerType.normalized_value (shared with C08): the stored value is a canonical function of the bit pattern for widths 1..128.
"""

from __future__ import annotations

import os

import z3

from contracts import C06_native as N06
from contracts import C08 as K08
from contracts.common import A, AX, C, forall
from pyvc.engine import Res
from pyvc.spec import Builtin, Spec
from pyvc.values import Clause, VBool, VInt, VRef, VSeq, Vocab, z_int

PROP = "C06"
PRN = "xdsl/printer.py"
I = z3.IntSort()
VOCAB = Vocab({})

QUOTE, BS2 = z3.IntVal(-1), z3.IntVal(-2)  # piece codes: the double quote, the two-backslash escape
HEX = z3.Function("backslash_and_two_hex_digits_of", I, I)
RAW = z3.Function("the_character", I, I)


def enc(b):
    return z3.If(b == 0x5C, BS2, z3.If(z3.Or(b < 0x20, b > 0x7E, b == 0x22), HEX(b), RAW(b)))


class BytesLiteral(Spec):
    prop, file, qualname = PROP, PRN, "Printer.print_bytes_literal"

    def __init__(self):
        def emit(ex, st, args, kw):
            v = args[1] if len(args) > 1 else args[0]
            if isinstance(v, str):
                code = {'"': QUOTE, "\\\\": BS2}.get(v)
                if code is None:
                    from pyvc.values import Unsupported

                    raise Unsupported(f"print_string of an unexpected constant {v!r}")
            else:
                code = z_int(v)
            n = st.ghost["n_out"]
            st.ghost["out"] = z3.Store(st.ghost["out"], n, code)
            st.ghost["n_out"] = z3.simplify(n + 1)
            return [Res("val", None, st)]

        emit.ghost_modifies = ["out", "n_out"]
        self.calls = {"self.print_string": Builtin(emit, "Printer.print_string(piece): appends the piece to the output (ghost piece sequence)"),
                      "chr": Builtin(lambda ex, st, a, k: [Res("val", VRef(RAW(z_int(a[0])), "str"), st)], "chr(byte)")}

    @property
    def globals(self):
        def fstring(ex, st, text):
            # f"\\{byte:02X}": a backslash followed by the two upper-case hex digits of the CURRENT byte; any other f-string text is not bound
            if text == "f'\\\\{byte:02X}'" and "byte" in st.env:
                return VRef(HEX(z_int(st.env["byte"])), "str")
            return None

        return {"__fstring__": fstring}

    def setup(self, st, inst):
        st.ghost["out"] = z3.Const("out0", z3.ArraySort(I, I))
        st.ghost["n_out"] = z3.IntVal(0)
        return {"self": VRef(z3.IntVal(1), "Printer"), "bytestring": VSeq(z3.Array("bytes", I, I), st.declare_input("n", z3.Int("n")), "int")}

    def pre(self, st, a):
        j = z3.Int("bl!j")
        b = a["bytestring"]
        return [A("a-bytes-object", z3.And(b.n >= 0, forall([j], z3.Implies(z3.And(j >= 0, j < b.n), z3.And(b.arr[j] >= 0, b.arr[j] < 256)))))]

    def inv(self, n, entry, st, a, lv):
        j = z3.Int("bl!j")
        b = a["bytestring"]
        out, k = st.ghost["out"], lv["k"]
        return [A("pieces-so-far", z3.And(st.ghost["n_out"] == k + 1, out[0] == QUOTE, forall([j], z3.Implies(z3.And(j >= 0, j < k), out[j + 1] == enc(b.arr[j])))))]

    def post(self, old, st, a, res):
        j = z3.Int("bl!j")
        b = a["bytestring"]
        out = st.ghost["out"]
        return [C("quote, one independent encoding per byte, quote", z3.And(st.ghost["n_out"] == b.n + 2, out[0] == QUOTE, out[b.n + 1] == QUOTE,
                                                                            forall([j], z3.Implies(z3.And(j >= 0, j < b.n), out[j + 1] == enc(b.arr[j])))))]


class NormalizedValue06(K08.NormalizedValue):
    prop = PROP


def _search(self, inst, seed):
    r = N06.explore_codec("quick", seed)
    return r["failures"][0] if r["failures"] else None


def make_specs(tier):
    specs = []
    s = BytesLiteral()
    s.instances = [{}]
    s.native_search = _search.__get__(s)
    specs.append(s)
    for k in K08.make_specs(tier):
        if isinstance(k, K08.NormalizedValue):
            n = NormalizedValue06.__new__(NormalizedValue06)
            n.__dict__.update(k.__dict__)
            specs.append(n)
    return specs


NATIVE = N06.NATIVE
ASSUMPTIONS = [
    "the byte-literal kernel models the output as a sequence of pieces (print_string calls); the f-string `\\\\{byte:02X}` is bound as 'backslash + two upper-case hex digits of the byte' "
    "and chr(byte) as 'the character with that code': character-level facts (two hex digits denote the byte, the decoder's escape table) are checked by the exhaustive "
    "decode(encode(.)) run over all byte strings of length <= 2, not proved",
    "float <-> decimal text conversion (print_float / float()) is CPython's; covered by the exhaustive 16-bit and boundary f32/f64 runs only",
    "the recursive printers/parsers of structured attributes (dense, arrays, dictionaries, types, affine maps, locations) are covered by the seeded stand-in only",
]
EXPLANATION = "C06: real Printer -> real Parser round trip (exhaustive for 16-bit floats and short byte strings, seeded otherwise) is the deciding check; byte-literal encoder and integer normalisation kernels discharged"
SPECS = make_specs(os.environ.get("VERIF_TIER", "quick"))
