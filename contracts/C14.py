"""
C14 — Canonicalization, constant folding and CSE preserve program results.

Statement (quoted): "Applying canonicalize, constant-fold-interp, the constant-folding test passes
and cse to a valid arithmetic/control-flow program never changes the values it returns or the
effects it performs, for any inputs, under the MLIR semantics of the operations (two's-complement
wrap-around, unsigned predicates on bit patterns, IEEE-754 floating point with signed zeros and
NaNs); folded constants equal the bit-exact result.  A pass that cannot fold an operation leaves
it in place instead of failing."

Proved kernels (all operand values, per width):
 * for EVERY concrete subclass K of SignlessIntegerBinaryOperation found by introspection of the live
   dialect: K.py_operation agrees with the MLIR semantics of K on bit patterns; K.is_right_unit(c)
   implies x K c == x for all x; K.is_right_zero(c) implies x K c == c; Commutative classes commute;
 * _fold_const_operation (addf/subf/mulf/divf) equals the IEEE-754 binary64 operation, signed zeros,
   infinities and NaNs included;
 * ApplyCmpiPredicateToEqualOperands replaces cmpi p, x, x by the value of the predicate on equal
   operands (through the rewriter contract: a replacement must denote the same value).
The pass-level statement is decided by the bounded stand-in (programs evaluated before/after).
"""

from __future__ import annotations

import os

import z3

from contracts import C14_native as N14
from contracts.C15 import CMPI_PRED, fp_same
from contracts.common import A, AX, C, bits, bitwise_axioms, division_axioms, forall, in_signed, in_signless, sgn, truncdiv
from pyvc.arith import PYAND, PYOR, PYXOR, floordiv
from pyvc.spec import Builtin, Inline, Spec
from pyvc.values import Unsupported
from pyvc.values import F64, Clause, VBool, VFloat, VGlobal, VInt, VRef, VTuple, Vocab, z_float, z_int

PROP = "C14"
AR = "xdsl/dialects/arith.py"
CP = "xdsl/transforms/canonicalization_patterns/arith.py"
I = z3.IntSort()
VOCAB = Vocab({})


def umin(a, b):
    return z3.If(a <= b, a, b)


def mlir_semantics(name):
    """(A, B unsigned bit patterns, w) -> (result bit pattern, poison condition)."""
    def shift(f):
        def g(A_, B_, w):
            e = z3.IntVal(0)
            for k in range(w - 1, -1, -1):
                e = z3.If(B_ == k, f(A_, k, w), e)
            return e, B_ >= w
        return g

    sdiv_poison = lambda A_, B_, w: z3.Or(B_ == 0, z3.And(sgn(A_, w) == -(1 << (w - 1)), sgn(B_, w) == -1))
    T = {
        "arith.addi": lambda A_, B_, w: (bits(A_ + B_, w), z3.BoolVal(False)),
        "arith.subi": lambda A_, B_, w: (bits(A_ - B_, w), z3.BoolVal(False)),
        "arith.muli": lambda A_, B_, w: (bits(A_ * B_, w), z3.BoolVal(False)),
        "arith.andi": lambda A_, B_, w: (PYAND(A_, B_), z3.BoolVal(False)),
        "arith.ori": lambda A_, B_, w: (PYOR(A_, B_), z3.BoolVal(False)),
        "arith.xori": lambda A_, B_, w: (PYXOR(A_, B_), z3.BoolVal(False)),
        "arith.shli": shift(lambda A_, k, w: bits(A_ * (1 << k), w)),
        "arith.shrui": shift(lambda A_, k, w: A_ / (1 << k)),
        "arith.shrsi": shift(lambda A_, k, w: bits(sgn(A_, w) / (1 << k), w)),
        "arith.divui": lambda A_, B_, w: (floordiv(A_, B_), B_ == 0),
        "arith.remui": lambda A_, B_, w: (A_ - B_ * floordiv(A_, B_), B_ == 0),
        "arith.ceildivui": lambda A_, B_, w: (-floordiv(-A_, B_), B_ == 0),
        "arith.divsi": lambda A_, B_, w: (bits(truncdiv(sgn(A_, w), sgn(B_, w)), w), sdiv_poison(A_, B_, w)),
        "arith.remsi": lambda A_, B_, w: (bits(sgn(A_, w) - truncdiv(sgn(A_, w), sgn(B_, w)) * sgn(B_, w), w), sdiv_poison(A_, B_, w)),
        "arith.floordivsi": lambda A_, B_, w: (bits(floordiv(sgn(A_, w), sgn(B_, w)), w), sdiv_poison(A_, B_, w)),
        "arith.ceildivsi": lambda A_, B_, w: (bits(-floordiv(-sgn(A_, w), sgn(B_, w)), w), sdiv_poison(A_, B_, w)),
        "arith.minsi": lambda A_, B_, w: (z3.If(sgn(A_, w) <= sgn(B_, w), A_, B_), z3.BoolVal(False)),
        "arith.maxsi": lambda A_, B_, w: (z3.If(sgn(A_, w) >= sgn(B_, w), A_, B_), z3.BoolVal(False)),
        "arith.minui": lambda A_, B_, w: (z3.If(A_ <= B_, A_, B_), z3.BoolVal(False)),
        "arith.maxui": lambda A_, B_, w: (z3.If(A_ >= B_, A_, B_), z3.BoolVal(False)),
    }
    return T.get(name)


def integer_binary_classes():
    """Every concrete subclass of SignlessIntegerBinaryOperation of the live arith dialect (read on every run)."""
    from xdsl.dialects import arith

    out, work, seen = [], [arith.SignlessIntegerBinaryOperation], set()
    while work:
        c = work.pop()
        for s in c.__subclasses__():
            if s in seen:
                continue
            seen.add(s)
            work.append(s)
            if isinstance(getattr(s, "name", None), str) and s.__module__ == "xdsl.dialects.arith":
                out.append(s)
    return sorted(out, key=lambda c: c.name)


def axioms_for(name, w):
    ax = []
    if name in ("arith.andi", "arith.ori", "arith.xori"):
        ax += [AX(f"bitwise-axiom{i}", a) for i, a in enumerate(bitwise_axioms(w))]
        x = z3.Int("bx!x")
        M = 1 << w
        # identities of bitwise operators with the all-zero pattern (x in [0, 2^w))
        ax += [AX("and-zero", forall([x], PYAND(x, 0) == 0)), AX("or-zero", forall([x], PYOR(x, 0) == x)), AX("xor-zero", forall([x], PYXOR(x, 0) == x)),
               AX("zero-and", forall([x], PYAND(0, x) == 0)), AX("zero-or", forall([x], PYOR(0, x) == x)), AX("zero-xor", forall([x], PYXOR(0, x) == x))]
    if name in ("arith.divui", "arith.remui", "arith.ceildivui", "arith.divsi", "arith.remsi", "arith.floordivsi", "arith.ceildivsi"):
        ax += [AX(f"division-axiom{i}", a) for i, a in enumerate(division_axioms())]
    return ax


class PyOperation(Spec):
    """K.py_operation(lhs, rhs): a non-None result, truncated to the width, is the MLIR result."""

    prop, file = PROP, AR

    def __init__(self, cls):
        self.cls = cls
        self.qualname = f"{cls.__name__}.py_operation"

    def setup(self, st, inst):
        return {"lhs": VInt(st.declare_input("lhs", z3.Int("lhs"))), "rhs": VInt(st.declare_input("rhs", z3.Int("rhs"))), "_w": inst["w"]}

    def pre(self, st, a):
        w = a["_w"]
        sem = mlir_semantics(self.cls.name)
        _, poison = sem(bits(a["lhs"].z, w), bits(a["rhs"].z, w), w)
        # both call sites (fold, the constant-propagation pattern) pass IntegerAttr payloads, which are stored normalised to the signed range: a sign-dependent
        # py_operation (a right shift, a division) written for normalised operands is correct, so the precondition is the call sites' and not the wider signless range
        return axioms_for(self.cls.name, w) + [A("lhs-range", in_signed(a["lhs"].z, w)), A("rhs-range", in_signed(a["rhs"].z, w)),
                                                A("defined", z3.Not(poison))]

    def post(self, old, st, a, res):
        if res is None:
            return []
        w = a["_w"]
        exp, _ = mlir_semantics(self.cls.name)(bits(a["lhs"].z, w), bits(a["rhs"].z, w), w)
        return [C("folded-constant-is-the-bit-exact-result", bits(z_int(res), w) == exp)]

    def replay(self, inst, m):
        return N14.check_fold(self.cls.name, inst["w"], m["lhs"], m["rhs"])


class RightElement(Spec):
    """K.is_right_unit(attr) / K.is_right_zero(attr): True only for a genuine right identity / absorbing element of K."""

    prop, file = PROP, AR

    def __init__(self, cls, which):
        self.cls, self.which = cls, which
        self.qualname = f"{defining_class(cls, 'is_right_' + which)}.is_right_{which}"  # an inherited default is proved for the inheriting class too

    @property
    def globals(self):
        spec = self

        def getattr_(ex, st, base, attr):
            if base.cls == "IntegerAttr" and attr == "value":
                return VRef(base.z, "IntAttr")
            if base.cls == "IntAttr" and attr == "data":
                return VInt(spec.val[base.z.get_id()])
            if base.cls == "IntegerAttr" and attr == "type":
                return VRef(z3.IntVal(77), "IntegerType")
            return None

        def eq(ex, st, x, y):
            from pyvc.values import lift_bool

            if isinstance(x, VRef) and isinstance(y, VRef) and x.cls == y.cls == "IntegerAttr":
                return lift_bool(spec.val[x.z.get_id()] == spec.val[y.z.get_id()])  # same type by construction
            return None

        return {"__getattr__": getattr_, "__eq__": eq}

    @property
    def calls(self):
        spec = self

        def b_integer_attr(ex, st, args, kw):
            """IntegerAttr(v, type): stores the normalised value (contract of IntegerType.normalized_value, C08)."""
            from pyvc.engine import Res

            w = spec.w
            r = st.fresh_int("attr")
            v = z_int(args[0])
            n = z3.If(w == 0, z3.IntVal(0), sgn(v, w)) if w else z3.IntVal(0)
            spec.val[r.get_id()] = n
            return [Res("val", VRef(r, "IntegerAttr"), st)]

        return {"IntegerAttr": Builtin(b_integer_attr, "IntegerAttr(v, t) stores normalized_value(v) (signless: the signed representative)")}

    def setup(self, st, inst):
        self.w = inst["w"]
        c = st.declare_input("c", z3.Int("c"))
        x = st.declare_input("x", z3.Int("x"))
        attr = z3.Int("attr_obj")
        self.val = {attr.get_id(): c}
        return {"attr": VRef(attr, "IntegerAttr"), "_c": c, "_x": x, "_w": inst["w"]}

    def pre(self, st, a):
        w = a["_w"]
        # the attribute holds a normalised constant; x is any operand bit pattern
        return axioms_for(self.cls.name, w) + [A("constant-normalised", in_signed(a["_c"], w)), A("operand-bits", z3.And(a["_x"] >= 0, a["_x"] < (1 << w)))]

    def post(self, old, st, a, res):
        w = a["_w"]
        rz = res.z if isinstance(res, VBool) else z3.BoolVal(bool(res))
        x, cbits = a["_x"], bits(a["_c"], w)
        val, poison = mlir_semantics(self.cls.name)(x, cbits, w)
        target = x if self.which == "unit" else cbits
        name = "right-unit-really-is-an-identity" if self.which == "unit" else "right-zero-really-absorbs"
        return [C(name, z3.Implies(z3.And(rz, z3.Not(poison)), val == target))]

    def replay(self, inst, m):
        return N14.check_right_element(self.cls.name, self.which, inst["w"], m["c"], m["x"])


class Commutes(Spec):
    """Lemma for classes carrying the Commutative trait (fold / constant propagation swap operands): no code is executed,
    the obligation is about the trait declaration read from the live class."""

    prop, file = PROP, AR

    def __init__(self, cls):
        self.cls = cls
        self.qualname = f"{cls.__name__}.py_operation"  # anchor: the class must exist in the source

    def setup(self, st, inst):
        self._w = inst["w"]
        self.x = st.declare_input("x", z3.Int("x"))
        self.y = st.declare_input("y", z3.Int("y"))
        return {"lhs": VInt(self.x), "rhs": VInt(self.y)}

    def pre(self, st, a):
        w = self._w
        x, y = z3.Ints("cm!x cm!y")
        ax = axioms_for(self.cls.name, w)
        if self.cls.name in ("arith.andi", "arith.ori", "arith.xori"):
            ax += [AX("bitwise-commute", forall([x, y], z3.And(PYAND(x, y) == PYAND(y, x), PYOR(x, y) == PYOR(y, x), PYXOR(x, y) == PYXOR(y, x))))]
        return ax + [A("bits", z3.And(self.x >= 0, self.x < (1 << w), self.y >= 0, self.y < (1 << w)))]

    def post(self, old, st, a, res):
        w = self._w
        sem = mlir_semantics(self.cls.name)
        return [C("Commutative-trait-is-truthful", sem(self.x, self.y, w)[0] == sem(self.y, self.x, w)[0])]



# ------------------------------------------------------------------ SignlessIntegerBinaryOperation.fold, per concrete class
def defining_class(cls, name):
    for c in cls.__mro__:
        if name in c.__dict__:
            return c.__name__
    raise KeyError(name)


class Fold(Spec):
    """
    SignlessIntegerBinaryOperation.fold executed for the concrete class K (its own py_operation / is_right_unit bodies are
    inlined, its Commutative trait is read from the live class): whatever fold returns denotes the MLIR result of the op,
    for ALL values of the non-constant operands.
      returns (IntegerAttr c,)  ->  both operands constant and bits(c) == K(lhs, rhs)
      returns (self.lhs,)       ->  K(x, rhs) == x for every x      (rhs constant)
      returns (self.rhs,)       ->  K(lhs, y) == y for every y      (lhs constant)
    """

    prop, file, qualname = PROP, AR, "SignlessIntegerBinaryOperation.fold"

    def __init__(self, cls):
        self.cls = cls
        self.inline = {"self.py_operation": Inline(AR, f"{defining_class(cls, 'py_operation')}.py_operation"),
                       "self.is_right_unit": Inline(AR, f"{defining_class(cls, 'is_right_unit')}.is_right_unit")}
        for h in self.inline.values():
            h.static = True  # @staticmethod: the receiver is not passed

    @property
    def globals(self):
        spec = self

        def getattr_(ex, st, base, attr):
            if base.cls == "IntegerAttr" and attr == "value":
                return VRef(base.z, "IntAttr")
            if base.cls == "IntAttr" and attr == "data":
                return VInt(spec.val[base.z.get_id()])
            if base.cls == "IntegerAttr" and attr == "type":
                return VRef(z3.IntVal(77), "IntegerType")
            if base.cls == "Op" and attr in ("lhs", "rhs"):
                return VRef(spec.operand[attr], "SSAValue")
            return None

        def eq(ex, st, x, y):
            from pyvc.values import lift_bool

            if isinstance(x, VRef) and isinstance(y, VRef) and x.cls == y.cls == "IntegerAttr":
                return lift_bool(spec.val[x.z.get_id()] == spec.val[y.z.get_id()])
            if isinstance(x, VRef) and isinstance(y, VRef) and x.cls == y.cls == "IntegerType":
                return True  # both constants are operands of a verified SameOperandsAndResultType op
            return None

        return {"__getattr__": getattr_, "__eq__": eq, "Commutative": VGlobal("Commutative"), "IntegerAttr": VGlobal("IntegerAttr"),
                "ConstantLike": VGlobal("ConstantLike")}

    @property
    def calls(self):
        spec = self
        from pyvc.engine import Res

        def b_integer_attr(ex, st, args, kw):
            w = spec.w
            r = st.fresh_int("attr")
            st.assume(z3.And(r != spec.cattr["lhs"], r != spec.cattr["rhs"], r > 100))
            spec.val[r.get_id()] = sgn(z_int(args[0]), w)
            st.ghost["made"] = r
            st.ghost["made_val"] = sgn(z_int(args[0]), w)
            return [Res("val", VRef(r, "IntegerAttr"), st)]

        b_integer_attr.ghost_modifies = ["made", "made_val"]

        def b_get_constant(ex, st, args, kw):
            which = "lhs" if args[0].z.eq(spec.operand["lhs"]) else "rhs"
            return [Res("val", VRef(spec.cattr[which], "IntegerAttr") if spec.const[which] else None, st)]

        def b_isa(ex, st, args, kw):
            return [Res("val", args[0] is not None, st)]

        def b_has_trait(ex, st, args, kw):
            from xdsl.traits import Commutative

            return [Res("val", bool(spec.cls.has_trait(Commutative)), st)]

        return {"IntegerAttr": Builtin(b_integer_attr, "IntegerAttr(v, t, truncate_bits=True) stores the signed representative of v mod 2^w (C08)"),
                "ConstantLike.get_constant_value": Builtin(b_get_constant, "the constant attribute of an operand defined by a ConstantLike op, else None"),
                "isa": Builtin(b_isa, "isa(x, IntegerAttr): constants of integer-typed operands are IntegerAttr"),
                "self.has_trait": Builtin(b_has_trait, "trait read from the live class")}

    def setup(self, st, inst):
        self.w = w = inst["w"]
        self.const = {"lhs": inst["lc"], "rhs": inst["rc"]}
        L = st.declare_input("lhs_value", z3.Int("lhs_value"))
        R = st.declare_input("rhs_value", z3.Int("rhs_value"))
        self.operand = {"lhs": z3.IntVal(11), "rhs": z3.IntVal(12)}
        self.cattr = {"lhs": z3.IntVal(21), "rhs": z3.IntVal(22)}
        self.val = {self.cattr["lhs"].get_id(): L, self.cattr["rhs"].get_id(): R}
        st.ghost["made"] = z3.IntVal(0)
        st.ghost["made_val"] = z3.IntVal(0)
        return {"self": VRef(z3.IntVal(1), "Op"), "_L": L, "_R": R}

    def pre(self, st, a):
        w = self.w
        # constants are stored normalised (signed representative); a non-constant operand is any value of the type
        return axioms_for(self.cls.name, w) + [A("lhs-value-of-the-type", in_signed(a["_L"], w)), A("rhs-value-of-the-type", in_signed(a["_R"], w))]

    def post(self, old, st, a, res):
        w = self.w
        X, Y = bits(a["_L"], w), bits(a["_R"], w)
        val, poison = mlir_semantics(self.cls.name)(X, Y, w)
        if res is None:
            return [A("nothing-folded", z3.BoolVal(True))]
        r = res.items[0]
        if r.cls == "IntegerAttr":
            return [C("both-operands-constant", z3.BoolVal(self.const["lhs"] and self.const["rhs"])),
                    C("folded-constant-is-the-bit-exact-result", z3.Implies(z3.Not(poison), z3.And(r.z == st.ghost["made"], bits(st.ghost["made_val"], w) == val)))]
        which = "lhs" if z3.simplify(r.z == self.operand["lhs"]).eq(z3.BoolVal(True)) else "rhs"
        other = "rhs" if which == "lhs" else "lhs"
        return [C(f"folding-to-the-{which}-operand-needs-the-{other}-operand-constant", z3.BoolVal(self.const[other])),
                C(f"folding-to-the-{which}-operand-preserves-the-value-for-every-value-of-that-operand",
                  z3.Implies(z3.Not(poison), val == (X if which == "lhs" else Y)))]

    def replay(self, inst, m):
        return N14.check_fold_method(self.cls.name, inst["w"], inst["lc"], inst["rc"], m["lhs_value"], m["rhs_value"])



# ------------------------------------------------------------------ rewrite patterns with a denotation ghost
VALB = z3.Function("value_bits", I, I)  # denotation of an SSA value: its bit pattern at the type's width


class RewriteSpec(Spec):
    """
    Common machinery for the arith canonicalization patterns: SSA values denote bit patterns VALB(v); `const_evaluate_operand(v)` returns the stored
    (normalised) integer of a constant operand - then VALB(v) = bits(c) - or None; `rewriter.replace(op, new_ops, new_results)` carries the
    OBLIGATION that the replacement denotes the value of op's result for ALL values of the non-constant operands ("never changes the values
    it returns"); freshly built ops denote their MLIR semantics.
    """

    prop, file = PROP, CP

    def op_value(self, st):
        raise NotImplementedError

    def width_of(self, v):
        return self.w

    def _calls(self):
        spec = self
        from pyvc.engine import Res

        def b_const_eval(ex, st, args, kw):
            v = args[0].z
            out = []
            for is_const, bs in ex.split(st, bs_flag(st, v)):
                if not is_const:
                    out.append(Res("val", None, bs))
                    continue
                w = spec.width_of(v)
                c = bs.fresh_int("const")
                bs.assume(z3.And(in_signed(c, w), VALB(v) == bits(c, w)))
                out.append(Res("val", VInt(c), bs))
            return out

        def bs_flag(st, v):
            return z3.Bool(f"is_constant_{v}")

        def b_replace(ex, st, args, kw):
            # rewriter.replace(op, new_ops, new_results=None): the value that replaces op.result
            new_ops = args[1] if len(args) > 1 else kw.get("new_ops")
            new_results = args[2] if len(args) > 2 else kw.get("new_results")
            if new_results is not None:
                items = new_results.items if isinstance(new_results, VTuple) else None
                rv = VALB(items[0].z)
            else:
                last = new_ops.items[-1] if isinstance(new_ops, VTuple) else new_ops
                rv = spec.built[last.z.get_id()] if last.z.get_id() in spec.built else VALB(last.z)
            target, defined = spec.op_value(st)
            ex.oblige(st, "call-pre", "replace:the-replacement-denotes-the-value-of-the-replaced-result", z3.Implies(defined, rv == target), "property")
            st.ghost["replaced"] = z3.BoolVal(True)
            return [Res("val", None, st)]

        b_replace.ghost_modifies = ["replaced"]
        return {"const_evaluate_operand": Builtin(b_const_eval, "constant operand: its stored integer c with VALB(v) = bits(c); else None"),
                "rewriter.replace": Builtin(b_replace, "PatternRewriter.replace: the replacement must denote the same value (C11 covers the rewriter itself)")}


class SelectPatterns(RewriteSpec):
    """SelectConstPattern / SelectTrueFalsePattern / SelectSamePattern: select c, x, y  ==  (c ? x : y) on bit patterns, c an i1."""

    def __init__(self, cls):
        self.cls = cls
        self.qualname = f"{cls}.match_and_rewrite"

    @property
    def calls(self):
        spec = self
        from pyvc.engine import Res

        c = self._calls()

        def b_xor(ex, st, args, kw):
            r = st.fresh_int("xor_op")
            # arith.xori on i1: addition modulo 2 of the two bits
            spec.built[r.get_id()] = (VALB(args[0].z) + VALB(args[1].z)) % 2
            return [Res("val", VRef(r, "Operation"), st)]

        c["arith.XOrIOp"] = Builtin(b_xor, "arith.xori a, b : i1 denotes (a + b) mod 2")
        c["IntegerType"] = Builtin(lambda ex, st, a, k: [Res("val", VRef(z3.IntVal(1000 + a[0]), "IntegerType"), st)], "")
        return c

    @property
    def globals(self):
        spec = self

        def getattr_(ex, st, base, attr):
            if base.cls == "SelectOp" and attr in ("cond", "lhs", "rhs"):
                return VRef(spec.v[attr], "SSAValue")
            if base.cls == "SelectOp" and attr == "result":
                return VRef(z3.IntVal(40), "OpResult")
            if base.cls == "OpResult" and attr == "type":
                return VRef(z3.IntVal(1000 + spec.w), "IntegerType")
            return None

        return {"__getattr__": getattr_, "arith": VGlobal("arith")}

    def setup(self, st, inst):
        self.w = inst["w"]
        self.built = {}
        same = inst.get("same_arms", False)
        self.v = {"cond": z3.IntVal(11), "lhs": z3.IntVal(12), "rhs": z3.IntVal(12 if same else 13)}
        st.ghost["replaced"] = z3.BoolVal(False)
        for k in ("cond", "lhs", "rhs"):
            st.declare_input(f"{k}_bits", VALB(self.v[k]))
        return {"self": VRef(z3.IntVal(1)), "op": VRef(z3.IntVal(2), "SelectOp"), "rewriter": VRef(z3.IntVal(3), "PatternRewriter")}

    def width_of(self, v):
        return 1 if v.eq(self.v["cond"]) else self.w

    def pre(self, st, a):
        w = self.w
        return [A("condition-is-a-bit", z3.And(VALB(self.v["cond"]) >= 0, VALB(self.v["cond"]) <= 1)),
                A("arms-are-values-of-the-type", z3.And(VALB(self.v["lhs"]) >= 0, VALB(self.v["lhs"]) < (1 << w), VALB(self.v["rhs"]) >= 0, VALB(self.v["rhs"]) < (1 << w)))]

    def op_value(self, st):
        return z3.If(VALB(self.v["cond"]) != 0, VALB(self.v["lhs"]), VALB(self.v["rhs"])), z3.BoolVal(True)

    def post(self, old, st, a, res):
        return [A("pattern-returns", z3.BoolVal(True))]

    def replay(self, inst, m):
        return N14.check_select_pattern(self.cls, inst["w"], inst.get("same_arms", False), m)


class IntBinaryPatterns(RewriteSpec):
    """
    SignlessIntegerBinaryOperationZeroOrUnitRight / ...ConstantProp executed for the concrete class K (own is_right_zero / is_right_unit /
    py_operation inlined, Commutative read from the live class).
    """

    def __init__(self, pattern, cls):
        self.pattern, self.cls = pattern, cls
        self.qualname = f"{pattern}.match_and_rewrite"
        # callee contracts (each discharged as its own unit): used modularly, the bodies are not re-executed here
        self._c_py, self._c_zero, self._c_unit = PyOperation(cls), RightElement(cls, "zero"), RightElement(cls, "unit")
        self._c_comm = Commutes(cls)

    @property
    def globals(self):
        spec = self

        def getattr_(ex, st, base, attr):
            if base.cls == "BinOp" and attr in ("lhs", "rhs"):
                return VRef(spec.v[attr], "SSAValue")
            if base.cls == "BinOp" and attr == "result":
                return VRef(z3.IntVal(40), "OpResult")
            if base.cls == "OpResult" and attr == "type":
                return VRef(z3.IntVal(77), "IntegerType")
            if base.cls == "IntegerAttr" and attr == "value":
                return VRef(base.z, "IntAttr")
            if base.cls == "IntAttr" and attr == "data":
                return VInt(spec.val[base.z.get_id()])
            if base.cls == "IntegerAttr" and attr == "type":
                return VRef(z3.IntVal(77), "IntegerType")
            return None

        def eq(ex, st, x, y):
            from pyvc.values import lift_bool

            if isinstance(x, VRef) and isinstance(y, VRef) and x.cls == y.cls == "IntegerAttr":
                return lift_bool(spec.val[x.z.get_id()] == spec.val[y.z.get_id()])
            return None

        def isinst(ex, st, v, cls):
            return True  # `assert isinstance(op.result.type, IntegerType | IndexType)`: integer-typed by construction

        return {"__getattr__": getattr_, "__eq__": eq, "__isinstance__": isinst, "Commutative": VGlobal("Commutative"), "arith": VGlobal("arith"),
                "IntegerType": VGlobal("IntegerType"), "IndexType": VGlobal("IndexType")}

    @property
    def calls(self):
        spec = self
        from pyvc.engine import Res

        c = self._calls()

        def b_const_attr(ex, st, args, kw):
            v = args[0].z
            out = []
            for is_const, bs in ex.split(st, z3.Bool(f"is_constant_{v}")):
                if not is_const:
                    out.append(Res("val", None, bs))
                    continue
                r = bs.fresh_int("cattr")
                cval = bs.fresh_int("const")
                bs.assume(z3.And(r > 100, in_signed(cval, spec.w), VALB(v) == bits(cval, spec.w)))
                spec.val[r.get_id()] = cval
                out.append(Res("val", VRef(r, "IntegerAttr"), bs))
            return out

        def b_integer_attr(ex, st, args, kw):
            r = st.fresh_int("attr")
            st.assume(r > 100)
            spec.val[r.get_id()] = sgn(z_int(args[0]), spec.w)
            return [Res("val", VRef(r, "IntegerAttr"), st)]

        def b_from_int(ex, st, args, kw):
            r = st.fresh_int("const_op")
            spec.built[r.get_id()] = bits(z_int(args[0]), spec.w)  # ConstantOp.from_int_and_width(v, t, truncate_bits=True): the bit pattern of v
            return [Res("val", VRef(r, "Operation"), st)]

        def b_same_class(ex, st, args, kw):
            r = st.fresh_int("swapped_op")
            val, _ = mlir_semantics(spec.cls.name)(VALB(args[0].z), VALB(args[1].z), spec.w)
            spec.built[r.get_id()] = val
            return [Res("val", VRef(r, "Operation"), st)]

        def b_has_trait(ex, st, args, kw):
            from xdsl.traits import Commutative

            if spec.cls.has_trait(Commutative):
                ex.note_contract(spec._c_comm)
            return [Res("val", bool(spec.cls.has_trait(Commutative)), st)]

        def b_py_operation(ex, st, args, kw):
            """Callee contract PyOperation(K): ranges are obligations; a non-None result res satisfies (not poison) => bits(res) = MLIR(bits l, bits r)."""
            w = spec.w
            l, r = z_int(args[0]), z_int(args[1])
            ex.note_contract(spec._c_py)
            n = ex.next_call()
            ex.oblige(st, "call-pre", f"{n}:py_operation:lhs-range", in_signed(l, w), "aux")
            ex.oblige(st, "call-pre", f"{n}:py_operation:rhs-range", in_signed(r, w), "aux")
            exp, poison = mlir_semantics(spec.cls.name)(bits(l, w), bits(r, w), w)
            out = []
            for is_none, bs in ex.split(st, bs_fresh_bool(st, "py_operation_is_none")):
                if is_none:
                    out.append(Res("val", None, bs))
                    continue
                res = bs.fresh_int("py_res")
                bs.assume(z3.Implies(z3.Not(poison), bits(res, w) == exp))
                out.append(Res("val", VInt(res), bs))
            return out

        def bs_fresh_bool(st, name):
            return st.fresh(name, z3.BoolSort())

        def right_element(which, callee):
            def b(ex, st, args, kw):
                """Callee contract RightElement(K, which): True only if the constant really is a right zero / unit for EVERY operand bit pattern."""
                w = spec.w
                ex.note_contract(callee)
                c = spec.val[args[0].z.get_id()]
                n = ex.next_call()
                ex.oblige(st, "call-pre", f"{n}:is_right_{which}:constant-normalised", in_signed(c, w), "aux")
                rz = st.fresh(f"is_right_{which}", z3.BoolSort())
                x, cbits = VALB(spec.v["lhs"]), bits(c, w)
                val, poison = mlir_semantics(spec.cls.name)(x, cbits, w)
                st.assume(z3.Implies(z3.And(rz, z3.Not(poison)), val == (x if which == "unit" else cbits)))
                return [Res("val", VBool(rz), st)]
            return b

        c.update({"const_evaluate_operand_attribute": Builtin(b_const_attr, "constant operand: its IntegerAttr (stored value c, VALB = bits(c)); else None"),
                  "arith.ConstantOp.from_int_and_width": Builtin(b_from_int, "a constant with the bit pattern of the value"),
                  "op.__class__": Builtin(b_same_class, "an op of the same class on the given operands: denotes the class's MLIR semantics"),
                  "op.has_trait": Builtin(b_has_trait, "trait read from the live class (truthfulness: unit Commutes)"),
                  "op.py_operation": Builtin(b_py_operation, "contract of K.py_operation (unit PyOperation)"),
                  "op.is_right_zero": Builtin(right_element("zero", spec._c_zero), "contract of K.is_right_zero (unit RightElement)"),
                  "op.is_right_unit": Builtin(right_element("unit", spec._c_unit), "contract of K.is_right_unit (unit RightElement)")})
        return c

    def setup(self, st, inst):
        self.w = inst["w"]
        self.built, self.val = {}, {}
        self.v = {"lhs": z3.IntVal(12), "rhs": z3.IntVal(13)}
        st.ghost["replaced"] = z3.BoolVal(False)
        for k in ("lhs", "rhs"):
            st.declare_input(f"{k}_bits", VALB(self.v[k]))
        return {"self": VRef(z3.IntVal(1)), "op": VRef(z3.IntVal(2), "BinOp"), "rewriter": VRef(z3.IntVal(3), "PatternRewriter")}

    def pre(self, st, a):
        from xdsl.traits import Commutative

        w = self.w
        lem = []
        if self.cls.has_trait(Commutative):
            # lemma Commutes(K) (its own unit): the trait is truthful, instantiated at the two operand bit patterns
            sem = mlir_semantics(self.cls.name)
            x, y = VALB(self.v["lhs"]), VALB(self.v["rhs"])
            lem = [A("lemma-proved-by-unit-Commutes:Commutative-trait-is-truthful", sem(x, y, w)[0] == sem(y, x, w)[0])]
        return lem + [A("operands-are-values-of-the-type", z3.And(VALB(self.v["lhs"]) >= 0, VALB(self.v["lhs"]) < (1 << w),
                                                                                         VALB(self.v["rhs"]) >= 0, VALB(self.v["rhs"]) < (1 << w)))]

    def op_value(self, st):
        val, poison = mlir_semantics(self.cls.name)(VALB(self.v["lhs"]), VALB(self.v["rhs"]), self.w)
        return val, z3.Not(poison)

    def post(self, old, st, a, res):
        return [A("pattern-returns", z3.BoolVal(True))]

    def replay(self, inst, m):
        return N14.check_int_pattern(self.pattern, self.cls.name, inst["w"], m.get("lhs_bits", 0), m.get("rhs_bits", 0))


# ------------------------------------------------------------------ float folding
class FoldConst(Spec):
    prop, file, qualname = PROP, CP, "_fold_const_operation"

    @property
    def calls(self):
        spec = self

        def b_float_attr(ex, st, args, kw):
            from pyvc.engine import Res

            # per-path record (the State is forked per path; Python attributes of the spec are shared by all paths)
            st.ghost["folded"] = z_float(args[0])
            return [Res("val", VRef(z3.IntVal(50), "FloatAttr"), st)]

        b_float_attr.ghost_modifies = ["folded"]

        def b_const(ex, st, args, kw):
            from pyvc.engine import Res

            return [Res("val", VRef(z3.IntVal(51), "ConstantOp"), st)]

        return {"builtin.FloatAttr": Builtin(b_float_attr, "FloatAttr(val, f64) holds val"), "arith.ConstantOp": Builtin(b_const)}

    def setup(self, st, inst):
        self.op = inst["op"]
        self.folded = None
        self.x = st.declare_input("x", z3.Const("x", F64))
        self.y = st.declare_input("y", z3.Const("y", F64))
        return {"op_t": VGlobal("arith." + inst["op"]), "lhs": VRef(z3.IntVal(1), "FloatAttr"), "rhs": VRef(z3.IntVal(2), "FloatAttr")}

    def bind(self, st, a, inst):
        return {"lhs.value.data": VFloat(self.x), "rhs.value.data": VFloat(self.y)}

    def post(self, old, st, a, res):
        RNE = z3.RNE()
        ieee = {"AddfOp": z3.fpAdd, "SubfOp": z3.fpSub, "MulfOp": z3.fpMul, "DivfOp": z3.fpDiv}.get(self.op)
        if ieee is None:
            return [C("other-operations-are-not-folded", z3.BoolVal(res is None))]
        if res is None or "folded" not in st.ghost:
            return [C("folds-the-four-basic-operations", z3.BoolVal(False))]
        return [C("folded-constant-is-the-ieee754-result", fp_same(st.ghost["folded"], ieee(RNE, self.x, self.y)))]

    def post_exc(self, old, st, a, exc):
        return None  # never raises (ZeroDivisionError included)

    def replay(self, inst, m):
        return N14.check_float_fold(inst["op"], m["x"], m["y"])


# ------------------------------------------------------------------ cmpi on equal operands
class CmpiEqualOperands(Spec):
    prop, file, qualname = PROP, CP, "ApplyCmpiPredicateToEqualOperands.match_and_rewrite"

    @property
    def calls(self):
        spec = self

        def b_from_bool(ex, st, args, kw):
            from pyvc.engine import Res

            st.ghost["const"] = args[0]  # per-path record (Spec attributes are shared by all paths)
            return [Res("val", VRef(z3.IntVal(60), "BoolAttr"), st)]

        def b_const(ex, st, args, kw):
            from pyvc.engine import Res

            return [Res("val", VRef(z3.IntVal(61), "ConstantOp"), st)]

        def b_replace(ex, st, args, kw):
            """rewriter.replace(op, new_op): the replacement must denote the value of op's result."""
            from pyvc.engine import Res

            v = st.ghost["const"]
            vz = v.z if isinstance(v, VBool) else z3.BoolVal(bool(v))
            w = spec.w
            ex.oblige(st, "call-pre", "replacement-denotes-the-same-value", vz == CMPI_PRED[spec.pred](spec.x, spec.x, w), "property")
            spec.replaced = True
            return [Res("val", None, st)]

        b_from_bool.ghost_modifies = ["const"]
        return {"BoolAttr.from_bool": Builtin(b_from_bool), "arith.ConstantOp": Builtin(b_const), "rewriter.replace": Builtin(b_replace)}

    def setup(self, st, inst):
        self.w, self.pred = inst["w"], inst["pred"]
        self.x = st.declare_input("x", z3.Int("x"))
        self.replaced = False
        return {"self": VRef(z3.IntVal(1)), "op": VRef(z3.IntVal(2), "CmpiOp"), "rewriter": VRef(z3.IntVal(3), "PatternRewriter")}

    def bind(self, st, a, inst):
        return {"op.lhs != op.rhs": inst["same"] is False, "op.predicate.value.data": inst["pred"]}

    def pre(self, st, a):
        return [A("operand-bits", z3.And(self.x >= 0, self.x < (1 << self.w)))]

    def post(self, old, st, a, res):
        return []


class SelectFoldCmpf(Spec):
    """
    SelectFoldCmpfPattern: `select (cmpf p, a, b), a, b` -> maximumf / minimumf.  MLIR fast-math semantics: under `nnan` a NaN operand makes the result
    poison (excluded), under `nsz` the sign of a zero result is insignificant.  The flags are two SYMBOLIC booleans: the rewrite must be justified by
    the flags the cmpf actually carries, for all binary64 operands.
    """

    prop, file, qualname = PROP, CP, "SelectFoldCmpfPattern.match_and_rewrite"

    def __init__(self):
        from pyvc.engine import Res

        spec = self

        def b_target(kind):
            def b(ex, st, args, kw):
                from contracts.C15 import ieee_maximum, ieee_minimum

                r = st.fresh_int(kind + "_op")
                a_, b_ = spec.fval[z3.simplify(args[0].z).as_long()], spec.fval[z3.simplify(args[1].z).as_long()]
                spec.built[r.get_id()] = (ieee_maximum if kind == "max" else ieee_minimum)(a_, b_)
                return [Res("val", VRef(r, "Operation"), st)]
            return b

        def b_replace(ex, st, args, kw):
            from contracts.C15 import cmpf_pred

            new = args[1]
            rv = spec.built.get(new.z.get_id())
            if rv is None:
                raise Unsupported("replacement is not an op this contract knows the denotation of")
            a_, b_ = spec.a, spec.b
            before = z3.If(cmpf_pred(spec.pred, a_, b_), a_, b_)
            poison = z3.And(spec.nnan, z3.Or(z3.fpIsNaN(a_), z3.fpIsNaN(b_)))
            same = z3.Or(fp_same(rv, before), z3.And(spec.nsz, z3.fpIsZero(rv), z3.fpIsZero(before)))
            ex.oblige(st, "call-pre", "replace:the-replacement-denotes-the-value-of-the-select-under-the-flags-the-cmpf-carries", z3.Implies(z3.Not(poison), same), "property")
            st.ghost["replaced"] = z3.BoolVal(True)
            return [Res("val", None, st)]

        b_replace.ghost_modifies = ["replaced"]
        self.calls = {"arith.MaximumfOp": Builtin(b_target("max"), "arith.maximumf a, b: IEEE-754 maximum (NaN-propagating, +0 > -0)"),
                      "arith.MinimumfOp": Builtin(b_target("min"), "arith.minimumf a, b: IEEE-754 minimum"),
                      "target": Builtin(lambda ex, st, a, k: (b_target("max") if st.env["target"].text.endswith("MaximumfOp") else b_target("min"))(ex, st, a, k), "the op class chosen by the match"),
                      "rewriter.replace": Builtin(b_replace, "PatternRewriter.replace: the replacement must denote the same value (C11 covers the rewriter itself)")}

    @property
    def globals(self):
        spec = self

        def getattr_(ex, st, base, attr):
            if base.cls == "SelectOp" and attr == "cond":
                return VRef(z3.IntVal(21), "OpResult")
            if base.cls == "OpResult" and attr == "op":
                return VRef(z3.IntVal(22), "CmpfOp")
            if base.cls in ("SelectOp", "CmpfOp") and attr in ("lhs", "rhs"):
                same = spec.inst["same_operands"]
                z = {"lhs": 31, "rhs": 32}[attr] if (same or base.cls == "SelectOp") else {"lhs": 32, "rhs": 31}[attr]
                return VRef(z3.IntVal(z), "SSAValue")
            if base.cls == "CmpfOp" and attr == "fastmath":
                return VRef(z3.IntVal(23), "FastMathFlagsAttr")
            if base.cls == "FastMathFlagsAttr" and attr == "data":
                return VRef(z3.IntVal(24), "FlagSet")
            return None

        def contains(ex, st, container, item):
            if isinstance(container, VRef) and container.cls == "FlagSet" and isinstance(item, VGlobal):
                if item.text.endswith("NO_NANS"):
                    return VBool(spec.nnan)
                if item.text.endswith("NO_SIGNED_ZEROS"):
                    return VBool(spec.nsz)
            return None

        def isinst(ex, st, v, cls):
            return True  # the instance is a select whose condition is the result of a cmpf

        return {"__getattr__": getattr_, "__contains__": contains, "__isinstance__": isinst, "arith": VGlobal("arith"), "OpResult": VGlobal("OpResult")}

    def setup(self, st, inst):
        self.inst = inst
        self.pred = inst["pred"]
        self.built = {}
        self.a = st.declare_input("a", z3.FP("a", F64))
        self.b = st.declare_input("b", z3.FP("b", F64))
        self.nnan = st.declare_input("nnan", z3.Bool("nnan"))
        self.nsz = st.declare_input("nsz", z3.Bool("nsz"))
        self.fval = {31: self.a, 32: self.b}
        st.ghost["replaced"] = z3.BoolVal(False)
        return {"self": VRef(z3.IntVal(1)), "op": VRef(z3.IntVal(2), "SelectOp"), "rewriter": VRef(z3.IntVal(3), "PatternRewriter")}

    def bind(self, st, a, inst):
        return {"cmpf.predicate.value.data": inst["pred"]}

    def pre(self, st, a):
        return []

    def post(self, old, st, a, res):
        return [A("pattern-returns", z3.BoolVal(True))]

    def replay(self, inst, m):
        return N14.check_select_cmpf(inst["pred"], m.get("a"), m.get("b"), m.get("nnan"), m.get("nsz"))


# ------------------------------------------------------------------ the CSE key
CSE = "xdsl/transforms/common_subexpression_elimination.py"
K_NAME, K_ATTRS, K_PROPS, K_OPERANDS, K_RTYPES = (z3.Function(n, I, I) for n in ("key_name", "key_attributes", "key_properties", "key_operands", "key_result_types"))
K_REGIONS_EQ = z3.Function("regions_pairwise_structurally_equivalent", I, I, z3.BoolSort())
K_HASH = z3.Function("python_hash", I, I)


class CseKey(Spec):
    """
    OperationInfo.__eq__ (the key CSE looks operations up with): two operations are identified ONLY IF they agree on name, attributes, PROPERTIES,
    operands, result types and have pairwise structurally equivalent regions - whatever their hashes are (hash is uninterpreted: equal hashes
    say nothing).  Contents are abstract codes: equal codes <=> equal dictionaries / tuples.
    """

    prop, file, qualname = PROP, CSE, "OperationInfo.__eq__"

    @property
    def globals(self):
        def getattr_(ex, st, base, attr):
            if base.cls == "OperationInfo" and attr == "op":
                return VRef(base.z + 100, "Operation")
            if base.cls == "OperationInfo" and attr == "name":
                return VRef(K_NAME(base.z + 100), "str")
            if base.cls == "Operation":
                f = {"attributes": K_ATTRS, "properties": K_PROPS, "operands": K_OPERANDS, "result_types": K_RTYPES}.get(attr)
                if f is not None:
                    return VRef(f(base.z), "content")
            return None

        return {"__getattr__": getattr_, "__isinstance__": lambda ex, st, v, cls: True, "OperationInfo": VGlobal("OperationInfo")}

    @property
    def calls(self):
        from pyvc.engine import Res

        return {"hash": Builtin(lambda ex, st, a, k: [Res("val", VInt(K_HASH(a[0].z)), st)], "hash(x): uninterpreted")}

    def setup(self, st, inst):
        a, b = st.declare_input("self", z3.Int("self")), st.declare_input("other", z3.Int("other"))
        return {"self": VRef(a, "OperationInfo"), "other": VRef(b, "OperationInfo")}

    def bind(self, st, a, inst):
        return {"all((s.is_structurally_equivalent(o) for s, o in zip(self.op.regions, other.op.regions, strict=True)))":
                VBool(K_REGIONS_EQ(a["self"].z + 100, a["other"].z + 100))}

    def pre(self, st, a):
        return [A("objects", z3.And(a["self"].z > 0, a["other"].z > 0))]

    def post(self, old, st, a, res):
        x, y = a["self"].z + 100, a["other"].z + 100
        rz = res.z if isinstance(res, VBool) else z3.BoolVal(bool(res))
        return [C("equal-keys-agree-on-name-attributes-properties-operands-result-types-and-regions",
                  z3.Implies(rz, z3.And(K_NAME(x) == K_NAME(y), K_ATTRS(x) == K_ATTRS(y), K_PROPS(x) == K_PROPS(y), K_OPERANDS(x) == K_OPERANDS(y),
                                        K_RTYPES(x) == K_RTYPES(y), K_REGIONS_EQ(x, y))))]


NATIVE = [("programs-before-after", N14.explore)]


def _search(self, inst, seed):
    r = N14.explore("quick", seed)
    fs = [f for f in r["failures"] if not (f.get("inputs") or {}).get("program_has_an_unsigned_cmpi")]
    return fs[0] if fs else None


def make_specs(tier):
    ws = [1, 2, 8, 32, 64] if tier == "quick" else [1, 2, 3, 4, 8, 16, 32, 64]
    specs = []

    def add(s, insts):
        s.instances = insts
        s.native_search = _search.__get__(s)
        specs.append(s)

    from xdsl.traits import Commutative

    for cls in integer_binary_classes():
        if mlir_semantics(cls.name) is None:
            # a new subclass without MLIR semantics in the table: UNDECIDED, never silently skipped
            s = PyOperation(cls)
            s.qualname = f"{cls.__name__}.<no MLIR semantics in contracts/C14.py for {cls.name}>"
            add(s, [{"w": 8}])
            continue
        W = [{"w": w} for w in ws]
        if "py_operation" in cls.__dict__:
            add(PyOperation(cls), W)
        for which in ("unit", "zero"):
            own = f"is_right_{which}" in cls.__dict__
            add(RightElement(cls, which), W if own else [{"w": w, "cls": cls.__name__} for w in ws])
        if cls.has_trait(Commutative) and "py_operation" in cls.__dict__:
            add(Commutes(cls), W)
        fw = [w for w in ws if w in (1, 8, 64)] if tier == "quick" else ws
        f = Fold(cls)
        f.qualname_note = cls.__name__
        add(f, [{"cls": cls.__name__, "w": w, "lc": lc, "rc": rc} for w in fw for lc in (False, True) for rc in (False, True)])
    for pc in ("SelectConstPattern", "SelectTrueFalsePattern", "SelectSamePattern"):
        add(SelectPatterns(pc), [{"w": w, "same_arms": sa} for w in (1, 8, 64) for sa in (False, True)])
    for cls in integer_binary_classes():
        if mlir_semantics(cls.name) is None:
            continue
        for pat in ("SignlessIntegerBinaryOperationZeroOrUnitRight", "SignlessIntegerBinaryOperationConstantProp"):
            add(IntBinaryPatterns(pat, cls), [{"cls": cls.__name__, "w": w} for w in ((1, 8, 64) if tier == "quick" else ws)])
    add(CseKey(), [{}])
    add(SelectFoldCmpf(), [{"pred": p, "same_operands": True} for p in range(16)] + [{"pred": 2, "same_operands": False}])
    add(FoldConst(), [{"op": o} for o in ("AddfOp", "SubfOp", "MulfOp", "DivfOp", "MaximumfOp")])
    add(CmpiEqualOperands(), [{"w": w, "pred": p, "same": True} for w in (1, 8, 64) for p in range(10)] + [{"w": 8, "pred": 2, "same": False}])
    return specs


ASSUMPTIONS = [
    "the pattern driver (C11), CSE's key (C03/C08) and the IR plumbing are not part of these kernels; scf/cf canonicalizations are not covered",
    "IntegerAttr(v, t) stores the signed representative of v (contract of IntegerType.normalized_value, proved in C08)",
    "f32/f16 constants folded in binary64 and rounded once by FloatAttr are correctly rounded for + - * / (double-rounding theorem, 53 >= 2*24+2): assumed, "
    "the SMT query stays unknown; the bounded stand-in exercises f32 programs",
    "the fold method and the ConstantProp / ZeroOrUnitRight / Select* patterns are verified against the per-class lemmas with trusted models of "
    "const_evaluate_operand(_attribute) (a constant operand yields its stored normalised integer), ConstantOp.from_int_and_width (bit pattern of the value), "
    "K(lhs, rhs) (denotes K's MLIR semantics) and rewriter.replace (C11); FoldConstsByReassociation, FoldConstConstOp, the cmpi-constant and float pattern "
    "plumbing are covered by the bounded stand-in only",
    "index-typed constants: lemmas are stated at width 64. IntegerAttr does not truncate index payloads (truncate_bits is ignored for index: xdsl keeps index "
    "width-agnostic), so fold on index constants returns the mathematical result (2**62 * 8 : index folds to 2**65); it is congruent to the bit-exact result "
    "modulo 2**W for every index width W, which is what the lemmas state - that a consumer reduces the payload to the target width is NOT checked",
]

SPECS = make_specs(os.environ.get("VERIF_TIER", "quick"))
