"""
C19 — Register allocation never gives one register to two live values.

Statement (quoted): "at every program point no two simultaneously live values hold the same
physical register ..., pre-assigned and reserved registers are respected, and executing the
allocated code with register semantics computes the same results as before allocation."

Proved kernel: the RegisterStack of one pool behaves as a duplicate-free stack of allocatable,
non-reserved registers: a popped register is no longer available (so two pops without an
intervening push return different registers), infinite registers are handed out with strictly
increasing indices, push re-adds on top unless reserved / not allocatable, reserve/unreserve count,
include/exclude keep the invariant.  The interference statement for whole functions is decided by
the bounded stand-in (allocated code executed on a register machine).
"""

from __future__ import annotations

import os

import z3

from contracts import C19_native as N19
from contracts.common import A, AX, C, forall
from pyvc.spec import Builtin, Inline, Spec
from pyvc.values import Clause, VBool, VInt, VRef, VTuple, Vocab, z_int

PROP = "C19"
RS = "xdsl/backend/register_stack.py"
I = z3.IntSort()
VOCAB = Vocab({"allow_infinite": "bool", "new_value_by_old_value": "dict:ref:ref:SSAValue", "available_registers": "ref:RegisterStack"})


class Pool:
    """One pool of a RegisterStack: available (list of indices), allocatable (set), reserved (dict idx -> count), next infinite index."""

    def __init__(self, st):
        self.AV = z3.Int("available_list")
        self.AL = z3.Int("allocatable_set")
        self.RE = z3.Int("reserved_dict")
        self.NI = z3.Int("next_infinite_dict")
        self.key = z3.Int("pool_key")
        # tables looked up by the register TYPE NAME instead of the pool key reach the same pool only when the two strings coincide (riscv);
        # they differ e.g. for x86 (type x86.reg64, pool x86.reg): then another, unrelated, table entry is consulted
        self.same = z3.Bool("type_name_equals_pool_key")
        self.AV2, self.AL2, self.RE2 = z3.Int("available_list_of_the_type_name"), z3.Int("allocatable_set_of_the_type_name"), z3.Int("reserved_dict_of_the_type_name")

    def binds(self):
        return {
            "self.available_registers[pool_key]": VRef(self.AV, "list", ("list", "int")),
            "self.allocatable_registers[pool_key]": VRef(self.AL, "set", ("set", "int")),
            "self.reserved_registers[pool_key]": VRef(self.RE, "dict", ("dict", "int", "int", None, "defaultdict0")),
            "self.reserved_registers[reg.register_pool_key()]": VRef(self.RE, "dict", ("dict", "int", "int", None, "defaultdict0")),
            "self.next_infinite_indices": VRef(self.NI, "dict", ("dict", "ref", "int")),
            "self.available_registers[reg.name]": VRef(z3.If(self.same, self.AV, self.AV2), "list", ("list", "int")),
            "self.allocatable_registers[reg.name]": VRef(z3.If(self.same, self.AL, self.AL2), "set", ("set", "int")),
            "self.reserved_registers[reg.name]": VRef(z3.If(self.same, self.RE, self.RE2), "dict", ("dict", "int", "int", None, "defaultdict0")),
            "reg.register_pool_key()": VRef(self.key, "str"),
            "reg_type.register_pool_key()": VRef(self.key, "str"),
        }

    def inv(self, st):
        i, j = z3.Ints("pl!i pl!j")
        n = st.list_len(self.AV)
        el = lambda k: st.list_el(self.AV, k)
        return [
            A("objects", z3.And(self.AV != 0, self.AL != 0, self.RE != 0, self.NI != 0, z3.Distinct(self.AL, self.RE, self.NI, self.AL2, self.RE2), n >= 0,
                                self.AV2 != 0, self.AL2 != 0, self.RE2 != 0, self.AV2 != self.AV, st.list_len(self.AV2) >= 0)),
            A("available-has-no-duplicates", forall([i, j], z3.Implies(z3.And(i >= 0, j >= 0, i < n, j < n, i != j), el(i) != el(j)))),
            A("available-are-allocatable-and-not-reserved", forall([i], z3.Implies(z3.And(i >= 0, i < n), z3.Or(
                el(i) < 0, z3.And(st.dict_has(self.AL, el(i)), z3.Not(st.dict_has(self.RE, el(i)))))))),
            A("reservation-counts-positive", forall([i], z3.Implies(st.dict_has(self.RE, i), st.dict_val(self.RE, i) > 0))),
            A("next-infinite-index", z3.And(st.dict_has(self.NI, self.key), st.dict_val(self.NI, self.key) >= 0)),
        ]

    def member(self, st, x):
        i = z3.Int("pl!m")
        return z3.Exists([i], z3.And(i >= 0, i < st.list_len(self.AV), st.list_el(self.AV, i) == x))


REG_INDEX = z3.Function("register_index", I, I)


def b_from_index(ex, st, args, kw):
    from pyvc.engine import Res

    r = st.fresh_int("reg")
    st.assume(z3.And(r != 0, REG_INDEX(r) == z_int(args[0])))
    return [Res("val", VRef(r, "RegisterType"), st)]


def b_infinite(ex, st, args, kw):
    from pyvc.engine import Res

    r = st.fresh_int("reg")
    k = z_int(args[0])
    st.assume(z3.And(r != 0, REG_INDEX(r) == -k - 1))  # IntAttr(~index)
    return [Res("val", VRef(r, "RegisterType"), st)]


class StackSpec(Spec):
    prop, file = PROP, RS
    modifies = ["list#len", "list#el", "dict#dom", "dict#val"]
    asserts = "raise"

    def __init__(self, method):
        self.qualname = f"RegisterStack.{method}"
        self.method = method
        self.p = Pool(None)
        self.idx = z3.Int("index")
        self.calls = {"reg_type.from_index": Builtin(b_from_index, "RegisterType.from_index(i): the register with index i"),
                      "reg_type.infinite_register": Builtin(b_infinite, "RegisterType.infinite_register(k): index ~k")}
        if method == "include_register":
            self.calls["self.push"] = StackSpec("push")

    @property
    def globals(self):
        def getattr_(ex, st, base, attr):
            if attr == "index" and base.cls == "RegisterType":
                return VRef(base.z, "IndexAttr")
            if attr == "data" and base.cls == "IndexAttr":
                return VInt(REG_INDEX(base.z))
            if attr == "name" and base.cls in ("type", "RegisterType"):
                # the register TYPE NAME: the pool key only for families where the two strings coincide (riscv); another string otherwise (x86.reg64 vs x86.reg)
                return VRef(z3.If(spec.p.same, spec.p.key, z3.Int("type_name_string")), "str")
            return None

        spec = self
        return {"__getattr__": getattr_}

    def setup(self, st, inst):
        st.declare_input("index", self.idx)
        a = {"self": VRef(st.declare_input("self", z3.Int("self")), "RegisterStack")}
        if self.method == "pop":
            a["reg_type"] = VRef(z3.IntVal(9), "type")
        else:
            a["reg"] = VRef(st.declare_input("reg", z3.Int("reg")), "RegisterType")
        return a

    def bind(self, st, a, inst):
        b = self.p.binds()
        b.update({"isinstance(reg.index, IntAttr)": True, "isinstance(reg.index, NoneAttr)": False})
        return b

    def pre(self, st, a):
        out = self.p.inv(st) + [A("self", a["self"].z != 0)]
        if "reg" in a:
            out.append(A("reg-is-allocated-with-index", z3.And(a["reg"].z != 0, REG_INDEX(a["reg"].z) == self.idx)))
        if self.method == "reserve_register":
            # docstring: "It is invalid to reserve a register that is available"
            out.append(A("not-available-when-reserved", z3.Not(self.p.member(st, self.idx))))
        return out

    # callee view (include_register -> push)
    def result_value(self, st, a):
        return None

    def post(self, old, st, a, res):
        p = self.p
        x = self.idx
        n_o, n_n = old.list_len(p.AV), st.list_len(p.AV)
        y, i = z3.Ints("ps!y ps!i")
        out = [Clause(c.name, c.z, "property" if "duplicates" in c.name or "allocatable-and" in c.name else "aux") for c in p.inv(st)]
        mem_o = lambda v: z3.Exists([i], z3.And(i >= 0, i < n_o, old.list_el(p.AV, i) == v))
        mem_n = lambda v: z3.Exists([i], z3.And(i >= 0, i < n_n, st.list_el(p.AV, i) == v))
        same_others = forall([y], z3.Implies(y != x, mem_n(y) == mem_o(y)))
        eo = lambda k: old.list_el(p.AV, k)
        en = lambda k: st.list_el(p.AV, k)
        # order-preserving removal, stated with explicit witnesses (forall-only): every new element is an old one (or x), every old one but x survives
        witnessed = [Clause("other-registers:new-elements-come-from-old", forall([i], z3.Implies(z3.And(i >= 0, i < n_n), z3.Or(
            en(i) == x, z3.And(i < n_o, en(i) == eo(i)), z3.And(i + 1 < n_o, en(i) == eo(i + 1))))), "lemma"),
            Clause("old-elements-survive", forall([i], z3.Implies(z3.And(i >= 0, i < n_o, eo(i) != x), z3.Or(
                z3.And(i < n_n, en(i) == eo(i)), z3.And(i >= 1, i - 1 < n_n, en(i - 1) == eo(i))))), "lemma")]
        # (these two forall-only clauses ARE the statement "every other register keeps its availability"; the equivalent
        #  exists-form is not posed separately: it was an unstable query, 0.05 s .. >60 s on identical input)
        frame = lambda names: A("frame-other-containers", z3.And(*[z3.And(st.dict_dom(c) == old.dict_dom(c), st.dict_vals(c) == old.dict_vals(c)) for c in names]))
        m = self.method
        if m == "push":
            blocked = z3.And(z3.Or(old.dict_has(p.RE, x), z3.Not(old.dict_has(p.AL, x))), x >= 0)
            out += witnessed + [frame([p.AL, p.RE, p.NI])]
            out += [C("reserved-or-foreign-registers-are-not-made-available", z3.Implies(blocked, z3.And(n_n == n_o, st.list_arr(p.AV) == old.list_arr(p.AV)))),
                    C("otherwise-on-top", z3.Implies(z3.Not(blocked), z3.And(n_n >= 1, st.list_el(p.AV, n_n - 1) == x)))]
        elif m == "pop":
            r = REG_INDEX(res.z)
            ni_o, ni_n = old.dict_val(p.NI, p.key), st.dict_val(p.NI, p.key)
            out += [C("from-the-pool-when-not-empty", z3.Implies(n_o > 0, z3.And(r == old.list_el(p.AV, n_o - 1), n_n == n_o - 1, ni_n == ni_o))),
                    C("popped-register-is-no-longer-available", z3.Not(mem_n(r))),
                    C("fresh-infinite-register-otherwise", z3.Implies(n_o == 0, z3.And(r == -ni_o - 1, ni_n == ni_o + 1, n_n == 0))),
                    C("popped-register-is-not-reserved", z3.Not(old.dict_has(p.RE, r))),
                    C("other-registers-keep-their-availability", forall([y], z3.Implies(y != r, mem_n(y) == mem_o(y))))]
        elif m == "reserve_register":
            out += [C("count-incremented", z3.And(st.dict_has(p.RE, x), st.dict_val(p.RE, x) == z3.If(old.dict_has(p.RE, x), old.dict_val(p.RE, x), 0) + 1)),
                    C("availability-unchanged", z3.And(n_n == n_o, st.list_arr(p.AV) == old.list_arr(p.AV)))]
        elif m == "unreserve_register":
            out += [C("count-decremented-or-dropped", z3.If(old.dict_val(p.RE, x) == 1, z3.Not(st.dict_has(p.RE, x)),
                                                           z3.And(st.dict_has(p.RE, x), st.dict_val(p.RE, x) == old.dict_val(p.RE, x) - 1))),
                    C("availability-unchanged", z3.And(n_n == n_o, st.list_arr(p.AV) == old.list_arr(p.AV)))]
        elif m == "include_register":
            out += [C("allocatable", st.dict_has(p.AL, x)), C("available-unless-reserved", z3.Implies(z3.Not(old.dict_has(p.RE, x)), mem_n(x)))]
        elif m == "exclude_register":
            out += witnessed + [frame([p.RE, p.NI])]
            out += [C("not-available", z3.Not(mem_n(x))), C("not-allocatable", z3.Not(st.dict_has(p.AL, x)))]
        return out

    def post_exc(self, old, st, a, exc):
        p = self.p
        m = self.method
        if m == "pop" and exc == "OutOfRegisters":
            return [C("out-of-registers-only-when-empty-and-finite", z3.And(old.list_len(p.AV) == 0, z3.Not(old.sel("allow_infinite", a["self"].z))))]
        if m == "pop" and exc == "AssertionError":
            # only a reserved *infinite* register can trip the assertion (documented misuse: reserving while available)
            cand = z3.If(old.list_len(p.AV) > 0, old.list_el(p.AV, old.list_len(p.AV) - 1), -old.dict_val(p.NI, p.key) - 1)
            return [C("assertion-only-for-a-reserved-infinite-register", z3.And(cand < 0, old.dict_has(p.RE, cand)))]
        if m == "unreserve_register" and exc == "ValueError":
            return [C("ValueError-only-if-not-reserved", z3.Not(old.dict_has(p.RE, self.idx)))]
        return None

    def native_search(self, inst, seed):
        r = _native_stack("quick", seed)
        if r["failures"]:
            return r["failures"][0]
        r = N19.explore("quick", seed)
        return r["failures"][0] if r["failures"] else None


def _native_stack(tier, seed):
    """Real RegisterStack vs a model (allocatable set, available duplicate-free stack, reservation counts) on seeded operation sequences."""
    import random

    from xdsl.backend.register_stack import OutOfRegisters, RegisterStack
    from xdsl.dialects import riscv
    from xdsl.dialects.x86 import registers as x86r

    rnd = random.Random(seed)
    # two register families: riscv integers (pool key == type name) and x86 64-bit general registers (pool key "x86.reg" != type name "x86.reg64")
    families = [(riscv.IntRegisterType, ("t0", "t1", "t2", "t3")), (x86r.Reg64Type, ("rax", "rcx", "rdx", "rsi"))]
    cases = 0

    def fail(why):
        return {"cases": cases, "failures": [{"key": "C19/stack", "why": why}], "exhaustive": False, "bound": ""}

    for it in range(400 if tier == "quick" else 6000):
        RT, names = families[it % 2]
        regs = [RT.from_name(n) for n in names]
        key = regs[0].register_pool_key()
        s = RegisterStack.get([regs[0], regs[1], regs[2]], allow_infinite=rnd.random() < 0.5)
        alloc = {r.index.data for r in regs[:3]}
        avail = [r.index.data for r in regs[:3]]
        held = []
        reserved = {}
        trace = []
        for _ in range(15):
            cases += 1
            k = rnd.random()
            if k < 0.35:
                trace.append("pop")
                try:
                    r = s.pop(RT)
                except OutOfRegisters:
                    if avail:
                        return fail(f"{trace}: OutOfRegisters although {avail} are available")
                    continue
                except AssertionError:
                    # documented misuse: an infinite (negative index) register reserved while it is on the stack
                    if avail and avail[-1] < 0 and reserved.get(avail[-1], 0) > 0:
                        break
                    return fail(f"{trace}: pop asserted although the top of the stack is not a reserved infinite register")
                if avail:
                    exp = avail.pop()
                    if r.index.data != exp:
                        return fail(f"{trace}: popped index {r.index.data}, model says {exp}")
                if any(r == h for h in held):
                    return fail(f"{trace}: {r} handed out twice without an intervening push")
                if reserved.get(r.index.data, 0) > 0:
                    return fail(f"{trace}: popped reserved register {r}")
                held.append(r)
            elif k < 0.6 and held:
                r = held.pop(rnd.randrange(len(held)))
                trace.append(f"push {r.register_name.data}")
                s.push(r)
                i = r.index.data
                if not ((i in reserved and reserved[i] > 0) or i not in alloc) or i < 0:
                    if i in avail:
                        avail.remove(i)
                    avail.append(i)
            elif k < 0.7 and held:
                r = rnd.choice(held)
                trace.append(f"reserve {r.register_name.data}")
                s.reserve_register(r)
                reserved[r.index.data] = reserved.get(r.index.data, 0) + 1
            elif k < 0.8:
                cand = [h for h in held if reserved.get(h.index.data, 0) > 0]
                if cand:
                    r = rnd.choice(cand)
                    trace.append(f"unreserve {r.register_name.data}")
                    s.unreserve_register(r)
                    reserved[r.index.data] -= 1
            elif k < 0.9:
                r = rnd.choice(regs)
                trace.append(f"exclude {r.register_name.data}")
                s.exclude_register(r)
                alloc.discard(r.index.data)
                if r.index.data in avail:
                    avail.remove(r.index.data)
            else:
                r = rnd.choice(regs)
                if any(r == h for h in held):
                    continue
                trace.append(f"include {r.register_name.data}")
                s.include_register(r)
                i = r.index.data
                alloc.add(i)
                if not (reserved.get(i, 0) > 0):
                    if i in avail:
                        avail.remove(i)
                    avail.append(i)
            if list(s.available_registers[key]) != avail or set(s.allocatable_registers[key]) != alloc:
                return fail(f"{trace}: available={list(s.available_registers[key])} allocatable={sorted(s.allocatable_registers[key])}, model available={avail} allocatable={sorted(alloc)}")
    return {"cases": cases, "failures": [], "exhaustive": False,
            "bound": "seeded pop/push/reserve/unreserve/exclude/include sequences on a 3-register pool (finite and infinite) against a stack model: same available "
                     "stack and allocatable set after every call, no register handed out twice, reserved registers never popped"}


NATIVE = [("allocated-functions", N19.explore), ("register-stack-model", _native_stack), ("reservation-nesting", N19.explore_reservations), ("infinite-registers", N19.explore_infinite), ("loops", N19.explore_loops)]



# =============================================================================== ValueAllocator
RA = "xdsl/backend/register_allocator.py"
VTYPE = z3.Function("type_of_value", I, I)
ISREG = z3.Function("is_register_of_the_allocators_base_class", I, z3.BoolSort())
ALLOCD = z3.Function("register_type_is_allocated", I, z3.BoolSort())
SETB = z3.ArraySort(I, z3.BoolSort())


class AllocatorSpec(Spec):
    """
    ValueAllocator.allocate_value / free_value (new_type_for_value and _replace_value_with_new_type inlined): the register stack is seen through
    its contract as ghost logs POPPED / PUSHED.
      allocate_value: a value already handled, not register-typed or ALREADY ALLOCATED (pre-assigned) is left alone - nothing popped, nothing
                      replaced; otherwise exactly one register is popped and the replacement value has exactly that register type and is recorded;
      free_value:     pushes exactly the register of an allocated register-typed value, nothing otherwise.
    """

    prop, file = PROP, RA
    modifies = ["dict#dom", "dict#val"]
    ghost_modifies = ["POPPED", "PUSHED", "n_pop", "n_push"]

    def __init__(self, method):
        self.method = method
        self.qualname = f"ValueAllocator.{method}"
        self.inline = {"self.new_type_for_value": Inline(RA, "ValueAllocator.new_type_for_value"),
                       "self._replace_value_with_new_type": Inline(RA, "ValueAllocator._replace_value_with_new_type")}

        def b_pop(ex, st, args, kw):
            from pyvc.engine import Res

            r = st.fresh_int("popped_register")
            st.assume(z3.And(r != 0, ISREG(r), ALLOCD(r)))
            st.ghost["POPPED"] = z3.Store(st.ghost["POPPED"], r, True)
            st.ghost["n_pop"] = z3.simplify(st.ghost["n_pop"] + 1)
            st.ghost["last_pop"] = r
            return [Res("val", VRef(r, "RegisterType"), st)]

        b_pop.ghost_modifies = ["POPPED", "n_pop", "last_pop"]

        def b_push(ex, st, args, kw):
            from pyvc.engine import Res

            st.ghost["PUSHED"] = z3.Store(st.ghost["PUSHED"], args[0].z, True)
            st.ghost["n_push"] = z3.simplify(st.ghost["n_push"] + 1)
            return [Res("val", None, st)]

        b_push.ghost_modifies = ["PUSHED", "n_push"]

        def b_replace(ex, st, args, kw):
            from pyvc.engine import Res

            v = st.fresh_int("new_value")
            st.assume(z3.And(v != 0, VTYPE(v) == args[1].z, v != args[0].z))
            return [Res("val", VRef(v, "SSAValue"), st)]

        self.calls = {"self.available_registers.pop": Builtin(b_pop, "RegisterStack.pop (contract proved above): an allocated register of the requested class"),
                      "self.available_registers.push": Builtin(b_push, "RegisterStack.push"),
                      "Rewriter.replace_value_with_new_type": Builtin(b_replace, "returns a NEW value of the requested type (C01)"),
                      "type": Builtin(lambda ex, st, a, k: [__import__("pyvc.engine", fromlist=["Res"]).Res("val", VRef(z3.IntVal(5), "type"), st)], "")}

    @property
    def globals(self):
        def getattr_(ex, st, base, attr):
            if attr == "type" and base.cls == "SSAValue":
                return VRef(VTYPE(base.z), "RegisterType")
            if attr == "is_allocated":
                return VBool(ALLOCD(base.z))
            if attr == "register_base_class":
                return VRef(z3.IntVal(6), "type")
            return None

        def isinst(ex, st, v, cls):
            from pyvc.values import lift_bool

            if isinstance(v, VRef) and v.cls == "RegisterType":
                return lift_bool(ISREG(v.z))
            return None

        return {"__getattr__": getattr_, "__isinstance__": isinst, "Rewriter": __import__("pyvc.values", fromlist=["VGlobal"]).VGlobal("Rewriter")}

    def setup(self, st, inst):
        st.ghost["POPPED"] = z3.Const("POPPED0", SETB)
        st.ghost["PUSHED"] = z3.Const("PUSHED0", SETB)
        st.ghost["n_pop"] = z3.IntVal(0)
        st.ghost["n_push"] = z3.IntVal(0)
        st.ghost["last_pop"] = z3.IntVal(0)
        return {"self": VRef(st.declare_input("self", z3.Int("self")), "ValueAllocator"), "val": VRef(st.declare_input("val", z3.Int("val")), "SSAValue")}

    def pre(self, st, a):
        me = a["self"].z
        return [A("objects", z3.And(me != 0, a["val"].z != 0, st.sel("new_value_by_old_value", me) != 0, VTYPE(a["val"].z) != 0))]

    def post(self, old, st, a, res):
        me, v = a["self"].z, a["val"].z
        m0 = old.sel("new_value_by_old_value", me)
        t = VTYPE(v)
        same_map = z3.And(st.dict_dom(m0) == old.dict_dom(m0), st.dict_vals(m0) == old.dict_vals(m0))
        npop, npush = st.ghost["n_pop"], st.ghost["n_push"]
        if self.method == "free_value":
            frees = z3.And(ISREG(t), ALLOCD(t))
            return [C("pushes-exactly-the-register-of-an-allocated-value", z3.Implies(frees, z3.And(npush == 1, st.ghost["PUSHED"] == z3.Store(old.ghost["PUSHED"], t, True)))),
                    C("nothing-is-pushed-otherwise", z3.Implies(z3.Not(frees), z3.And(npush == 0, st.ghost["PUSHED"] == old.ghost["PUSHED"]))),
                    C("never-pops", npop == 0), A("map-untouched", same_map)]
        needs = z3.And(z3.Not(old.dict_has(m0, v)), ISREG(t), z3.Not(ALLOCD(t)))
        r = z_int(res)
        return [C("handled-not-a-register-or-pre-assigned-values-are-left-alone", z3.Implies(z3.Not(needs), z3.And(r == 0, npop == 0, same_map))),
                C("otherwise-exactly-one-register-is-popped-and-given-to-the-replacement-value",
                  z3.Implies(needs, z3.And(npop == 1, r != 0, VTYPE(r) == st.ghost["last_pop"], st.ghost["POPPED"][VTYPE(r)],
                                           st.dict_has(m0, v), st.dict_val(m0, v) == r))),
                C("never-pushes", npush == 0)]

    def native_search(self, inst, seed):
        r = N19.explore("quick", seed)
        return r["failures"][0] if r["failures"] else None


# ------------------------------------------------------------------ HasRegisterConstraints.allocate_registers (the per-op step of the backward walk)
RALLOC = "xdsl/backend/register_allocatable.py"
RCLASS = z3.Function("register_class_of_type", I, I)  # the pool a register type belongs to


class AllocateRegisters(Spec):
    """
    HasRegisterConstraints.allocate_registers(allocator), for an op with a CONCRETE number of in / out / inout values (every loop is unrolled:
    bounded in those lengths, symbolic in everything else).  All results of one op are written together, so they are simultaneously live:
      * when a result is given a register (allocate_value on an `out`), no register of its class has been released yet in this call
        - a released register could be handed straight back to that result while another result still occupies it;
      * on return every register-typed, not yet handled `out` result has been replaced by an allocated value.
    ValueAllocator.allocate_value / free_value are used through their discharged contracts (units AllocatorSpec), allocate_values_same_reg through a
    trusted model (it never releases a register).
    """

    prop, file, qualname = PROP, RALLOC, "HasRegisterConstraints.allocate_registers"

    def __init__(self):
        from pyvc.engine import Res

        spec = self

        def is_out(x):
            return z3.Or(*[x == o for o in spec.outs]) if spec.outs else z3.BoolVal(False)

        def b_constraints(ex, st, args, kw):
            mk = lambda zs: VTuple([VRef(z, "SSAValue") for z in zs])
            return [Res("val", VTuple([mk(spec.ins), mk(spec.outs), VTuple([mk(g) for g in spec.inouts])]), st)]

        def b_allocate_value(ex, st, args, kw):
            x = args[0].z
            t = VTYPE(x)
            r_ = z3.Int("av!r")
            ex.note_contract(spec._c_alloc)
            needs = z3.And(z3.Not(st.ghost["HANDLED"][x]), ISREG(t), z3.Not(ALLOCD(t)))
            ex.oblige(st, "call-pre", "allocate_value:no-register-of-its-class-has-been-released-before-a-result-gets-its-register",
                      z3.Implies(z3.And(is_out(x), needs), forall([r_], z3.Implies(st.ghost["PUSHED"][r_], RCLASS(r_) != RCLASS(t)))), "property")
            out = []
            for yes, bs in ex.split(st, needs):
                if not yes:
                    out.append(Res("val", None, bs))
                    continue
                p_ = bs.fresh_int("popped_register")
                nv = bs.fresh_int("new_value")
                bs.assume(z3.And(p_ != 0, ISREG(p_), ALLOCD(p_), RCLASS(p_) == RCLASS(t), nv != 0, nv != x, VTYPE(nv) == p_))
                bs.ghost["HANDLED"] = z3.Store(bs.ghost["HANDLED"], x, True)
                bs.ghost["REPLACED"] = z3.Store(bs.ghost["REPLACED"], x, True)
                out.append(Res("val", VRef(nv, "SSAValue"), bs))
            return out

        b_allocate_value.ghost_modifies = ["HANDLED", "REPLACED"]

        def b_free_value(ex, st, args, kw):
            ex.note_contract(spec._c_free)
            t = VTYPE(args[0].z)
            st.ghost["PUSHED"] = z3.If(z3.And(ISREG(t), ALLOCD(t)), z3.Store(st.ghost["PUSHED"], t, True), st.ghost["PUSHED"])
            return [Res("val", None, st)]

        b_free_value.ghost_modifies = ["PUSHED"]
        self._c_alloc, self._c_free = AllocatorSpec("allocate_value"), AllocatorSpec("free_value")
        self.calls = {"self.get_register_constraints": Builtin(b_constraints, "the op's (ins, outs, inouts) register values"),
                      "allocator.allocate_value": Builtin(b_allocate_value, "contract of ValueAllocator.allocate_value (unit AllocatorSpec): handled / non-register / pre-assigned values are "
                                                                            "left alone (None); otherwise one register of the value's class is popped and a new value of that type returned"),
                      "allocator.free_value": Builtin(b_free_value, "contract of ValueAllocator.free_value (unit AllocatorSpec): pushes exactly the register of an allocated register-typed value"),
                      "allocator.allocate_values_same_reg": Builtin(lambda ex, st, a, k: [Res("val", None, st)], "TRUSTED: allocates one register for a group of values; never releases one")}

    def setup(self, st, inst):
        mk = lambda tag, n: [st.declare_input(f"{tag}{j}", z3.Int(f"{tag}{j}")) for j in range(n)]
        self.ins, self.outs = mk("in", inst["ins"]), mk("out", inst["outs"])
        self.inouts = [mk(f"inout{g}_", 2) for g in range(inst["inouts"])]
        SETB_ = z3.ArraySort(I, z3.BoolSort())
        st.ghost["PUSHED"] = z3.K(I, z3.BoolVal(False))
        st.ghost["HANDLED"] = z3.Const("HANDLED0", SETB_)
        st.ghost["REPLACED"] = z3.K(I, z3.BoolVal(False))
        self._handled0 = st.ghost["HANDLED"]
        return {"self": VRef(z3.IntVal(1), "Operation"), "allocator": VRef(z3.IntVal(2), "BlockAllocator")}

    def pre(self, st, a):
        vals = self.ins + self.outs + [z for g in self.inouts for z in g]
        return [A("values-are-objects", z3.And(*[v != 0 for v in vals]) if vals else z3.BoolVal(True)),
                A("results-are-distinct-values-and-no-operand-of-the-op-is-one-of-its-results",
                  z3.And(z3.Distinct(*self.outs) if len(self.outs) > 1 else z3.BoolVal(True),
                         *[i != o for i in self.ins + [z for g in self.inouts for z in g] for o in self.outs]))]

    def post(self, old, st, a, res):
        return [C("every-unhandled-unallocated-register-result-has-been-given-an-allocated-replacement",
                  z3.And(*[z3.Implies(z3.And(z3.Not(self._handled0[o]), ISREG(VTYPE(o)), z3.Not(ALLOCD(VTYPE(o)))), st.ghost["REPLACED"][o]) for o in self.outs])
                  if self.outs else z3.BoolVal(True))]

    def native_search(self, inst, seed):
        r = N19.explore("quick", seed)
        return r["failures"][0] if r["failures"] else None


class ReserveRegisters(Spec):
    """
    RegisterStack.reserve_registers(regs) (a @contextmanager): BALANCED - when the context is left, every register's reservation count is what it
    was when the context was entered, for a concrete number of registers (loops unrolled; the registers may coincide).  reserve_register /
    unreserve_register are executed (inlined real bodies).  The code run inside the context is modelled at the `yield`: it may pop and push
    registers but leaves every reservation count as it found it (nested contexts are balanced by this same contract - a loop nest reserves
    the same carried register twice, and leaving the inner loop must not drop the outer reservation).
    """

    prop, file, qualname = PROP, RS, "RegisterStack.reserve_registers"
    bind_in_inlined = True  # reserve_register / unreserve_register are methods of the same stack: the pool lookups denote the same objects
    modifies = ["list#len", "list#el", "dict#dom", "dict#val"]

    def __init__(self):
        self.p = Pool(None)
        self.inline = {"self.reserve_register": Inline(RS, "RegisterStack.reserve_register"), "self.unreserve_register": Inline(RS, "RegisterStack.unreserve_register")}

    @property
    def globals(self):
        spec = self

        def getattr_(ex, st, base, attr):
            if attr == "index" and base.cls == "RegisterType":
                return VRef(base.z, "IndexAttr")
            if attr == "data" and base.cls == "IndexAttr":
                return VInt(REG_INDEX(base.z))
            if attr == "register_name":
                return VRef(z3.IntVal(1), "str")
            return None

        def at_yield(ex, st):
            from pyvc.engine import Res

            # the body of the `with` statement: arbitrary stack traffic, reservation counts left as found (TRUSTED: balanced nesting)
            p = spec.p
            old = st.snapshot()
            st.havoc(["list#len", "list#el"])
            st.assume(st.list_len(p.AV) >= 0)
            return [Res("val", None, st)]

        return {"__getattr__": getattr_, "__yield__": at_yield, "__isinstance__": lambda ex, st, v, cls: True, "__fstring__": lambda ex, st, parts: VRef(z3.IntVal(1), "str")}

    def setup(self, st, inst):
        n = inst["n"]
        self.regs = [st.declare_input(f"reg{j}", z3.Int(f"reg{j}")) for j in range(n)]
        return {"self": VRef(st.declare_input("self", z3.Int("self")), "RegisterStack"), "regs": VTuple([VRef(r, "RegisterType") for r in self.regs])}

    def bind(self, st, a, inst):
        return self.p.binds()

    def pre(self, st, a):
        self._entry = st.snapshot()
        return self.p.inv(st) + [A("objects", z3.And(a["self"].z != 0, *[r != 0 for r in self.regs]))]

    def post(self, old, st, a, res):
        p = self.p
        i = z3.Int("rr!i")
        cnt = lambda s, k: z3.If(s.dict_has(p.RE, k), s.dict_val(p.RE, k), 0)
        return [C("balanced: every reservation count is what it was when the context was entered", forall([i], cnt(st, i) == cnt(old, i)))]

    def post_exc(self, old, st, a, exc):
        return None

    def native_search(self, inst, seed):
        r = N19.explore_reservations("quick", seed)
        return r["failures"][0] if r["failures"] else None


def make_specs(tier):
    specs = []
    for m in ("push", "pop", "reserve_register", "unreserve_register", "include_register", "exclude_register"):
        s = StackSpec(m)
        s.instances = [{}]
        specs.append(s)
    for m in ("allocate_value", "free_value"):
        s = AllocatorSpec(m)
        s.instances = [{}]
        specs.append(s)
    ar = AllocateRegisters()
    ar.instances = [{"ins": i, "outs": o, "inouts": g} for o in range(0, 4) for i in range(0, 3) for g in range(0, 2)]
    specs.append(ar)
    rr = ReserveRegisters()
    rr.instances = [{"n": n} for n in range(0, 3)]
    specs.append(rr)
    return specs


ASSUMPTIONS = [
    "one register pool at a time: the defaultdict lookups self.available_registers[pool_key] etc. are bound to the pool's list/set/dict objects (pools with "
    "different keys are independent objects)",
    "RegisterStack.reserve_register is called only for registers that are not available (its documented precondition)",
    "ValueAllocator.allocate_value / free_value are under contract with the register stack seen through ghost logs of pop/push calls; "
    "HasRegisterConstraints.allocate_registers (the per-op step) is under contract for ops with <= 3 out, <= 2 in and <= 1 inout group values (loops unrolled: bounded in these "
    "lengths, symbolic otherwise), with allocate_value / free_value replaced by their discharged contracts and allocate_values_same_reg by a trusted model (never releases a register); "
    "ValueAllocator.allocate_values_same_reg (iteration and unpacking of a Python set), BlockNaiveAllocator.allocate_block, the overriding allocate_registers of loop / call ops and the x86 allocator are "
    "NOT under discharged contracts: the interference / pre-assignment / result-preservation clauses are decided by the bounded stand-in only (riscv, integer registers)",
    "reserve_registers (a @contextmanager generator) is under contract for <= 2 registers with the code of the `with` body modelled at the `yield` as arbitrary stack traffic that "
    "leaves the reservation counts as it found them (trusted: balanced nesting)",
]

SPECS = make_specs(os.environ.get("VERIF_TIER", "quick"))
