"""
C11 — The greedy rewrite driver reaches a fixpoint and observes every IR change.

Statement (quoted): "When the greedy pattern-rewrite walker returns with recursive application
enabled, no pattern would change any operation of the rewritten region any more, and the walker
reports a modification whenever the IR changed. Patterns are never invoked on operations that have
been erased or detached from the region, every insertion, removal, replacement and in-place
modification made through the rewriter is reported to registered listeners, and the rewriter's
action flag is set whenever a match mutated the IR."

How the statement becomes contracts
-----------------------------------
Ghost state (specification only):
    mut        Bool        the IR has been mutated (set by the contracts of the IR-mutating callees of core.py / rewriter.py)
    ins/rem/mod/rep   sets of operations for which the rewriter's handle_operation_{insertion,removal,modification,replacement}
                      has been called (the listener log)
    CALLED     set of (handler, op) pairs: the registered callback `handler` has been invoked on `op`
    ERASED     set of operations erased through the rewriter
    VIS        set of operations the pattern has been applied to WITHOUT any action since the last action
    epoch      Int, the "version" of the IR: INREGION(x, epoch) = x is an operation of the rewritten region in that version

 (a) every mutating method of PatternRewriter and Builder.insert (real bodies):
         mut' => mut or has_done_action'      "the action flag is set whenever a match mutated the IR"
         log postconditions per method         "every insertion, removal, replacement, modification is reported"
         Rewriter.erase_op is called only with rem[op] already set   (removal is reported BEFORE the op is erased)
         any log growth => has_done_action'    (needed by (d): no action => the worklist was not touched)
 (b) listener dispatch (BuilderListener.handle_operation_insertion, PatternRewriterListener.handle_operation_*,
     extend_from_listener): every registered callback is invoked with the operation; forwarding keeps every callback.
 (c) the walker's own callbacks (_handle_operation_insertion/_removal/_modification/_replacement,
     _add_operands_to_worklist, _populate_worklist) against the Worklist contract of C12 (the very Spec objects that C12
     verifies are used as callee contracts here): removal takes the op AND every nested op off the worklist, the others push.
 (d) _process_worklist and rewrite_region with loop invariants; the opaque call `self.pattern.match_and_rewrite(op, rewriter)`
     is replaced by the contract PATTERN (below), which is the statement's hypothesis "changes are made through the rewriter"
     lifted over an arbitrary finite sequence of calls of the methods verified in (a)-(c).  Obligations obtained:
         call-pre   the op handed to the pattern is not erased                       ("never invoked on erased operations")
         post       (mut' and not mut) => result                                      ("reports a modification whenever the IR changed")
         post       apply_recursively => every op of the final region has been visited by the pattern with no action
                    on the final IR                                                  ("no pattern would change any operation any more")
     Termination of the outer loop is NOT proved (partial correctness).
 (e) GreedyRewritePatternApplier.match_and_rewrite: stops at the first sub-pattern that acts, erases dead ops through the rewriter.
"""

from __future__ import annotations

import os

import z3

from contracts import C11_native as N11
from contracts import C12 as K12
from contracts.common import A, AX, C, forall
from pyvc.engine import Res
from pyvc.spec import Builtin, Inline, Spec
from pyvc.values import TUP2, Clause, Unsupported, VBool, VGlobal, VInt, VOpaque, VRef, VSeq, VTuple, Vocab, lift_bool, z_int

PROP = "C11"
PR = "xdsl/pattern_rewriter.py"
BU = "xdsl/builder.py"
I = z3.IntSort()
B = z3.BoolSort()
SET = z3.ArraySort(I, B)

VOCAB = Vocab(
    {
        "has_done_action": "bool",
        "current_operation": "ref:Operation",
        "insertion_point": "ref:InsertPoint",
        "_name_hint": "ref:str",
        "_name": "ref:str",
        "operation_insertion_handler": "list:ref:callable",
        "operation_removal_handler": "list:ref:callable",
        "operation_modification_handler": "list:ref:callable",
        "operation_replacement_handler": "list:ref:callable",
        "block_creation_handler": "list:ref:callable",
        "_worklist": "ref:Worklist",
        "_stack": "list:ref",
        "_map": "dict:ref:int",
        "apply_recursively": "bool",
        "walk_reverse": "bool",
        "walk_regions_first": "bool",
        "pattern": "ref:RewritePattern",
        "listener": "ref:PatternRewriterListener",
        "post_walk_func": "ref:callable",
        "operation": "ref:Operation",
        "results": "seq:ref:OpResult",
        "_operands": "seq:ref:SSAValue",
        "regions": "seq:ref:Region",
        "op": "ref:Operation",
        "block": "ref:Block",
        "rewrite_patterns": "list:ref:RewritePattern",
        "ctx": "ref:Context",
        "folding_enabled": "bool",
        "dce_enabled": "bool",
        "predicate": "ref:callable",
        "modified_ops": "list:ref:Operation",
    },
    getters={},
)

# --- IR abstraction (uninterpreted: read-only facts about the IR at the time of the call) ---------------------------------
USES = z3.Function("uses_of", I, z3.ArraySort(I, I))  # value -> sequence of its Use objects (IRUses iteration order)
NUSES = z3.Function("n_uses_of", I, I)
ISOP = z3.Function("is_operation", I, B)  # isinstance(x, Operation)
ISRES = z3.Function("is_op_result", I, B)
ISARG = z3.Function("is_block_argument", I, B)
ISERASEDV = z3.Function("is_erased_ssa_value", I, B)
ONEUSE = z3.Function("has_one_use", I, B)
OWNER = z3.Function("owner_of", I, I)
PARENTOP = z3.Function("block_parent_op", I, I)
WALK = z3.Function("walk_of", I, z3.ArraySort(I, I))  # op -> pre-order sequence of op and all nested ops
NWALK = z3.Function("n_walk_of", I, I)
ITD = z3.Function("is_trivially_dead", I, B)
INREGION = z3.Function("in_region_at_epoch", I, I, B)  # op belongs to the rewritten region in IR version `epoch`
MISSING = K12.MISSING

GHOSTS = {"mut": B, "ins": SET, "rem": SET, "mod": SET, "rep": SET, "CALLED": SET, "ERASED": SET, "VIS": SET, "epoch": I}


def ghost_setup(st):
    for g, sort in GHOSTS.items():
        st.ghost[g] = z3.Const(g + "0", sort)


def G(st, g):
    return st.ghost[g]


def subset(a, b):
    x = z3.Int("ss!x")
    return forall([x], z3.Implies(a[x], b[x]), patterns=[a[x]])


def world():
    v, j, o = z3.Ints("w!v w!j w!o")
    return [
        AX("uses-are-objects", forall([v, j], z3.Implies(z3.And(j >= 0, j < NUSES(v)), USES(v)[j] != 0), patterns=[USES(v)[j]])),
        AX("use-counts-nonneg", forall([v], NUSES(v) >= 0, patterns=[NUSES(v)])),
        AX("walk-starts-at-the-op-itself", forall([o], z3.And(NWALK(o) >= 1, WALK(o)[0] == o), patterns=[NWALK(o)])),
        AX("walk-yields-objects", forall([o, j], z3.Implies(z3.And(j >= 0, j < NWALK(o)), WALK(o)[j] > 0), patterns=[WALK(o)[j]])),
        AX("sentinel-is-not-an-op", z3.And(MISSING > 0, z3.Not(ISOP(MISSING)))),
    ]


def flag(st, rw):
    return st.sel("has_done_action", rw)


def logs_monotone(old, st, names=("ins", "rem", "mod", "rep")):
    return z3.And(*[subset(G(old, n), G(st, n)) for n in names])


def logs_unchanged(old, st, names=("ins", "rem", "mod", "rep")):
    return z3.And(*[G(old, n) == G(st, n) for n in names])


def acted_iff(old, st, rw):
    """The core of clause 5 and of the 'no action => nothing happened' lemma used by the driver."""
    return [
        C("action-flag-set-whenever-the-IR-was-mutated", z3.Implies(G(st, "mut"), z3.Or(G(old, "mut"), flag(st, rw)))),
        C("listeners-are-only-notified-together-with-the-action-flag", z3.Or(flag(st, rw), logs_unchanged(old, st))),
        A("flag-never-reset", z3.Implies(flag(old, rw), flag(st, rw))),
        A("log-only-grows", logs_monotone(old, st)),
    ]


def ret(v, st):
    return [Res("val", v, st)]


# ------------------------------------------------------------------ trusted IR-mutating callees (C01 covers their IR effects)
class Mutator(Spec):
    """An IR-mutating primitive of core.py / rewriter.py: all that matters here is THAT it (possibly) mutates the IR."""

    prop = PROP
    trusted = True
    ghost_modifies = ["mut"]

    def __init__(self, file, qualname, when=None, pre=None, result=None, raises=None, note=""):
        self.file, self.qualname = file, qualname
        self._when, self._pre, self._result, self._raises = when, pre, result, raises
        self.notes = [note] if note else []

    def pre(self, st, a):
        return self._pre(st, a) if self._pre else []

    def ghost_update(self, old, st, a, result):
        w = self._when(old, a) if self._when else z3.BoolVal(True)
        return {"mut": z3.Or(G(old, "mut"), w)}

    def result_value(self, st, a):
        return self._result(st, a) if self._result else None

    def exc_cases(self, st, a):
        return self._raises(st, a) if self._raises else []

    def post_exc(self, old, st, a, exc):
        return []


CORE = "xdsl/ir/core.py"
RW = "xdsl/rewriter.py"


def _erase_pre(st, a):
    return [C("removal-is-reported-to-listeners-before-the-op-is-erased", G(st, "rem")[a["op"].z])]


M_ERASE_OP = Mutator(RW, "Rewriter.erase_op", pre=_erase_pre)
M_INSERT_OP = Mutator(RW, "Rewriter.insert_op")
M_RVNT = Mutator(RW, "Rewriter.replace_value_with_new_type", result=lambda st, a: VRef(st.fresh_int("newval"), "SSAValue"))
M_INLINE_BLOCK = Mutator(RW, "Rewriter.inline_block")
M_MOVE_REGION = Mutator(RW, "Rewriter.move_region_contents_to_new_regions", result=lambda st, a: VRef(st.fresh_int("newregion"), "Region"))
M_INLINE_REGION = Mutator(RW, "Rewriter.inline_region")
M_INSERT_ARG = Mutator(CORE, "Block.insert_arg", result=lambda st, a: VRef(st.fresh_int("newarg"), "BlockArgument"))
M_ERASE_ARG = Mutator(CORE, "Block.erase_arg")
M_VALUE_ERASE = Mutator(CORE, "SSAValue.erase",
                        raises=lambda st, a: [("ValueError", z3.And(z3.BoolVal(True) if a["safe_erase"] is True else (z3.BoolVal(False) if a["safe_erase"] is False else a["safe_erase"].z),
                                                                    NUSES(a["self"].z) > 0))])
M_RAUW = Mutator(CORE, "SSAValue.replace_all_uses_with", when=lambda old, a: NUSES(a["self"].z) > 0,
                 note="replace_all_uses_with mutates operand lists iff the value has uses (name-hint carry-over is not counted as an IR change)")


# ------------------------------------------------------------------ (b) listener dispatch
HANDLER_FIELD = {"insertion": "operation_insertion_handler", "removal": "operation_removal_handler",
                 "modification": "operation_modification_handler", "replacement": "operation_replacement_handler"}
LOG = {"insertion": "ins", "removal": "rem", "modification": "mod", "replacement": "rep"}


def b_callback(ex, st, args, kw):
    """`handler(op)` / `callback(op)` / `handler(op, new_results)`: an arbitrary registered callable; recorded in CALLED."""
    h = ex._cur_handler(st)
    st.ghost["CALLED"] = z3.Store(G(st, "CALLED"), TUP2(h, z_int(args[0])), True)
    return ret(None, st)


class Dispatch(Spec):
    """handle_operation_<kind>(op): every registered callback is invoked on op."""

    prop = PROP
    ghost_modifies = ["CALLED", "ins", "rem", "mod", "rep"]

    def __init__(self, kind):
        self.kind = kind
        self.file = BU if kind == "insertion" else PR
        self.qualname = ("BuilderListener" if kind == "insertion" else "PatternRewriterListener") + f".handle_operation_{kind}"
        var = "callback" if kind == "insertion" else "handler"
        self.var = var

        def cb(ex, st, args, kw):
            h = st.env[var].z
            st.ghost["CALLED"] = z3.Store(G(st, "CALLED"), TUP2(h, z_int(args[0])), True)
            return ret(None, st)

        self.calls = {var: Builtin(cb, "registered callback: arbitrary code, assumed not to edit the handler lists")}

    def setup(self, st, inst):
        ghost_setup(st)
        a = {"self": VRef(st.declare_input("self", z3.Int("self")), "PatternRewriterListener"),
             "op": VRef(st.declare_input("op", z3.Int("op")), "Operation")}
        if self.kind == "replacement":
            a["new_results"] = VSeq(z3.Array("new_results", I, I), z3.Int("n_new_results"), "ref", "SSAValue")
        return a

    def _list(self, st, a):
        return st.sel(HANDLER_FIELD[self.kind], a["self"].z)

    def pre(self, st, a):
        l = self._list(st, a)
        return [A("handler-list-object", z3.And(a["self"].z > 0, l > 0, st.list_len(l) >= 0))]

    def inv(self, n, entry, st, a, lv):
        j = z3.Int("d!j")
        l = self._list(entry, a)
        return [A("callbacks-so-far-invoked", forall([j], z3.Implies(z3.And(j >= 0, j < lv["k"]), G(st, "CALLED")[TUP2(entry.list_el(l, j), a["op"].z)]))),
                A("called-only-grows", subset(G(entry, "CALLED"), G(st, "CALLED")))]

    def post(self, old, st, a, res):
        j = z3.Int("d!j")
        l = self._list(old, a)
        return [C("every-registered-callback-is-invoked-with-the-operation",
                  forall([j], z3.Implies(z3.And(j >= 0, j < old.list_len(l)), G(st, "CALLED")[TUP2(old.list_el(l, j), a["op"].z)]))),
                A("called-only-grows", subset(G(old, "CALLED"), G(st, "CALLED")))]

    # callee view: the call is logged (ins/rem/mod/rep) and every registered callback has been invoked
    def ghost_update(self, old, st, a, result):
        if "CALLED" not in old.ghost:
            return {}
        g = LOG[self.kind]
        return {g: z3.Store(G(old, g), a["op"].z, True)}


D = {k: Dispatch(k) for k in HANDLER_FIELD}


class Extend(Spec):
    """extend_from_listener: forwarding keeps every callback of both listeners, in order."""

    prop = PROP
    modifies = ["list#len", "list#el"]

    def __init__(self, cls):
        self.cls = cls
        self.file = BU if cls == "BuilderListener" else PR
        self.qualname = f"{cls}.extend_from_listener"
        self.fields = ["operation_insertion_handler", "block_creation_handler"]
        if cls == "PatternRewriterListener":
            self.calls = {"super().extend_from_listener": Extend("BuilderListener")}
            self.fields = list(HANDLER_FIELD.values())[1:]

    @property
    def globals(self):
        def isinst(ex, st, v, cls):
            if isinstance(cls, VGlobal) and cls.text == "PatternRewriterListener":
                return self._is_prl
            return None

        return {"__isinstance__": isinst}

    def setup(self, st, inst):
        self._is_prl = inst.get("prl", True)
        return {"self": VRef(st.declare_input("self", z3.Int("self")), self.cls),
                "listener": VRef(st.declare_input("listener", z3.Int("listener")), self.cls)}

    def all_fields(self):
        return ["operation_insertion_handler", "block_creation_handler"] + (list(HANDLER_FIELD.values())[1:] if self.cls == "PatternRewriterListener" else [])

    def pre(self, st, a):
        s, l = a["self"].z, a["listener"].z
        objs = [st.sel(f, x) for f in self.all_fields() for x in (s, l)]
        return [A("listeners-are-objects", z3.And(s > 0, l > 0)),
                A("handler-lists-are-distinct-objects", z3.And(z3.Distinct(*objs), *[o > 0 for o in objs], *[st.list_len(o) >= 0 for o in objs]))]

    def _extended(self, old, st, a, fields):
        s, l = a["self"].z, a["listener"].z
        j = z3.Int("e!j")
        out = []
        for f in fields:
            mine, other = old.sel(f, s), old.sel(f, l)
            n0, n1 = old.list_len(mine), old.list_len(other)
            out.append(C(f"{f}: own callbacks kept, the listener's callbacks appended in order",
                         z3.And(st.sel(f, s) == mine, st.list_len(mine) == n0 + n1,
                                forall([j], z3.Implies(z3.And(j >= 0, j < n0), st.list_el(mine, j) == old.list_el(mine, j))),
                                forall([j], z3.Implies(z3.And(j >= 0, j < n1), st.list_el(mine, n0 + j) == old.list_el(other, j))))))
        return out

    def post(self, old, st, a, res):
        fields = self.all_fields() if self._is_prl or self.cls == "BuilderListener" else ["operation_insertion_handler", "block_creation_handler"]
        r = z3.Int("e!r")
        touched = [old.sel(f, a["self"].z) for f in fields]
        return self._extended(old, st, a, fields) + [
            A("other-lists-unchanged", forall([r], z3.Implies(z3.And(*[r != t for t in touched]),
                                                                z3.And(st.list_len(r) == old.list_len(r), st.list_arr(r) == old.list_arr(r)))))]


# ------------------------------------------------------------------ (a) rewriter methods
def _isinstance_hook(table):
    def isinst(ex, st, v, cls):
        name = cls.text if isinstance(cls, VGlobal) else None
        if name in table and isinstance(v, VRef):
            return lift_bool(table[name](v.z))
        return None

    return isinst


ISINST = _isinstance_hook({"Operation": ISOP, "OpResult": ISRES, "BlockArgument": ISARG, "ErasedSSAValue": ISERASEDV})


def uses_seq(v):
    return VSeq(USES(v), NUSES(v), "ref", "Use")


def _getattr_hook(ex, st, base, attr):
    if attr == "uses":
        return uses_seq(base.z)
    if attr == "owner":
        return VRef(OWNER(base.z), "Operation")
    if attr == "operands":
        return VSeq(st.seq_arr("_operands", base.z), st.seq_len("_operands", base.z), "ref", "SSAValue")
    if attr == "name_hint":
        return VRef(st.sel("_name", base.z), "str")
    return None


def _set_name_hint(ex, st, args, kw):
    # SSAValue.name_hint / Builder.name_hint setters: store a validated name (irrelevant to C11; modelled as a write of `_name`/_name_hint)
    base, val = args
    fld = "_name_hint" if base.cls in ("PatternRewriter", "Builder") else "_name"
    st.store(fld, base.z, st.fresh_int("validname") if val is not None else z3.IntVal(0))
    return ret(None, st)


_set_name_hint.modifies = ["_name", "_name_hint"]
SETTERS = {"name_hint": Builtin(_set_name_hint)}


def b_insert_point(ex, st, args, kw):
    return ret(VRef(st.fresh_int("ip"), "InsertPoint"), st)


def b_parent_op(ex, st, args, kw):
    return ret(VRef(PARENTOP(args[0].z), "Operation"), st)


class RewriterMethod(Spec):
    prop, file = PROP, PR
    ghost_modifies = ["mut", "ins", "rem", "mod", "rep"]
    modifies = ["has_done_action", "_name"]

    def __init__(self, method, **kw):
        self.method = method
        self.qualname = f"PatternRewriter.{method}"
        self.calls = {
            "self.handle_operation_removal": D["removal"], "self.handle_operation_modification": D["modification"],
            "self.handle_operation_replacement": D["replacement"], "self.handle_operation_insertion": D["insertion"],
            "Rewriter.erase_op": M_ERASE_OP, "Rewriter.replace_value_with_new_type": M_RVNT, "Rewriter.inline_block": M_INLINE_BLOCK,
            "Rewriter.move_region_contents_to_new_regions": M_MOVE_REGION, "Rewriter.inline_region": M_INLINE_REGION,
            "block.insert_arg": M_INSERT_ARG, "arg.block.erase_arg": M_ERASE_ARG, "from_value.erase": M_VALUE_ERASE,
            "from_value.replace_all_uses_with": M_RAUW, "InsertPoint.before": Builtin(b_insert_point), ".parent_op": Builtin(b_parent_op),
        }
        for k, v in kw.items():
            setattr(self, k, v)

    @property
    def globals(self):
        return {"__isinstance__": ISINST, "__getattr__": _getattr_hook, "__setters__": SETTERS, "Rewriter": VGlobal("Rewriter"),
                "InsertPoint": VGlobal("InsertPoint")}

    # ---- symbolic parameters
    def setup(self, st, inst):
        ghost_setup(st)
        rw = st.declare_input("self", z3.Int("self"))
        a = {"self": VRef(rw, "PatternRewriter")}
        m = self.method

        def ref(name, cls):
            a[name] = VRef(st.declare_input(name, z3.Int(name)), cls)

        def flagarg(name):
            a[name] = VBool(st.declare_input(name, z3.Bool(name)))

        if m in ("erase", "notify_op_modified"):
            ref("op", "Operation")
        if m == "erase":
            flagarg("safe_erase")
        if m == "replace_all_uses_with":
            ref("from_value", "SSAValue")
            ref("to_value", "SSAValue")
            flagarg("safe_erase")
        if m == "replace_value_with_new_type":
            ref("val", "SSAValue")
            ref("new_type", "Attribute")
        if m == "insert_block_argument":
            ref("block", "Block")
            a["index"] = VInt(z3.Int("index"))
            ref("arg_type", "Attribute")
        if m == "erase_block_argument":
            ref("arg", "BlockArgument")
            flagarg("safe_erase")
        if m == "inline_block":
            ref("block", "Block")
            ref("insertion_point", "InsertPoint")
            a["arg_values"] = VSeq(z3.Array("arg_values", I, I), z3.Int("n_arg_values"), "ref", "SSAValue")
        if m in ("move_region_contents_to_new_regions", "inline_region"):
            ref("region", "Region")
        if m == "inline_region":
            ref("insertion_point", "BlockInsertPoint")
        if m == "insert":
            self._single = inst["single"]
            if self._single:
                ref("op", "Operation")
            else:
                a["op"] = VSeq(z3.Array("ops", I, I), st.declare_input("n_ops", z3.Int("n_ops")), "ref", "Operation")
            ref("insertion_point", "InsertPoint")
        return a

    def pre(self, st, a):
        out = world() + [A("rewriter-object", a["self"].z > 0)]
        for k, v in a.items():
            if isinstance(v, VRef) and k in ("op", "from_value", "val", "block", "arg", "region"):
                out.append(A(f"{k}-not-none", v.z > 0))
            if isinstance(v, VSeq):
                out.append(A(f"{k}-length", v.n >= 0))
        if self.method == "insert" and not self._single:
            j = z3.Int("p!j")
            out.append(A("ops-are-operations", forall([j], z3.Implies(z3.And(j >= 0, j < a["op"].n), z3.And(a["op"].arr[j] > 0, ISOP(a["op"].arr[j]))))))
            out.append(A("a-sequence-is-not-an-operation", z3.BoolVal(True)))
        return out

    def inv(self, n, entry, st, a, lv):
        rw = a["self"].z
        if self.method == "replace_all_uses_with":
            j = z3.Int("i!j")
            mo = lv["iter"]
            return [A("modified-ops-so-far-reported", forall([j], z3.Implies(z3.And(j >= 0, j < lv["k"]), G(st, "mod")[mo.arr[j]]))),
                    A("logs-grow", logs_monotone(entry, st)), A("only-mod-log-changes", logs_unchanged(entry, st, ("ins", "rem", "rep"))),
                    A("flag-kept", flag(st, rw) == flag(entry, rw)), A("mut-kept", G(st, "mut") == G(entry, "mut"))]
        return None

    def post(self, old, st, a, res):
        rw = a["self"].z
        m = self.method
        out = list(acted_iff(old, st, rw))
        always = m not in ("replace_all_uses_with",)
        if always:
            out.append(C("action-flag-set", flag(st, rw)))
        if m == "erase":
            out.append(C("removal-reported", G(st, "rem")[a["op"].z]))
        if m == "notify_op_modified":
            out.append(C("modification-reported", G(st, "mod")[a["op"].z]))
        if m == "replace_all_uses_with":
            f, t = a["from_value"].z, a["to_value"].z
            j = z3.Int("r!j")
            out.append(C("every-user-of-the-replaced-value-is-reported-as-modified",
                         z3.Implies(f != t, forall([j], z3.Implies(z3.And(j >= 0, j < NUSES(f)), G(st, "mod")[old.sel("operation", USES(f)[j])])))))
            out.append(C("same-value: nothing happens", z3.Implies(f == t, z3.And(logs_unchanged(old, st), G(st, "mut") == G(old, "mut"), flag(st, rw) == flag(old, rw)))))
        if m == "replace_value_with_new_type":
            v = a["val"].z
            out.append(C("owner-of-a-retyped-result-is-reported-as-modified", z3.Implies(ISRES(v), G(st, "mod")[old.sel("op", v)])))
            out.append(C("op-holding-a-retyped-block-argument-is-reported-as-modified",
                         z3.Implies(z3.And(ISARG(v), PARENTOP(old.sel("block", v)) != 0), G(st, "mod")[PARENTOP(old.sel("block", v))])))
        if m == "insert":
            if self._single:
                out.append(C("insertion-reported", G(st, "ins")[a["op"].z]))
            else:
                j = z3.Int("r!j")
                out.append(C("insertion-reported", forall([j], z3.Implies(z3.And(j >= 0, j < a["op"].n), G(st, "ins")[a["op"].arr[j]]))))
        return out

    def post_exc(self, old, st, a, exc):
        if exc == "ValueError":
            rw = a["self"].z
            return [C("action-flag-set-whenever-the-IR-was-mutated", z3.Implies(G(st, "mut"), z3.Or(G(old, "mut"), flag(st, rw)))),
                    C("listeners-are-only-notified-together-with-the-action-flag", z3.Or(flag(st, rw), logs_unchanged(old, st)))]
        return None

    # ---- callee view -----------------------------------------------------------
    def ghost_update(self, old, st, a, result):
        return {}


def make_specs(tier):
    specs = []

    def add(s, insts=None):
        s.instances = insts or [{}]
        specs.append(s)

    for k in HANDLER_FIELD:
        add(D[k])
    add(Extend("BuilderListener"))
    add(Extend("PatternRewriterListener"), [{"prl": True}, {"prl": False}])
    for m in ("erase", "notify_op_modified", "replace_all_uses_with", "replace_value_with_new_type", "insert_block_argument",
              "erase_block_argument", "inline_block", "move_region_contents_to_new_regions", "inline_region"):
        add(RewriterMethod(m))
    add(RewriterMethod("insert"), [{"single": True}, {"single": False}])
    return specs


NATIVE = []
ASSUMPTIONS = []
SPECS = make_specs(os.environ.get("VERIF_TIER", "quick"))
