"""
C11 — The greedy rewrite driver reaches a fixpoint and observes every IR change.

Statement (quoted): "When the greedy pattern-rewrite walker returns with recursive application
enabled, no pattern would change any operation of the rewritten region any more, and the walker
reports a modification whenever the IR changed. Patterns are never invoked on operations that have
been erased or detached from the region, every insertion, removal, replacement and in-place
modification made through the rewriter is reported to registered listeners, and the rewriter's
action flag is set whenever a match mutated the IR."

How the statement becomes contracts
-----------------------------------
Ghost state (specification only):
    mut        Bool        the IR has been mutated (set by the contracts of the IR-mutating callees of core.py / rewriter.py)
    ins/rem/mod/rep   sets of operations for which the rewriter's handle_operation_{insertion,removal,modification,replacement}
                      has been called (the listener log)
    CALLED     set of (handler, op) pairs: the registered callback `handler` has been invoked on `op`
    ERASED     set of operations erased through the rewriter
    VIS        set of operations the pattern has been applied to WITHOUT any action since the last action
    epoch      Int, the "version" of the IR: INREGION(x, epoch) = x is an operation of the rewritten region in that version

 (a) every mutating method of PatternRewriter and Builder.insert (real bodies):
         mut' => mut or has_done_action'      "the action flag is set whenever a match mutated the IR"
         log postconditions per method         "every insertion, removal, replacement, modification is reported"
         Rewriter.erase_op is called only with rem[op] already set   (removal is reported BEFORE the op is erased)
         any log growth => has_done_action'    (needed by (d): no action => the worklist was not touched)
 (b) listener dispatch (BuilderListener.handle_operation_insertion, PatternRewriterListener.handle_operation_*,
     extend_from_listener): every registered callback is invoked with the operation; forwarding keeps every callback.
 (c) the walker's own callbacks (_handle_operation_insertion/_removal/_modification/_replacement,
     _add_operands_to_worklist, _populate_worklist) against the Worklist contract of C12 (the very Spec objects that C12
     verifies are used as callee contracts here): removal takes the op AND every nested op off the worklist, the others push.
 (d) _process_worklist and rewrite_region with loop invariants; the opaque call `self.pattern.match_and_rewrite(op, rewriter)`
     is replaced by the contract PATTERN (below), which is the statement's hypothesis "changes are made through the rewriter"
     lifted over an arbitrary finite sequence of calls of the methods verified in (a)-(c).  Obligations obtained:
         call-pre   the op handed to the pattern is not erased                       ("never invoked on erased operations")
         post       (mut' and not mut) => result                                      ("reports a modification whenever the IR changed")
         post       apply_recursively => every op of the final region has been visited by the pattern with no action
                    on the final IR                                                  ("no pattern would change any operation any more")
     Termination of the outer loop is NOT proved (partial correctness).
 (e) GreedyRewritePatternApplier.match_and_rewrite: stops at the first sub-pattern that acts, erases dead ops through the rewriter.
"""

from __future__ import annotations

import os

import z3

from contracts import C11_native as N11
from contracts import C12 as K12
from contracts.common import A, AX, C, forall
from pyvc.engine import Res
from pyvc.spec import Builtin, Inline, Spec
from pyvc.values import TUP2, Clause, Unsupported, VBool, VGlobal, VInt, VOpaque, VRef, VSeq, VTuple, Vocab, lift_bool, z_int

PROP = "C11"
PR = "xdsl/pattern_rewriter.py"
BU = "xdsl/builder.py"
I = z3.IntSort()
B = z3.BoolSort()
SET = z3.ArraySort(I, B)

VOCAB = Vocab(
    {
        "has_done_action": "bool",
        "current_operation": "ref:Operation",
        "insertion_point": "ref:InsertPoint",
        "_name_hint": "ref:str",
        "_name": "ref:str",
        "operation_insertion_handler": "list:ref:callable",
        "operation_removal_handler": "list:ref:callable",
        "operation_modification_handler": "list:ref:callable",
        "operation_replacement_handler": "list:ref:callable",
        "block_creation_handler": "list:ref:callable",
        "_worklist": "ref:Worklist",
        "_stack": "list:ref",
        "_map": "dict:ref:int",
        "apply_recursively": "bool",
        "walk_reverse": "bool",
        "walk_regions_first": "bool",
        "pattern": "ref:RewritePattern",
        "listener": "ref:PatternRewriterListener",
        "post_walk_func": "ref:callable",
        "operation": "ref:Operation",
        "results": "seq:ref:OpResult",
        "_operands": "seq:ref:SSAValue",
        "regions": "seq:ref:Region",
        "op": "ref:Operation",
        "block": "ref:Block",
        "rewrite_patterns": "list:ref:RewritePattern",
        "ctx": "ref:Context",
        "folding_enabled": "bool",
        "dce_enabled": "bool",
        "predicate": "ref:callable",
        "modified_ops": "list:ref:Operation",
    },
    getters={},
)

# --- IR abstraction (uninterpreted: read-only facts about the IR at the time of the call) ---------------------------------
USES = z3.Function("uses_of", I, z3.ArraySort(I, I))  # value -> sequence of its Use objects (IRUses iteration order)
NUSES = z3.Function("n_uses_of", I, I)
ISOP = z3.Function("is_operation", I, B)  # isinstance(x, Operation)
ISRES = z3.Function("is_op_result", I, B)
ISARG = z3.Function("is_block_argument", I, B)
ISERASEDV = z3.Function("is_erased_ssa_value", I, B)
ONEUSE = z3.Function("has_one_use", I, B)
OWNER = z3.Function("owner_of", I, I)
PARENTOP = z3.Function("block_parent_op", I, I)
WALK = z3.Function("walk_of", I, z3.ArraySort(I, I))  # op -> pre-order sequence of op and all nested ops
NWALK = z3.Function("n_walk_of", I, I)
ITD = z3.Function("is_trivially_dead", I, B)
INREGION = z3.Function("in_region_at_epoch", I, I, B)  # op belongs to the rewritten region in IR version `epoch`
MISSING = K12.MISSING

GHOSTS = {"mut": B, "ins": SET, "rem": SET, "mod": SET, "rep": SET, "CALLED": SET, "ERASED": SET, "VIS": SET, "epoch": I}


def ghost_setup(st):
    for g, sort in GHOSTS.items():
        st.ghost[g] = z3.Const(g + "0", sort)


def G(st, g):
    return st.ghost[g]


def subset(a, b):
    x = z3.Int("ss!x")
    return forall([x], z3.Implies(a[x], b[x]), patterns=[a[x], b[x]])


def world():
    v, j, o = z3.Ints("w!v w!j w!o")
    return [
        AX("uses-are-objects", forall([v, j], z3.Implies(z3.And(j >= 0, j < NUSES(v)), USES(v)[j] > 0), patterns=[USES(v)[j]])),
        AX("use-counts-nonneg", forall([v], NUSES(v) >= 0, patterns=[NUSES(v)])),
        AX("walk-starts-at-the-op-itself", forall([o], z3.Implies(ISOP(o), z3.And(NWALK(o) >= 1, WALK(o)[0] == o)), patterns=[NWALK(o)])),
        AX("walk-yields-objects", forall([o, j], z3.Implies(z3.And(j >= 0, j < NWALK(o)), WALK(o)[j] > 0), patterns=[WALK(o)[j]])),
        AX("sentinel-is-not-an-op", z3.And(MISSING > 0, z3.Not(ISOP(MISSING)))),
    ]


def results_ok(st):
    o, j = z3.Ints("ro!o ro!j")
    return [AX("results-are-objects", forall([o, j], z3.Implies(z3.And(j >= 0, j < st.seq_len("results", o)), st.seq_el("results", o, j) > 0))),
            AX("result-counts-nonneg", forall([o], st.seq_len("results", o) >= 0))]


def flag(st, rw):
    return st.sel("has_done_action", rw)


def logs_monotone(old, st, names=("ins", "rem", "mod", "rep")):
    return z3.And(*[subset(G(old, n), G(st, n)) for n in names])


def logs_unchanged(old, st, names=("ins", "rem", "mod", "rep")):
    return z3.And(*[G(old, n) == G(st, n) for n in names])


def acted_iff(old, st, rw):
    """The core of clause 5 and of the 'no action => nothing happened' lemma used by the driver."""
    return [
        C("action-flag-set-whenever-the-IR-was-mutated", z3.Implies(G(st, "mut"), z3.Or(G(old, "mut"), flag(st, rw)))),
        C("listeners-are-only-notified-together-with-the-action-flag", z3.Or(flag(st, rw), logs_unchanged(old, st))),
        A("flag-never-reset", z3.Implies(flag(old, rw), flag(st, rw))),
        A("log-only-grows", logs_monotone(old, st)),
    ]


def ret(v, st):
    return [Res("val", v, st)]


def all_in(ops, log):
    """Every operation of `ops` (a single op, a tuple display or a symbolic sequence) is in the set `log`."""
    if isinstance(ops, VRef):
        return log[ops.z]
    if isinstance(ops, VTuple):
        return z3.And(*[log[z_int(o)] for o in ops.items]) if ops.items else z3.BoolVal(True)
    j = z3.Int("ai!j")
    return forall([j], z3.Implies(z3.And(j >= 0, j < ops.n), log[ops.arr[j]]))


def count_of(ops):
    if isinstance(ops, VRef):
        return z3.IntVal(1)
    if isinstance(ops, VTuple):
        return z3.IntVal(len(ops.items))
    return ops.n


# ------------------------------------------------------------------ trusted IR-mutating callees (C01 covers their IR effects)
class Mutator(Spec):
    """An IR-mutating primitive of core.py / rewriter.py: all that matters here is THAT it (possibly) mutates the IR."""

    prop = PROP
    trusted = True
    ghost_modifies = ["mut"]

    def __init__(self, file, qualname, when=None, pre=None, result=None, raises=None, note=""):
        self.file, self.qualname = file, qualname
        self._when, self._pre, self._result, self._raises = when, pre, result, raises
        self.notes = [note] if note else []

    def pre(self, st, a):
        return self._pre(st, a) if self._pre else []

    def ghost_update(self, old, st, a, result):
        w = self._when(old, a) if self._when else z3.BoolVal(True)
        return {"mut": z3.Or(G(old, "mut"), w)}

    def result_value(self, st, a):
        return self._result(st, a) if self._result else None

    def exc_cases(self, st, a):
        return self._raises(st, a) if self._raises else []

    def post_exc(self, old, st, a, exc):
        return []


CORE = "xdsl/ir/core.py"
RW = "xdsl/rewriter.py"


def _erase_pre(st, a):
    return [C("removal-is-reported-to-listeners-before-the-op-is-erased", G(st, "rem")[a["op"].z])]


M_ERASE_OP = Mutator(RW, "Rewriter.erase_op", pre=_erase_pre)
M_INSERT_OP = Mutator(RW, "Rewriter.insert_op")
M_RVNT = Mutator(RW, "Rewriter.replace_value_with_new_type", result=lambda st, a: VRef(st.fresh_int("newval"), "SSAValue"))
M_INLINE_BLOCK = Mutator(RW, "Rewriter.inline_block")
M_MOVE_REGION = Mutator(RW, "Rewriter.move_region_contents_to_new_regions", result=lambda st, a: VRef(st.fresh_int("newregion"), "Region"))
M_INLINE_REGION = Mutator(RW, "Rewriter.inline_region")
M_INSERT_ARG = Mutator(CORE, "Block.insert_arg", result=lambda st, a: VRef(st.fresh_int("newarg"), "BlockArgument"))
M_ERASE_ARG = Mutator(CORE, "Block.erase_arg")
M_VALUE_ERASE = Mutator(CORE, "SSAValue.erase",
                        raises=lambda st, a: [("ValueError", z3.And(z3.BoolVal(True) if a["safe_erase"] is True else (z3.BoolVal(False) if a["safe_erase"] is False else a["safe_erase"].z),
                                                                    NUSES(a["self"].z) > 0))])
M_RAUW = Mutator(CORE, "SSAValue.replace_all_uses_with", when=lambda old, a: NUSES(a["self"].z) > 0,
                 note="replace_all_uses_with mutates operand lists iff the value has uses (name-hint carry-over is not counted as an IR change)")


# ------------------------------------------------------------------ (b) listener dispatch
LOG = {"insertion": "ins", "removal": "rem", "modification": "mod", "replacement": "rep"}
HANDLER_FIELD = {"insertion": "operation_insertion_handler", "removal": "operation_removal_handler",
                 "modification": "operation_modification_handler", "replacement": "operation_replacement_handler"}
LOG = {"insertion": "ins", "removal": "rem", "modification": "mod", "replacement": "rep"}


def b_callback(ex, st, args, kw):
    """`handler(op)` / `callback(op)` / `handler(op, new_results)`: an arbitrary registered callable; recorded in CALLED."""
    h = ex._cur_handler(st)
    st.ghost["CALLED"] = z3.Store(G(st, "CALLED"), TUP2(h, z_int(args[0])), True)
    return ret(None, st)


class Dispatch(Spec):
    """handle_operation_<kind>(op): every registered callback is invoked on op."""

    prop = PROP

    def __init__(self, kind):
        self.kind = kind
        self.ghost_modifies = ["CALLED", LOG[kind]]
        self.file = BU if kind == "insertion" else PR
        self.qualname = ("BuilderListener" if kind == "insertion" else "PatternRewriterListener") + f".handle_operation_{kind}"
        var = "callback" if kind == "insertion" else "handler"
        self.var = var

        def cb(ex, st, args, kw):
            h = st.env[var].z
            st.ghost["CALLED"] = z3.Store(G(st, "CALLED"), TUP2(h, z_int(args[0])), True)
            return ret(None, st)

        cb.ghost_modifies = ["CALLED"]
        self.calls = {var: Builtin(cb, "registered callback: arbitrary code, assumed not to edit the handler lists")}

    def setup(self, st, inst):
        ghost_setup(st)
        a = {"self": VRef(st.declare_input("self", z3.Int("self")), "PatternRewriterListener"),
             "op": VRef(st.declare_input("op", z3.Int("op")), "Operation")}
        if self.kind == "replacement":
            a["new_results"] = VSeq(z3.Array("new_results", I, I), z3.Int("n_new_results"), "ref", "SSAValue")
        return a

    def _list(self, st, a):
        return st.sel(HANDLER_FIELD[self.kind], a["self"].z)

    def pre(self, st, a):
        l = self._list(st, a)
        return [A("handler-list-object", z3.And(a["self"].z > 0, l > 0, st.list_len(l) >= 0))]

    def inv(self, n, entry, st, a, lv):
        j = z3.Int("d!j")
        l = self._list(entry, a)
        return [A("callbacks-so-far-invoked", forall([j], z3.Implies(z3.And(j >= 0, j < lv["k"]), G(st, "CALLED")[TUP2(entry.list_el(l, j), a["op"].z)]))),
                A("called-only-grows", subset(G(entry, "CALLED"), G(st, "CALLED")))]

    def post(self, old, st, a, res):
        j = z3.Int("d!j")
        l = self._list(old, a)
        return [C("every-registered-callback-is-invoked-with-the-operation",
                  forall([j], z3.Implies(z3.And(j >= 0, j < old.list_len(l)), G(st, "CALLED")[TUP2(old.list_el(l, j), a["op"].z)]))),
                A("called-only-grows", subset(G(old, "CALLED"), G(st, "CALLED")))]

    # callee view: the call is logged (ins/rem/mod/rep) and every registered callback has been invoked
    def ghost_update(self, old, st, a, result):
        if "CALLED" not in old.ghost:
            return {}
        g = LOG[self.kind]
        return {g: z3.Store(G(old, g), a["op"].z, True)}


D = {k: Dispatch(k) for k in HANDLER_FIELD}


class Extend(Spec):
    """extend_from_listener: forwarding keeps every callback of both listeners, in order."""

    prop = PROP
    modifies = ["list#len", "list#el"]
    _is_prl = True

    def __init__(self, cls):
        self.cls = cls
        self.file = BU if cls == "BuilderListener" else PR
        self.qualname = f"{cls}.extend_from_listener"
        self.fields = ["operation_insertion_handler", "block_creation_handler"]
        if cls == "PatternRewriterListener":
            self.calls = {"super().extend_from_listener": Extend("BuilderListener")}
            self.fields = list(HANDLER_FIELD.values())[1:]

    @property
    def globals(self):
        def isinst(ex, st, v, cls):
            if isinstance(cls, VGlobal) and cls.text == "PatternRewriterListener":
                return self._is_prl
            return None

        return {"__isinstance__": isinst}

    def setup(self, st, inst):
        self._is_prl = inst.get("prl", True)
        return {"self": VRef(st.declare_input("self", z3.Int("self")), self.cls),
                "listener": VRef(st.declare_input("listener", z3.Int("listener")), self.cls)}

    def all_fields(self):
        return ["operation_insertion_handler", "block_creation_handler"] + (list(HANDLER_FIELD.values())[1:] if self.cls == "PatternRewriterListener" else [])

    def pre(self, st, a):
        s, l = a["self"].z, a["listener"].z
        objs = [st.sel(f, x) for f in self.all_fields() for x in (s, l)]
        return [A("listeners-are-objects", z3.And(s > 0, l > 0)),
                A("handler-lists-are-distinct-objects", z3.And(z3.Distinct(*objs), *[o > 0 for o in objs], *[st.list_len(o) >= 0 for o in objs]))]

    def _extended(self, old, st, a, fields):
        s, l = a["self"].z, a["listener"].z
        j = z3.Int("e!j")
        out = []
        for f in fields:
            mine, other = old.sel(f, s), old.sel(f, l)
            n0, n1 = old.list_len(mine), old.list_len(other)
            out.append(C(f"{f}: own callbacks kept, the listener's callbacks appended in order",
                         z3.And(st.sel(f, s) == mine, st.list_len(mine) == n0 + n1,
                                forall([j], z3.Implies(z3.And(j >= 0, j < n0), st.list_el(mine, j) == old.list_el(mine, j))),
                                forall([j], z3.Implies(z3.And(j >= 0, j < n1), st.list_el(mine, n0 + j) == old.list_el(other, j))))))
        return out

    def post(self, old, st, a, res):
        fields = self.all_fields() if self._is_prl or self.cls == "BuilderListener" else ["operation_insertion_handler", "block_creation_handler"]
        r = z3.Int("e!r")
        touched = [old.sel(f, a["self"].z) for f in fields]
        return self._extended(old, st, a, fields) + [
            A("other-lists-unchanged", forall([r], z3.Implies(z3.And(*[r != t for t in touched]),
                                                                z3.And(st.list_len(r) == old.list_len(r), st.list_arr(r) == old.list_arr(r)))))]


# ------------------------------------------------------------------ (a) rewriter methods
def _isinstance_hook(table):
    def isinst(ex, st, v, cls):
        name = cls.text if isinstance(cls, VGlobal) else None
        if name in table and isinstance(v, VRef):
            return lift_bool(table[name](v.z))
        if name == "Operation" and isinstance(v, (VSeq, VTuple)):
            return False  # a sequence of operations is not an Operation
        return None

    return isinst


ISINST = _isinstance_hook({"Operation": ISOP, "OpResult": ISRES, "BlockArgument": ISARG, "ErasedSSAValue": ISERASEDV})


def uses_seq(v):
    return VSeq(USES(v), NUSES(v), "ref", "Use")


def _getattr_hook(ex, st, base, attr):
    if attr == "uses":
        return uses_seq(base.z)
    if attr == "owner":
        return VRef(OWNER(base.z), "Operation")
    if attr == "operands":
        return VSeq(st.seq_arr("_operands", base.z), st.seq_len("_operands", base.z), "ref", "SSAValue")
    if attr == "name_hint":
        return VRef(st.sel("_name", base.z), "str")
    return None


def _set_name_hint(ex, st, args, kw):
    # SSAValue.name_hint / Builder.name_hint setters: store a validated name (irrelevant to C11; modelled as a write of `_name`/_name_hint)
    base, val = args
    fld = "_name_hint" if base.cls in ("PatternRewriter", "Builder") else "_name"
    st.store(fld, base.z, st.fresh_int("validname") if val is not None else z3.IntVal(0))
    return ret(None, st)


_set_name_hint.modifies = ["_name", "_name_hint"]
SETTERS = {"name_hint": Builtin(_set_name_hint)}


def b_insert_point(ex, st, args, kw):
    return ret(VRef(st.fresh_int("ip"), "InsertPoint"), st)


def b_parent_op(ex, st, args, kw):
    return ret(VRef(PARENTOP(args[0].z), "Operation"), st)


class _Lazy:
    pass


class RewriterMethod(Spec):
    prop, file = PROP, PR
    ghost_modifies = ["mut", "ins", "rem", "mod", "rep"]
    modifies = ["has_done_action", "_name"]

    def __init__(self, method, **kw):
        self.method = method
        self.qualname = f"PatternRewriter.{method}"
        self.calls = {
            "self.handle_operation_removal": D["removal"], "self.handle_operation_modification": D["modification"],
            "self.handle_operation_replacement": D["replacement"], "self.handle_operation_insertion": D["insertion"],
            "Rewriter.erase_op": M_ERASE_OP, "Rewriter.replace_value_with_new_type": M_RVNT, "Rewriter.inline_block": M_INLINE_BLOCK,
            "Rewriter.move_region_contents_to_new_regions": M_MOVE_REGION, "Rewriter.inline_region": M_INLINE_REGION,
            "block.insert_arg": M_INSERT_ARG, "arg.block.erase_arg": M_ERASE_ARG, "from_value.erase": M_VALUE_ERASE,
            "from_value.replace_all_uses_with": M_RAUW, "InsertPoint.before": Builtin(b_insert_point), ".parent_op": Builtin(b_parent_op),
        }
        if method == "insert":
            self.calls["super().insert"] = BUILDER_INSERT
        if method != "notify_op_modified":
            # a mutating method may report through the rewriter's own notify_op_modified: its (two-line) body is executed, so "the flag is set and the
            # listener is told" is decided on the code, whichever of the two spellings the method uses
            self.inline = dict(getattr(self, "inline", {}) or {}, **{"self.notify_op_modified": Inline(PR, "PatternRewriter.notify_op_modified")})
        if method in ("erase_block_argument", "replace"):
            self.calls["self.replace_all_uses_with"] = RewriterMethod("replace_all_uses_with")
        if method == "replace":
            self.calls["self.insert"] = RewriterMethod("insert")
            self.calls["self.erase"] = RewriterMethod("erase")
        for k, v in kw.items():
            setattr(self, k, v)

    @property
    def globals(self):
        return {"__isinstance__": ISINST, "__getattr__": _getattr_hook, "__setters__": SETTERS, "Rewriter": VGlobal("Rewriter"),
                "InsertPoint": VGlobal("InsertPoint")}

    # ---- symbolic parameters
    def setup(self, st, inst):
        ghost_setup(st)
        rw = st.declare_input("self", z3.Int("self"))
        a = {"self": VRef(rw, "PatternRewriter")}
        m = self.method

        def ref(name, cls):
            a[name] = VRef(st.declare_input(name, z3.Int(name)), cls)

        def flagarg(name):
            a[name] = VBool(st.declare_input(name, z3.Bool(name)))

        if m in ("erase", "notify_op_modified"):
            ref("op", "Operation")
        if m == "erase":
            flagarg("safe_erase")
        if m == "replace_all_uses_with":
            ref("from_value", "SSAValue")
            ref("to_value", "SSAValue")
            flagarg("safe_erase")
        if m == "replace_value_with_new_type":
            ref("val", "SSAValue")
            ref("new_type", "Attribute")
        if m == "insert_block_argument":
            ref("block", "Block")
            a["index"] = VInt(z3.Int("index"))
            ref("arg_type", "Attribute")
        if m == "erase_block_argument":
            ref("arg", "BlockArgument")
            flagarg("safe_erase")
        if m == "inline_block":
            ref("block", "Block")
            ref("insertion_point", "InsertPoint")
            a["arg_values"] = VSeq(z3.Array("arg_values", I, I), z3.Int("n_arg_values"), "ref", "SSAValue")
        if m in ("move_region_contents_to_new_regions", "inline_region"):
            ref("region", "Region")
        if m == "inline_region":
            ref("insertion_point", "BlockInsertPoint")
        if m == "insert":
            self._single = inst["single"]
            if self._single:
                ref("op", "Operation")
            else:
                a["op"] = VSeq(z3.Array("ops", I, I), st.declare_input("n_ops", z3.Int("n_ops")), "ref", "Operation")
            ref("insertion_point", "InsertPoint")
        return a

    def pre(self, st, a):
        rw = a["self"].z
        lists = [st.sel(f, rw) for f in HANDLER_FIELD.values()]
        out = world() + [A("rewriter-object", rw > 0),
                         A("handler-lists-are-objects", z3.And(*[z3.And(l > 0, st.list_len(l) >= 0) for l in lists]))]
        for k, v in a.items():
            if isinstance(v, VRef) and k in ("op", "from_value", "val", "block", "arg", "region"):
                out.append(A(f"{k}-not-none", v.z > 0))
            if isinstance(v, VSeq):
                out.append(A(f"{k}-length", v.n >= 0))
        if self.method == "insert" and isinstance(a["op"], VSeq):
            j = z3.Int("p!j")
            out.append(A("ops-are-operations", forall([j], z3.Implies(z3.And(j >= 0, j < a["op"].n), a["op"].arr[j] > 0))))
        if self.method == "insert" and isinstance(a["op"], VRef):
            out.append(A("op-is-an-operation", ISOP(a["op"].z)))
        return out

    def inv(self, n, entry, st, a, lv):
        rw = a["self"].z
        if self.method == "replace_all_uses_with":
            j = z3.Int("i!j")
            mo = lv["iter"]
            return [A("modified-ops-so-far-reported", forall([j], z3.Implies(z3.And(j >= 0, j < lv["k"]), G(st, "mod")[mo.arr[j]]))),
                    A("logs-grow", logs_monotone(entry, st)), A("only-mod-log-changes", logs_unchanged(entry, st, ("ins", "rem", "rep"))),
                    A("nothing-reported-before-the-first-iteration", z3.Or(lv["k"] > 0, G(st, "mod") == G(entry, "mod"))),
                    A("flag-kept", flag(st, rw) == flag(entry, rw)), A("mut-kept", G(st, "mut") == G(entry, "mut"))]
        return None

    def post(self, old, st, a, res):
        rw = a["self"].z
        m = self.method
        out = list(acted_iff(old, st, rw))
        always = m not in ("replace_all_uses_with",)
        if always:
            out.append(C("action-flag-set", flag(st, rw)))
        if m == "erase":
            out.append(C("removal-reported", G(st, "rem")[a["op"].z]))
        if m == "notify_op_modified":
            out.append(C("modification-reported", G(st, "mod")[a["op"].z]))
        if m == "replace_all_uses_with":
            f, t = a["from_value"].z, z_int(a["to_value"])
            j = z3.Int("r!j")
            out.append(C("every-user-of-the-replaced-value-is-reported-as-modified",
                         z3.Implies(f != t, forall([j], z3.Implies(z3.And(j >= 0, j < NUSES(f)), G(st, "mod")[old.sel("operation", USES(f)[j])])))))
            out.append(C("same-value: nothing happens", z3.Implies(f == t, z3.And(logs_unchanged(old, st), G(st, "mut") == G(old, "mut"), flag(st, rw) == flag(old, rw)))))
        if m == "replace_value_with_new_type":
            v = a["val"].z
            out.append(C("owner-of-a-retyped-result-is-reported-as-modified", z3.Implies(ISRES(v), G(st, "mod")[old.sel("op", v)])))
            out.append(C("op-holding-a-retyped-block-argument-is-reported-as-modified",
                         z3.Implies(z3.And(ISARG(v), PARENTOP(old.sel("block", v)) != 0), G(st, "mod")[PARENTOP(old.sel("block", v))])))
        if m == "insert":
            out.append(C("insertion-reported", all_in(a["op"], G(st, "ins"))))
        return out

    def post_exc(self, old, st, a, exc):
        if exc == "ValueError":
            rw = a["self"].z
            return [C("action-flag-set-whenever-the-IR-was-mutated", z3.Implies(G(st, "mut"), z3.Or(G(old, "mut"), flag(st, rw)))),
                    C("listeners-are-only-notified-together-with-the-action-flag", z3.Or(flag(st, rw), logs_unchanged(old, st)))]
        return None

    # ---- callee view: ghosts havocked (ghost_modifies), constrained by post -----------------------------------------------
    def result_value(self, st, a):
        if self.method == "insert":
            return a["op"]
        if self.method == "replace_value_with_new_type":
            return VRef(st.fresh_int("newval"), "SSAValue")
        if self.method == "insert_block_argument":
            return VRef(st.fresh_int("newarg"), "BlockArgument")
        if self.method == "move_region_contents_to_new_regions":
            return VRef(st.fresh_int("newregion"), "Region")
        return None

    def exc_cases(self, st, a):
        if self.method == "replace_all_uses_with":
            se = a["safe_erase"]
            sez = z3.BoolVal(se) if isinstance(se, bool) else se.z
            return [("ValueError", z3.And(a["from_value"].z != z_int(a["to_value"]), z_int(a["to_value"]) == 0, sez, NUSES(a["from_value"].z) > 0))]
        if self.method == "insert":
            return [("ValueError", z3.And(count_of(a["op"]) > 0, st.fresh_bool("implicit-builder-active")))]
        return []



def G0(name):
    """Ghost value at function entry (ghost_setup names them <name>0)."""
    return z3.Const(name + "0", GHOSTS[name])


class ReplaceSpec(RewriterMethod):
    """PatternRewriter.replace(op, new_ops, new_results, safe_erase)."""

    def __init__(self):
        RewriterMethod.__init__(self, "replace")

    def setup(self, st, inst):
        ghost_setup(st)
        self._single, self._given = inst["single"], inst["given"]
        a = {"self": VRef(st.declare_input("self", z3.Int("self")), "PatternRewriter"),
             "op": VRef(st.declare_input("op", z3.Int("op")), "Operation"),
             "safe_erase": VBool(st.declare_input("safe_erase", z3.Bool("safe_erase")))}
        if self._single:
            a["new_ops"] = VRef(st.declare_input("new_op", z3.Int("new_op")), "Operation")
        else:
            a["new_ops"] = VSeq(z3.Array("new_ops", I, I), st.declare_input("n_new_ops", z3.Int("n_new_ops")), "ref", "Operation")
        a["new_results"] = VSeq(z3.Array("new_results", I, I), st.declare_input("n_new_results", z3.Int("n_new_results")), "ref", "SSAValue") if self._given else None
        return a

    def pre(self, st, a):
        out = RewriterMethod.pre(self, st, a) + results_ok(st)
        j = z3.Int("p!j")
        if isinstance(a["new_ops"], VRef):
            out.append(A("new-op-is-an-operation", z3.And(a["new_ops"].z > 0, ISOP(a["new_ops"].z))))
        elif isinstance(a["new_ops"], VSeq):
            out.append(A("new-ops-are-operations", forall([j], z3.Implies(z3.And(j >= 0, j < a["new_ops"].n), a["new_ops"].arr[j] > 0))))
        return out

    def exc_cases(self, st, a):
        return [("ValueError", st.fresh_bool("replace-raises"))]

    def _carried(self, st, a):
        rw, op = a["self"].z, a["op"].z
        return [A("action-flag-set", flag(st, rw)), A("insertions-reported", all_in(a["new_ops"], G(st, "ins"))),
                A("log-only-grows", z3.And(*[subset(G0(n), G(st, n)) for n in ("ins", "rem", "mod", "rep")]))]

    def inv(self, n, entry, st, a, lv):
        out = self._carried(st, a)
        # the replacement has been reported before the uses are rewritten (loop 0) and stays reported
        out.append(A("replacement-reported", G(st, "rep")[a["op"].z]))
        return out

    def post(self, old, st, a, res):
        rw, op = a["self"].z, a["op"].z
        return list(acted_iff(old, st, rw)) + [
            C("action-flag-set", flag(st, rw)),
            C("replacement-reported", G(st, "rep")[op]),
            C("removal-reported", G(st, "rem")[op]),
            C("insertion-of-every-new-op-reported", all_in(a["new_ops"], G(st, "ins")))]


def b_tracking_new(ex, st, args, kw):
    """_TrackingPredicate(predicate): fresh object, modified_ops = [] (its __init__ is two assignments)."""
    r = st.new_object("tracking")
    l = st.new_object("list")
    st.list_store(l, z3.K(I, z3.IntVal(0)), z3.IntVal(0))
    st.store("modified_ops", r, l)
    st.store("predicate", r, z_int(args[0]))
    return ret(VRef(r, "_TrackingPredicate"), st)


PRED = z3.Function("predicate_holds", I, I, B)  # the user predicate (a pure test, by the method's documentation): PRED(predicate, use)


class ValueRUWI(Spec):
    """SSAValue.replace_uses_with_if(value, tracking) as seen by the rewriter (TRUSTED; its loop calls tracking(use) for every use)."""

    prop, file, qualname = PROP, CORE, "SSAValue.replace_uses_with_if"
    trusted = True
    ghost_modifies = ["mut"]
    modifies = ["list#len", "list#el", "_name"]

    def _some(self, old, a):
        j = z3.Int("vr!j")
        f, p = a["self"].z, old.sel("predicate", a["predicate"].z)
        return z3.Exists([j], z3.And(j >= 0, j < NUSES(f), PRED(p, USES(f)[j])))

    def ghost_update(self, old, st, a, result):
        return {"mut": z3.Or(G(old, "mut"), self._some(old, a))}

    def post(self, old, st, a, res):
        t = a["predicate"].z
        f, p = a["self"].z, old.sel("predicate", t)
        l = old.sel("modified_ops", t)
        j, i, r = z3.Ints("vr!j vr!i vr!r")
        return [A("tracked: the op of every use that passed the predicate is recorded",
                  forall([j], z3.Implies(z3.And(j >= 0, j < NUSES(f), PRED(p, USES(f)[j])),
                                         z3.Exists([i], z3.And(i >= 0, i < st.list_len(l), st.list_el(l, i) == old.sel("operation", USES(f)[j])))))),
                A("recorded-nonempty-iff-some-use-passed", (st.list_len(l) > old.list_len(l)) == self._some(old, a)),
                A("length", st.list_len(l) >= old.list_len(l)),
                A("recorded ops are objects", forall([i], z3.Implies(z3.And(i >= 0, i < st.list_len(l)), st.list_el(l, i) > 0))),
                A("other-lists-unchanged", forall([r], z3.Implies(r != l, z3.And(st.list_len(r) == old.list_len(r), st.list_arr(r) == old.list_arr(r)))))]


class RUWISpec(RewriterMethod):
    """PatternRewriter.replace_uses_with_if(from_value, to_value, predicate)."""

    def __init__(self):
        RewriterMethod.__init__(self, "replace_uses_with_if")
        self.calls["_TrackingPredicate"] = Builtin(b_tracking_new, b_tracking_new.__doc__)
        self.calls["from_value.replace_uses_with_if"] = ValueRUWI()
        self.modifies = ["has_done_action", "_name", "list#len", "list#el"]

    def setup(self, st, inst):
        ghost_setup(st)
        return {"self": VRef(st.declare_input("self", z3.Int("self")), "PatternRewriter"),
                "from_value": VRef(st.declare_input("from_value", z3.Int("from_value")), "SSAValue"),
                "to_value": VRef(st.declare_input("to_value", z3.Int("to_value")), "SSAValue"),
                "predicate": VRef(st.declare_input("predicate", z3.Int("predicate")), "callable")}

    def inv(self, n, entry, st, a, lv):
        j = z3.Int("i!j")
        mo = lv["iter"]
        arr, rw = entry.list_arr(mo.z), a["self"].z
        return [A("modified-ops-so-far-reported", forall([j], z3.Implies(z3.And(j >= 0, j < lv["k"]), G(st, "mod")[arr[j]]))),
                A("logs-grow", logs_monotone(entry, st)), A("only-mod-log-changes", logs_unchanged(entry, st, ("ins", "rem", "rep"))),
                A("nothing-reported-before-the-first-iteration", z3.Or(lv["k"] > 0, G(st, "mod") == G(entry, "mod"))),
                A("flag-kept", flag(st, rw) == flag(entry, rw)), A("mut-kept", G(st, "mut") == G(entry, "mut")),
                A("list-unchanged", z3.And(st.list_len(mo.z) == entry.list_len(mo.z), st.list_arr(mo.z) == arr))]

    def post(self, old, st, a, res):
        rw, f, t, p = a["self"].z, a["from_value"].z, a["to_value"].z, a["predicate"].z
        j = z3.Int("r!j")
        return list(acted_iff(old, st, rw)) + [
            C("every-user-whose-use-was-replaced-is-reported-as-modified",
              z3.Implies(f != t, forall([j], z3.Implies(z3.And(j >= 0, j < NUSES(f), PRED(p, USES(f)[j])), G(st, "mod")[old.sel("operation", USES(f)[j])])))),
            C("same-value: nothing happens", z3.Implies(f == t, z3.And(logs_unchanged(old, st), G(st, "mut") == G(old, "mut"), flag(st, rw) == flag(old, rw))))]


class TrackingCall(Spec):
    """_TrackingPredicate.__call__(use): forwards to the predicate and records the op of every use it accepts."""

    prop, file, qualname = PROP, PR, "_TrackingPredicate.__call__"
    modifies = ["list#len", "list#el"]

    def __init__(self):
        def pred(ex, st, args, kw):
            return ret(VBool(PRED(st.sel("predicate", st.env["self"].z), args[0].z)), st)

        self.calls = {"self.predicate": Builtin(pred, "the user predicate: a pure test of the use")}

    def setup(self, st, inst):
        return {"self": VRef(st.declare_input("self", z3.Int("self")), "_TrackingPredicate"), "use": VRef(st.declare_input("use", z3.Int("use")), "Use")}

    def pre(self, st, a):
        l = st.sel("modified_ops", a["self"].z)
        return [A("objects", z3.And(a["self"].z > 0, a["use"].z > 0, l > 0, st.list_len(l) >= 0))]

    def post(self, old, st, a, res):
        t, u = a["self"].z, a["use"].z
        l = old.sel("modified_ops", t)
        p = PRED(old.sel("predicate", t), u)
        rz = res.z if isinstance(res, VBool) else z3.BoolVal(bool(res))
        n0 = old.list_len(l)
        return [C("returns-the-predicate", rz == p),
                C("accepted: the user op is appended", z3.Implies(p, z3.And(st.list_len(l) == n0 + 1, st.list_el(l, n0) == old.sel("operation", u)))),
                C("rejected: nothing recorded", z3.Implies(z3.Not(p), z3.And(st.list_len(l) == n0, st.list_arr(l) == old.list_arr(l)))),
                A("earlier records kept", forall([z3.Int("tc!i")], z3.Implies(z3.And(z3.Int("tc!i") >= 0, z3.Int("tc!i") < n0), st.list_el(l, z3.Int("tc!i")) == old.list_el(l, z3.Int("tc!i")))))]


class BuilderInsert(Spec):
    """Builder.insert: inserts through Rewriter.insert_op and reports every inserted op to handle_operation_insertion."""

    prop, file, qualname = PROP, BU, "Builder.insert"
    ghost_modifies = ["mut", "ins"]
    modifies = ["_name"]

    def __init__(self):
        self.calls = {"self.handle_operation_insertion": D["insertion"], "Rewriter.insert_op": M_INSERT_OP}

    @property
    def globals(self):
        return {"__isinstance__": ISINST, "__getattr__": _getattr_hook, "Rewriter": VGlobal("Rewriter")}

    def setup(self, st, inst):
        ghost_setup(st)
        self._single = inst["single"]
        a = {"self": VRef(st.declare_input("self", z3.Int("self")), "Builder"),
             "insertion_point": VRef(st.declare_input("insertion_point", z3.Int("insertion_point")), "InsertPoint")}
        if self._single:
            a["op"] = VRef(st.declare_input("op", z3.Int("op")), "Operation")
        else:
            a["op"] = VSeq(z3.Array("ops", I, I), st.declare_input("n_ops", z3.Int("n_ops")), "ref", "Operation")
        return a

    def bind(self, st, a, inst):
        return {"_current_builder.builder": VRef(st.declare_input("implicit_builder", z3.Int("implicit_builder")), "Builder")}

    def pre(self, st, a):
        b = a["self"].z
        l = st.sel("operation_insertion_handler", b)
        out = world() + results_ok(st) + [A("builder-object", b > 0), A("handler-list-object", z3.And(l > 0, st.list_len(l) >= 0))]
        if isinstance(a["op"], VRef):
            out.append(A("op-is-an-operation", z3.And(a["op"].z > 0, ISOP(a["op"].z))))
        elif isinstance(a["op"], VSeq):
            j = z3.Int("p!j")
            out += [A("ops-length", a["op"].n >= 0),
                    A("ops-are-operations", forall([j], z3.Implies(z3.And(j >= 0, j < a["op"].n), a["op"].arr[j] > 0)))]
        return out

    def inv(self, n, entry, st, a, lv):
        j = z3.Int("bi!j")
        if "elem" in lv and lv["iter"] is not None and isinstance(lv["iter"], VSeq) and lv["iter"].ecls == "OpResult":
            # inner loop over the results of one inserted op: only name hints are written
            return [A("log-unchanged", G(st, "ins") == G(entry, "ins")), A("mut-unchanged", G(st, "mut") == G(entry, "mut"))]
        ops = a["op"]
        return [A("inserted-so-far-reported", forall([j], z3.Implies(z3.And(j >= 0, j < lv["k"]), G(st, "ins")[ops.arr[j]]))),
                A("log-only-grows", subset(G(entry, "ins"), G(st, "ins"))), A("mut-unchanged", G(st, "mut") == G(entry, "mut"))]

    def post(self, old, st, a, res):
        n = count_of(a["op"])
        return [C("every-inserted-operation-is-reported", all_in(a["op"], G(st, "ins"))),
                C("nothing-inserted: no report, no mutation", z3.Implies(n == 0, z3.And(G(st, "ins") == G(old, "ins"), G(st, "mut") == G(old, "mut")))),
                A("log-only-grows", subset(G(old, "ins"), G(st, "ins"))),
                A("mut-monotone", z3.Implies(G(old, "mut"), G(st, "mut")))]

    def post_exc(self, old, st, a, exc):
        if exc == "ValueError":
            return [C("rejected-before-any-mutation", z3.And(G(st, "mut") == G(old, "mut"), G(st, "ins") == G(old, "ins")))]
        return None

    def result_value(self, st, a):
        return a["op"]

    def exc_cases(self, st, a):
        return [("ValueError", z3.And(count_of(a["op"]) > 0, st.fresh_bool("implicit-builder-active")))]



# ------------------------------------------------------------------ (c) the walker's callbacks against the Worklist contract of C12
WPUSH, WPOP, WREMOVE, WBOOL = (K12.WorklistSpec(m) for m in ("push", "pop", "remove", "__bool__"))


def WV(st, walker):
    return K12.WView(st, st.sel("_worklist", walker))


def wl_ok(st, walker):
    w = st.sel("_worklist", walker)
    return [Clause(c.name, c.z, "aux") for c in K12.wl_inv(st, w)]


def wl_truthy(st, v):
    """bool(worklist): the contract of Worklist.__bool__ (C12): reports non-emptiness, view unchanged (trailing sentinels may be popped)."""
    old = st.snapshot()
    st.havoc(WBOOL.modifies)
    b = st.fresh_bool("nonempty")
    for c in WBOOL.post(old, st, {"self": v}, VBool(b)):
        st.assume(c.z)
    return b


def only_grows(old, st, walker):
    x = z3.Int("og!x")
    o, n = WV(old, walker), WV(st, walker)
    return forall([x], z3.Implies(o.has(x), n.has(x)), patterns=[o.has(x), n.has(x)])


def same_worklist_object(old, st, walker):
    return z3.And(st.sel("_worklist", walker) == old.sel("_worklist", walker), WV(st, walker).S == WV(old, walker).S, WV(st, walker).M == WV(old, walker).M,
                  st.sel("apply_recursively", walker) == old.sel("apply_recursively", walker))


def b_has_one_use(ex, st, args, kw):
    return ret(VBool(ONEUSE(args[0].z)), st)


class WalkerMethod(Spec):
    prop, file = PROP, PR
    modifies = ["list#len", "list#el", "dict#dom", "dict#val"]

    def __init__(self, method):
        self.method = method
        self.qualname = f"PatternRewriteWalker.{method}"
        self.calls = {"self._worklist.push": WPUSH, "self._worklist.remove": WREMOVE, "self._worklist.pop": WPOP, ".has_one_use": Builtin(b_has_one_use)}
        if method == "_handle_operation_removal":
            self.calls["self._add_operands_to_worklist"] = WalkerMethod("_add_operands_to_worklist")

    @property
    def globals(self):
        return {"__isinstance__": ISINST, "__getattr__": _getattr_hook, "__truthy__": {"Worklist": wl_truthy}}

    def setup(self, st, inst):
        me = st.declare_input("self", z3.Int("self"))
        a = {"self": VRef(me, "PatternRewriteWalker")}
        m = self.method
        if m.startswith("_handle_operation") or m == "_populate_worklist":
            a["op"] = VRef(st.declare_input("op", z3.Int("op")), "Operation")
        if m == "_handle_operation_replacement":
            a["new_results"] = VSeq(z3.Array("new_results", I, I), z3.Int("n_new_results"), "ref", "SSAValue")
        if m == "_add_operands_to_worklist":
            a["operands"] = VSeq(z3.Array("operands", I, I), st.declare_input("n_operands", z3.Int("n_operands")), "ref", "SSAValue")
        return a

    def bind(self, st, a, inst):
        if self.method == "_handle_operation_removal":
            return {"op.walk()": VSeq(WALK(a["op"].z), NWALK(a["op"].z), "ref", "Operation")}
        if self.method == "_populate_worklist":
            return {"op.walk(reverse=not self.walk_reverse, region_first=not self.walk_regions_first)": VSeq(WALK(a["op"].z), NWALK(a["op"].z), "ref", "Operation")}
        return {}

    def pre(self, st, a):
        me = a["self"].z
        u, o, j = z3.Ints("wp!u wp!o wp!j")
        out = world() + results_ok(st) + wl_ok(st, me) + [
            A("walker-object", me > 0),
            AX("the-sentinel-and-None-are-not-operations", z3.And(z3.Not(ISOP(MISSING)), forall([o], z3.Implies(ISOP(o), o > 0), patterns=[ISOP(o)]))),
            AX("a-use-belongs-to-an-operation", forall([u], z3.Implies(u > 0, ISOP(st.sel("operation", u))))),
            AX("walk-yields-operations", forall([o, j], z3.Implies(z3.And(ISOP(o), j >= 0, j < NWALK(o)), ISOP(WALK(o)[j])), patterns=[WALK(o)[j]])),
            AX("an-op-without-regions-has-no-nested-ops", forall([o], z3.Implies(z3.And(ISOP(o), st.seq_len("regions", o) == 0), NWALK(o) == 1))),
            AX("region-counts-nonneg", forall([o], st.seq_len("regions", o) >= 0)),
            AX("operand-counts-nonneg", forall([o], st.seq_len("_operands", o) >= 0))]
        if "op" in a:
            out.append(A("op-is-an-operation", z3.And(a["op"].z > 0, ISOP(a["op"].z))))
        if "operands" in a:
            out.append(A("operands-length", a["operands"].n >= 0))
        return out

    def inv(self, n, entry, st, a, lv):
        me = a["self"].z
        v = WV(st, me)
        k = lv["k"]
        i, j = z3.Ints("wi!i wi!j")
        base = wl_ok(st, me) + [A("same-worklist", same_worklist_object(entry, st, me))]
        m = self.method
        if m == "_handle_operation_removal":
            op = a["op"].z
            return base + [A("walked-prefix-removed", forall([j], z3.Implies(z3.And(j >= 0, j < k), z3.Not(v.has(WALK(op)[j])))))]
        if m in ("_add_operands_to_worklist",):
            return base + [A("only-grows", only_grows(entry, st, me)),
                           A("new-members-are-operations", forall([i], z3.Implies(z3.And(v.has(i), z3.Not(WV(entry, me).has(i))), ISOP(i)), patterns=[v.has(i)]))]
        if m == "_populate_worklist":
            op = a["op"].z
            return base + [A("only-grows", only_grows(entry, st, me)), A("walked-prefix-pushed", forall([j], z3.Implies(z3.And(j >= 0, j < k), v.has(WALK(op)[j]))))]
        if m == "_handle_operation_replacement":
            op = a["op"].z
            res = lambda q: entry.seq_el("results", op, q)
            users_of = lambda r_, upto: forall([j], z3.Implies(z3.And(j >= 0, j < upto), v.has(entry.sel("operation", USES(r_)[j]))))
            if n == 0:
                return base + [A("only-grows", only_grows(entry, st, me)),
                               A("users-of-processed-results-pushed", forall([i, j], z3.Implies(z3.And(i >= 0, i < k, j >= 0, j < NUSES(res(i))),
                                                                                               v.has(entry.sel("operation", USES(res(i))[j])))))]
            r_ = lv["env"]["result"].z
            return base + [A("only-grows", only_grows(entry, st, me)), A("users-so-far-pushed", users_of(r_, k))]
        return None

    def post(self, old, st, a, res):
        me = a["self"].z
        o, v = WV(old, me), WV(st, me)
        rec = old.sel("apply_recursively", me)
        i, j, x = z3.Ints("wq!i wq!j wq!x")
        out = wl_ok(st, me) + [A("same-worklist", same_worklist_object(old, st, me))]
        m = self.method
        if m in ("_handle_operation_insertion", "_handle_operation_modification"):
            op = a["op"].z
            out += [C("recursive mode: the operation is (re)visited", z3.Implies(rec, v.has(op))), C("nothing-leaves-the-worklist", only_grows(old, st, me)),
                    C("non-recursive mode: worklist unchanged", z3.Implies(z3.Not(rec), forall([x], v.has(x) == o.has(x))))]
        if m == "_handle_operation_removal":
            op = a["op"].z
            out += [C("the-removed-operation-and-every-operation-nested-in-it-leave-the-worklist",
                      forall([j], z3.Implies(z3.And(j >= 0, j < NWALK(op)), z3.Not(v.has(WALK(op)[j]))))),
                    C("the-removed-operation-leaves-the-worklist", z3.Not(v.has(op)))]
        if m == "_add_operands_to_worklist":
            out += [C("nothing-leaves-the-worklist", only_grows(old, st, me)),
                    A("new-members-are-operations", forall([x], z3.Implies(z3.And(v.has(x), z3.Not(o.has(x))), ISOP(x)), patterns=[v.has(x)]))]
        if m == "_populate_worklist":
            op = a["op"].z
            out += [C("every-operation-of-the-walk-is-on-the-worklist", forall([j], z3.Implies(z3.And(j >= 0, j < NWALK(op)), v.has(WALK(op)[j])))),
                    C("nothing-leaves-the-worklist", only_grows(old, st, me))]
        if m == "_handle_operation_replacement":
            op = a["op"].z
            res_ = lambda q: old.seq_el("results", op, q)
            out += [C("recursive mode: every user of a replaced result is revisited",
                      z3.Implies(rec, forall([i, j], z3.Implies(z3.And(i >= 0, i < old.seq_len("results", op), j >= 0, j < NUSES(res_(i))),
                                                                v.has(old.sel("operation", USES(res_(i))[j])))))),
                    C("nothing-leaves-the-worklist", only_grows(old, st, me))]
        return out


# ------------------------------------------------------------------ (d) the driver: _process_worklist, rewrite_region
def erased_free(st, walker):
    x = z3.Int("ef!x")
    return forall([x], z3.Implies(G(st, "ERASED")[x], z3.Not(WV(st, walker).has(x))), patterns=[G(st, "ERASED")[x], WV(st, walker).has(x)])


def region_alive(st):
    x = z3.Int("ra!x")
    return forall([x], z3.Implies(INREGION(x, G(st, "epoch")), z3.And(z3.Not(G(st, "ERASED")[x]), ISOP(x))), patterns=[INREGION(x, G(st, "epoch"))])


def fixpoint(st):
    x = z3.Int("fx!x")
    return forall([x], z3.Implies(INREGION(x, G(st, "epoch")), G(st, "VIS")[x]), patterns=[INREGION(x, G(st, "epoch"))])


def same_view(old, st, walker):
    x = z3.Int("sv!x")
    return forall([x], WV(st, walker).has(x) == WV(old, walker).has(x))


EMPTY = z3.K(I, z3.BoolVal(False))
DRIVER_GHOSTS = ["mut", "ERASED", "VIS", "epoch"]
WL_FRAME = ["list#len", "list#el", "dict#dom", "dict#val"]


class Pattern(Spec):
    """
    ASSUMED contract of `self.pattern.match_and_rewrite(op, rewriter)` as called by the driver: the statement's hypothesis that the pattern
    changes the IR only through the rewriter it is given, lifted over an arbitrary finite sequence of rewriter-method calls.  Each clause is
    what the discharged units give for ONE call (in brackets), closed under sequencing:
      * mut' => mut or flag'                        [PatternRewriter.*: action-flag-set-whenever-the-IR-was-mutated; flag-never-reset]
      * not flag' => worklist, ERASED, epoch, mut unchanged and VIS' = VIS + {op}
                                                    [listeners-are-only-notified-together-with-the-action-flag: without a notification no walker
                                                     callback runs, so the worklist is untouched]
      * erased operations are not on the worklist   [PatternRewriter.erase reports the removal before erasing (call-pre of Rewriter.erase_op);
                                                     Dispatch: every registered callback is invoked; _handle_operation_removal takes the op and
                                                     every nested op off the worklist; the other callbacks push only ops they are handed,
                                                     which a well-behaved pattern does not pass after erasing them]
      * any action invalidates the record of fruitless visits (VIS' empty)
    The walker is the ghost `_walker` (the listener handed to the rewriter forwards to it: _get_rewriter_listener + extend_from_listener).
    """

    prop, file, qualname = PROP, PR, "RewritePattern.match_and_rewrite"
    trusted = True
    modifies = WL_FRAME + ["has_done_action"]
    ghost_modifies = DRIVER_GHOSTS

    def pre(self, st, a):
        w, op, rw = st.ghost["_walker"], a["op"].z, a["rewriter"].z
        return [C("patterns-are-never-invoked-on-erased-or-detached-operations", z3.Not(G(st, "ERASED")[op])),
                A("the-action-flag-is-reset-before-each-match", z3.Not(flag(st, rw))),
                A("the-rewriter-targets-the-matched-op", st.sel("current_operation", rw) == op),
                A("worklist-free-of-erased-operations", erased_free(st, w))] + wl_ok(st, w)

    def post(self, old, st, a, res):
        w, op, rw = old.ghost["_walker"], a["op"].z, a["rewriter"].z
        x = z3.Int("pt!x")
        fl = flag(st, rw)
        return wl_ok(st, w) + [
            A("same-worklist", same_worklist_object(old, st, w)),
            A("no-action: nothing changed, the visit is recorded",
              z3.Implies(z3.Not(fl), z3.And(same_view(old, st, w), G(st, "mut") == G(old, "mut"), G(st, "ERASED") == G(old, "ERASED"),
                                            G(st, "epoch") == G(old, "epoch"), G(st, "VIS") == z3.Store(G(old, "VIS"), op, True)))),
            A("an-action-invalidates-earlier-fruitless-visits", z3.Implies(fl, G(st, "VIS") == EMPTY)),
            A("mutation-implies-flag", z3.Implies(G(st, "mut"), z3.Or(G(old, "mut"), fl))), A("mut-monotone", z3.Implies(G(old, "mut"), G(st, "mut"))),
            A("erased-only-grows", subset(G(old, "ERASED"), G(st, "ERASED"))),
            A("worklist-free-of-erased-operations", erased_free(st, w)),
            A("region-ops-are-alive", region_alive(st)),
            A("other-rewriter-fields-untouched", st.sel("current_operation", rw) == old.sel("current_operation", rw))]

    def exc_cases(self, st, a):
        return [("Exception", st.fresh_bool("pattern-raises"))]

    def post_exc(self, old, st, a, exc):
        return []


PATTERN = Pattern()


def b_new_rewriter(ex, st, args, kw):
    """PatternRewriter(op): a fresh rewriter (has_done_action False, empty handler lists) targeting op."""
    r = st.new_object("rewriter")
    st.store("has_done_action", r, z3.BoolVal(False))
    st.store("current_operation", r, z_int(args[0]))
    return ret(VRef(r, "PatternRewriter"), st)


def b_noop(ex, st, args, kw):
    return ret(None, st)


def b_emit_error(ex, st, args, kw):
    return [Res("raise", "DiagnosticException", st)]


class ProcessWorklist(Spec):
    prop, file, qualname = PROP, PR, "PatternRewriteWalker._process_worklist"
    modifies = WL_FRAME + ["has_done_action", "current_operation", "insertion_point", "_name_hint"]
    ghost_modifies = DRIVER_GHOSTS

    def __init__(self):
        self.calls = {"self._worklist.pop": WPOP, "PatternRewriter": Builtin(b_new_rewriter, b_new_rewriter.__doc__),
                      "rewriter.extend_from_listener": Builtin(b_noop, "forwarding of the listener: contract of extend_from_listener (discharged separately)"),
                      "InsertPoint.before": Builtin(b_insert_point), "self.pattern.match_and_rewrite": PATTERN,
                      "op.emit_error": Builtin(b_emit_error, "Operation.emit_error always raises")}

    @property
    def globals(self):
        return {"__truthy__": {"Worklist": wl_truthy}, "__setters__": SETTERS, "InsertPoint": VGlobal("InsertPoint")}

    def setup(self, st, inst):
        ghost_setup(st)
        me = st.declare_input("self", z3.Int("self"))
        st.ghost["_walker"] = me
        return {"self": VRef(me, "PatternRewriteWalker"), "listener": VRef(st.declare_input("listener", z3.Int("listener")), "PatternRewriterListener")}

    def pre(self, st, a):
        me = a["self"].z
        o = z3.Int("pw!o")
        return world() + wl_ok(st, me) + [A("walker-object", me > 0), A("worklist-free-of-erased-operations", erased_free(st, me)),
                                          A("region-ops-are-alive", region_alive(st)),
                                          AX("operations-are-objects", forall([o], z3.Implies(ISOP(o), o > 0), patterns=[ISOP(o)]))]

    def inv(self, n, entry, st, a, lv):
        me = a["self"].z
        env = lv["env"]
        op, rw, acted = env["op"].z, env["rewriter"].z, env["rewriter_has_done_action"]
        acted = z3.BoolVal(acted) if isinstance(acted, bool) else acted.z
        x = z3.Int("pi!x")
        v = WV(st, me)
        has0 = lambda q: z3.Select(z3.Select(z3.Const("H0.dict#dom", z3.ArraySort(I, SET)), z3.Select(z3.Const("H0._map", z3.ArraySort(I, I)), z3.Select(z3.Const("H0._worklist", z3.ArraySort(I, I)), me))), q)
        return wl_ok(st, me) + [
            A("same-worklist", same_worklist_object(entry, st, me)),
            A("current-op-is-alive", z3.Not(G(st, "ERASED")[op])),
            A("mut-monotone", z3.Implies(G0("mut"), G(st, "mut"))),
            A("rewriter-object", rw > 0),
            A("worklist-free-of-erased-operations", erased_free(st, me)),
            A("region-ops-are-alive", region_alive(st)),
            A("a-mutation-has-been-recorded-as-an-action", z3.Implies(G(st, "mut"), z3.Or(G0("mut"), acted))),
            A("no-action-so-far: every op of the initial worklist is visited, pending or current; nothing changed",
              z3.Implies(z3.Not(acted), z3.And(forall([x], z3.Implies(has0(x), z3.Or(G(st, "VIS")[x], v.has(x), x == op))),
                                               subset(G0("VIS"), G(st, "VIS")), G(st, "mut") == G0("mut"), G(st, "epoch") == G0("epoch"),
                                               G(st, "ERASED") == G0("ERASED")))),
        ]

    def post(self, old, st, a, res):
        me = a["self"].z
        rz = res.z if isinstance(res, VBool) else z3.BoolVal(bool(res))
        x = z3.Int("pp!x")
        o, v = WV(old, me), WV(st, me)
        return wl_ok(st, me) + [
            C("reports-a-modification-whenever-the-IR-changed", z3.Implies(G(st, "mut"), z3.Or(G(old, "mut"), rz))),
            C("no-action-reported: every operation that was on the worklist has been visited by the pattern without effect and the IR is unchanged",
              z3.Implies(z3.Not(rz), z3.And(forall([x], z3.Implies(o.has(x), G(st, "VIS")[x])), subset(G(old, "VIS"), G(st, "VIS")),
                                            G(st, "mut") == G(old, "mut"), G(st, "epoch") == G(old, "epoch")))),
            C("the-worklist-is-drained", forall([x], z3.Not(v.has(x)))),
            A("same-worklist", same_worklist_object(old, st, me)),
            A("worklist-free-of-erased-operations", erased_free(st, me)), A("region-ops-are-alive", region_alive(st)),
            A("mut-monotone", z3.Implies(G(old, "mut"), G(st, "mut")))]

    def post_exc(self, old, st, a, exc):
        if exc == "DiagnosticException":
            return []  # a failing pattern aborts the walk with a diagnostic; nothing is claimed about the IR
        return None

    def result_value(self, st, a):
        return VBool(st.fresh_bool("acted"))

    def exc_cases(self, st, a):
        return [("DiagnosticException", st.fresh_bool("a-pattern-raised"))]


class PopulateCallee(Spec):
    """
    _populate_worklist(region) as seen by rewrite_region: the discharged postcondition of _populate_worklist, with walk_of(region) read as
    'the operations of the region in the current IR version' (INREGION(., epoch)).
    """

    prop, file, qualname = PROP, PR, "PatternRewriteWalker._populate_worklist"
    trusted = True
    modifies = WL_FRAME

    def pre(self, st, a):
        return wl_ok(st, a["self"].z)

    def post(self, old, st, a, res):
        me = a["self"].z
        x = z3.Int("pc!x")
        o, v = WV(old, me), WV(st, me)
        return wl_ok(st, me) + [A("same-worklist", same_worklist_object(old, st, me)),
                                A("every-operation-of-the-region-is-on-the-worklist", forall([x], z3.Implies(INREGION(x, G(st, "epoch")), v.has(x)), patterns=[INREGION(x, G(st, "epoch"))])),
                                A("nothing-leaves-the-worklist", only_grows(old, st, me)),
                                A("only-operations-of-the-region-are-added", forall([x], z3.Implies(z3.And(v.has(x), z3.Not(o.has(x))), INREGION(x, G(st, "epoch"))), patterns=[v.has(x)]))]


def b_post_walk(ex, st, args, kw):
    """
    self.post_walk_func(region, listener): ASSUMED to report truthfully whether it changed the IR (it is documented to return that); when it
    returns False nothing changes; when it returns True the worklist may have been touched through the listener (same guarantees as a pattern).
    """
    w = st.ghost["_walker"]
    out = []
    for changed, bs in ex.split(st, st.fresh_bool("post-walk-changed")):
        if changed:
            old = bs.snapshot()
            bs.havoc(WL_FRAME)
            for g in DRIVER_GHOSTS:
                bs.ghost[g] = bs.fresh("G." + g, bs.ghost[g].sort())
            for c in wl_ok(bs, w):
                bs.assume(c.z)
            bs.assume(z3.And(same_worklist_object(old, bs, w), erased_free(bs, w), region_alive(bs), G(bs, "VIS") == EMPTY,
                             z3.Implies(G(old, "mut"), G(bs, "mut")), subset(G(old, "ERASED"), G(bs, "ERASED"))))
        out.append(Res("val", VBool(z3.BoolVal(changed)), bs))
    return out


b_post_walk.modifies = WL_FRAME
b_post_walk.ghost_modifies = DRIVER_GHOSTS


class RewriteRegion(Spec):
    prop, file, qualname = PROP, PR, "PatternRewriteWalker.rewrite_region"
    modifies = WL_FRAME + ["has_done_action", "current_operation", "insertion_point", "_name_hint"]
    ghost_modifies = DRIVER_GHOSTS

    def __init__(self):
        self.calls = {"self._get_rewriter_listener": Builtin(lambda ex, st, a, k: ret(VRef(st.fresh_int("listener"), "PatternRewriterListener"), st),
                                                             "builds the forwarding listener (no effect on the IR or the worklist)"),
                      "self._populate_worklist": PopulateCallee(), "self._process_worklist": ProcessWorklist(),
                      "self.post_walk_func": Builtin(b_post_walk, b_post_walk.__doc__)}

    def setup(self, st, inst):
        ghost_setup(st)
        me = st.declare_input("self", z3.Int("self"))
        st.ghost["_walker"] = me
        return {"self": VRef(me, "PatternRewriteWalker"), "region": VRef(st.declare_input("region", z3.Int("region")), "Region")}

    def pre(self, st, a):
        me = a["self"].z
        o = z3.Int("rr!o")
        return world() + wl_ok(st, me) + [A("walker-object", me > 0), A("worklist-free-of-erased-operations", erased_free(st, me)),
                                          A("region-ops-are-alive", region_alive(st)),
                                          AX("operations-are-objects", forall([o], z3.Implies(ISOP(o), o > 0), patterns=[ISOP(o)]))]

    def inv(self, n, entry, st, a, lv):
        me = a["self"].z
        env = lv["env"]
        b = lambda v: z3.BoolVal(v) if isinstance(v, bool) else v.z
        mod, result = b(env["op_was_modified"]), b(env["result"])
        return wl_ok(st, me) + [
            A("same-worklist", same_worklist_object(entry, st, me)),
            A("worklist-free-of-erased-operations", erased_free(st, me)), A("region-ops-are-alive", region_alive(st)),
            A("a-mutation-has-been-reported", z3.Implies(G(st, "mut"), z3.Or(G0("mut"), result))),
            A("a-modifying-sweep-is-reported", z3.Implies(mod, result)),
            A("a-sweep-without-modification-leaves-a-fixpoint", z3.Implies(z3.Not(mod), fixpoint(st)))]

    def post(self, old, st, a, res):
        me = a["self"].z
        rz = res.z if isinstance(res, VBool) else z3.BoolVal(bool(res))
        return [C("the-walker-reports-a-modification-whenever-the-IR-changed", z3.Implies(G(st, "mut"), z3.Or(G(old, "mut"), rz))),
                C("recursive mode: on return every operation of the region has been visited by the pattern without effect on the final IR (fixpoint)",
                  z3.Implies(old.sel("apply_recursively", me), fixpoint(st)))]

    def post_exc(self, old, st, a, exc):
        if exc == "DiagnosticException":
            return []
        return None


# ------------------------------------------------------------------ (e) GreedyRewritePatternApplier.match_and_rewrite
class SubPattern(Spec):
    """ASSUMED contract of a sub-pattern of the applier: it changes the IR only through the rewriter (same hypothesis as PATTERN)."""

    prop, file, qualname = PROP, PR, "RewritePattern.match_and_rewrite"
    trusted = True
    modifies = ["has_done_action"]
    ghost_modifies = ["mut", "ins", "rem", "mod", "rep", "TRIED"]

    def post(self, old, st, a, res):
        rw = a["rewriter"].z
        return [A("mutation-implies-flag", z3.Implies(G(st, "mut"), z3.Or(G(old, "mut"), flag(st, rw)))),
                A("no-action: nothing changed", z3.Implies(z3.Not(flag(st, rw)), z3.And(G(st, "mut") == G(old, "mut"), logs_unchanged(old, st)))),
                A("flag-never-reset", z3.Implies(flag(old, rw), flag(st, rw))), A("log-only-grows", logs_monotone(old, st)),
                A("tried", G(st, "TRIED") == z3.Store(G(old, "TRIED"), a["self"].z, True))]


def b_try_fold(ex, st, args, kw):
    """Folder(ctx).try_fold(op): None, or (values, new constant ops) - builds detached ops only, no IR mutation (TRUSTED)."""
    out = []
    for ok, bs in ex.split(st, st.fresh_bool("folds")):
        if not ok:
            out.append(Res("val", None, bs))
            continue
        vals = VSeq(bs.fresh("fold!vals", z3.ArraySort(I, I)), bs.fresh_int("fold!nv"), "ref", "SSAValue")
        ops = VSeq(bs.fresh("fold!ops", z3.ArraySort(I, I)), bs.fresh_int("fold!no"), "ref", "Operation")
        j = z3.Int("tf!j")
        bs.assume(z3.And(vals.n >= 0, ops.n >= 0, forall([j], z3.Implies(z3.And(j >= 0, j < ops.n), ops.arr[j] > 0))))
        out.append(Res("val", VTuple([vals, ops]), bs))
    return out


class Applier(Spec):
    prop, file, qualname = PROP, PR, "GreedyRewritePatternApplier.match_and_rewrite"
    modifies = ["has_done_action", "_name"]
    ghost_modifies = ["mut", "ins", "rem", "mod", "rep", "TRIED"]

    def __init__(self):
        self.calls = {"is_trivially_dead": Builtin(lambda ex, st, a, k: ret(VBool(ITD(a[0].z)), st), "contract of is_trivially_dead (C13)"),
                      "rewriter.erase": RewriterMethod("erase"), "rewriter.replace": ReplaceSpec(),
                      "op.has_trait": Builtin(lambda ex, st, a, k: ret(VBool(st.fresh_bool("trait")), st), "trait test: arbitrary"),
                      "Folder(self.ctx).try_fold": Builtin(b_try_fold, b_try_fold.__doc__),
                      "pattern.match_and_rewrite": SubPattern()}

    @property
    def globals(self):
        return {"__isinstance__": ISINST, "__getattr__": _getattr_hook, "HasFolder": VGlobal("HasFolder"), "ConstantLike": VGlobal("ConstantLike")}

    def setup(self, st, inst):
        ghost_setup(st)
        st.ghost["TRIED"] = z3.Const("TRIED0", SET)
        return {"self": VRef(st.declare_input("self", z3.Int("self")), "GreedyRewritePatternApplier"),
                "op": VRef(st.declare_input("op", z3.Int("op")), "Operation"),
                "rewriter": VRef(st.declare_input("rewriter", z3.Int("rewriter")), "PatternRewriter")}

    def pre(self, st, a):
        me, rw = a["self"].z, a["rewriter"].z
        l = st.sel("rewrite_patterns", me)
        lists = [st.sel(f, rw) for f in HANDLER_FIELD.values()]
        return world() + results_ok(st) + [A("objects", z3.And(me > 0, rw > 0, a["op"].z > 0, l > 0, st.list_len(l) >= 0)),
                                           A("handler-lists-are-objects", z3.And(*[z3.And(x > 0, st.list_len(x) >= 0) for x in lists])),
                                           A("the-action-flag-is-reset-before-each-match", z3.Not(flag(st, rw)))]

    def inv(self, n, entry, st, a, lv):
        me, rw = a["self"].z, a["rewriter"].z
        l = entry.sel("rewrite_patterns", me)
        j = z3.Int("ap!j")
        return [A("no-action-so-far", z3.And(z3.Not(flag(st, rw)), G(st, "mut") == G0("mut"), logs_unchanged(entry, st))),
                A("patterns-so-far-tried", forall([j], z3.Implies(z3.And(j >= 0, j < lv["k"]), G(st, "TRIED")[entry.list_el(l, j)]))),
                A("pattern-list-unchanged", z3.And(st.sel("rewrite_patterns", me) == l, st.list_len(l) == entry.list_len(l), st.list_arr(l) == entry.list_arr(l)))]

    def post(self, old, st, a, res):
        me, rw, op = a["self"].z, a["rewriter"].z, a["op"].z
        l = old.sel("rewrite_patterns", me)
        j = z3.Int("ap!j")
        return [C("action-flag-set-whenever-the-IR-was-mutated", z3.Implies(G(st, "mut"), z3.Or(G(old, "mut"), flag(st, rw)))),
                C("dead-operations-are-erased-through-the-rewriter (removal reported)", z3.Implies(z3.And(old.sel("dce_enabled", me), ITD(op)), z3.And(flag(st, rw), G(st, "rem")[op]))),
                C("no-action: every pattern of the list was tried on the unchanged IR",
                  z3.Implies(z3.Not(flag(st, rw)), z3.And(G(st, "mut") == G(old, "mut"),
                                                         forall([j], z3.Implies(z3.And(j >= 0, j < old.list_len(l)), G(st, "TRIED")[old.list_el(l, j)])))))]

    def post_exc(self, old, st, a, exc):
        if exc == "ValueError":
            rw = a["rewriter"].z
            return [C("action-flag-set-whenever-the-IR-was-mutated", z3.Implies(G(st, "mut"), z3.Or(G(old, "mut"), flag(st, rw))))]
        return None


BUILDER_INSERT = BuilderInsert()


def make_specs(tier):
    specs = []

    def add(s, insts=None):
        s.instances = insts or [{}]
        specs.append(s)

    for k in HANDLER_FIELD:
        add(D[k])
    add(Extend("BuilderListener"))
    add(Extend("PatternRewriterListener"), [{"prl": True}, {"prl": False}])
    for m in ("erase", "notify_op_modified", "replace_all_uses_with", "replace_value_with_new_type", "insert_block_argument",
              "erase_block_argument", "inline_block", "move_region_contents_to_new_regions", "inline_region"):
        add(RewriterMethod(m))
    add(RewriterMethod("insert"), [{"single": True}, {"single": False}])
    add(BUILDER_INSERT, [{"single": True}, {"single": False}])
    add(ReplaceSpec(), [{"single": s, "given": g} for s in (True, False) for g in (True, False)])
    add(RUWISpec())
    add(TrackingCall())
    for m in ("_handle_operation_insertion", "_handle_operation_modification", "_handle_operation_removal", "_handle_operation_replacement",
              "_add_operands_to_worklist", "_populate_worklist"):
        add(WalkerMethod(m))
    add(ProcessWorklist())
    add(RewriteRegion())
    add(Applier())
    return specs


def _search(self, inst, seed):
    """Native counter-example search for an undecided / refuted unit: the bounded stand-in (first shard)."""
    r = N11.explore("quick", seed, 0, 4)
    return r["failures"][0] if r["failures"] else None


NATIVE = N11.NATIVE
ASSUMPTIONS = [
    "ASSUMED contract of the opaque call self.pattern.match_and_rewrite(op, rewriter) (class Pattern): patterns change the IR only through the "
    "rewriter they are given - the hypothesis the statement itself makes ('made through the rewriter'); its clauses are the per-method "
    "postconditions discharged in this run, closed under sequencing; a pattern that edits the IR behind the rewriter's back is outside the property",
    "ASSUMED: post_walk_func reports truthfully whether it changed the IR; registered listener callbacks do not edit the handler lists or the worklist",
    "TRUSTED callee contracts for the IR-mutating primitives (Rewriter.erase_op/insert_op/replace_value_with_new_type/inline_block/"
    "move_region_contents_to_new_regions/inline_region, Block.insert_arg/erase_arg, SSAValue.erase/replace_all_uses_with/replace_uses_with_if): here "
    "only THAT they may mutate matters (ghost `mut`); their effect on the IR structure is C01",
    "replace_all_uses_with / replace_uses_with_if mutate operand lists iff some use is rewritten; the name-hint carry-over they perform is not counted as an IR change",
    "uses_of(v) / walk_of(op) / in_region_at_epoch are uninterpreted read-only views of the IR at the time of the call (IRUses iteration order, Operation.walk pre-order with the op first)",
    "_get_rewriter_listener (bound-method lists) and the identity 'the listener handed to the rewriter forwards to the walker callbacks' are covered by the bounded stand-in only",
    "the Worklist contracts are the Spec objects verified in C12 (push/pop/remove/__bool__); other lists are not framed across Worklist calls",
    "termination of rewrite_region's outer loop is not proved",
]
EXPLANATION = ("C11: rewriter methods, listener dispatch, walker callbacks, worklist processing and the outer fixpoint loop verified function by function "
               "with ghost logs; the pattern call is an assumed contract; bounded stand-in on generated IR under perturbed schedules")
for _c in (Dispatch, Extend, RewriterMethod, BuilderInsert, TrackingCall, WalkerMethod, ProcessWorklist, RewriteRegion, Applier):
    _c.native_search = _search
SPECS = make_specs(os.environ.get("VERIF_TIER", "quick"))
