"""
C01 — IR edits keep the op/block/region tree and use-def chains consistent.

Statement (quoted): "After any sequence of successful IR edits ... every operation, block and
region is found exactly once in its container in both forward and backward order and points back
to that container.  Every value's use list and every block's predecessor list contains exactly
the (user, position) pairs that appear in operand and successor lists, and argument/result
positions match their index in their owner."

Technique: data structure against an abstract view on a field-array heap (one SMT array per
attribute).  The representation invariant is LOCAL (link symmetry, parent agreement, end
pointers) plus a ghost position `pos` that strictly increases along `next` links: in a finite
heap this forces every child to be met exactly once by the forward walk from `first` and the
backward walk from `last` (no side cycles, no sharing).  Every primitive is verified from ANY
heap satisfying the invariant and re-establishes it for ALL objects (the untouched ones by the
frame), together with the exact view update; by induction on the history every finite sequence
of calls keeps the invariant.
"""

from __future__ import annotations

import os

import z3

from contracts.common import A, C, forall
from pyvc import extract
from pyvc.spec import Builtin, Inline, Spec
from pyvc.values import Clause, VBool, VInt, VRef, VSeq, VTuple, Vocab, z_int

PROP = "C01"
CORE = "xdsl/ir/core.py"
I = z3.IntSort()

FIELDS = {
    "parent": "ref",
    "_next_op": "ref:Operation", "_prev_op": "ref:Operation", "_first_op": "ref:Operation", "_last_op": "ref:Operation",
    "_next_block": "ref:Block", "_prev_block": "ref:Block", "_first_block": "ref:Block", "_last_block": "ref:Block",
    "first_use": "ref:Use", "_next_use": "ref:Use", "_prev_use": "ref:Use", "_operation": "ref:Operation", "_index": "int",
    "op": "ref:Operation", "block": "ref:Block", "index": "int", "_op": "ref:Operation", "_region": "ref:Region",
    "_operands": "seq:ref:SSAValue", "_operand_uses": "seq:ref:Use", "_successors": "seq:ref:Block", "_successor_uses": "seq:ref:Use",
    "results": "seq:ref:OpResult", "_args": "seq:ref:BlockArgument", "regions": "seq:ref:Region",
    "_name": "ref", "_type": "ref",
}  # fmt: skip

GETTER_CLASSES = ["Use", "IRWithUses", "SSAValue", "OpResult", "BlockArgument", "Operation", "Block", "Region", "BlockOps", "RegionBlocks",
                  "IRWithName"]
VOCAB = Vocab(FIELDS, extract.simple_property_getters(CORE, GETTER_CLASSES))
# `uses`, `operands`, `successors`, `ops`, `blocks` build view objects: handled by the contracts, not inlined
for _k in list(VOCAB.getters):
    if _k.split(".")[-1] in ("uses", "operands", "successors", "ops", "blocks", "traits", "result_types", "operand_types", "arg_types",
                             "type", "name_hint", "owner", "first", "last", "op", "block", "local_scope"):
        del VOCAB.getters[_k]

# object kinds (ghost tag, never changes for an allocated object)
K_OP, K_BLOCK, K_REGION, K_USE, K_VALUE = 1, 2, 3, 4, 5
KIND = z3.Array("kind", I, I)
POS = z3.Array("pos_op", I, z3.RealSort())  # ghost: position of an attached op inside its block (dense order: no renumbering)


def kind(x):
    return KIND[x]


def is_op(x):
    return KIND[x] == K_OP


def is_block(x):
    return KIND[x] == K_BLOCK


def nn(x):
    return x != 0


class H:
    """Field accessors over a symbolic state."""

    def __init__(self, st):
        self.st = st

    def __getattr__(self, name):
        st = self.st
        real = {"parent": "parent", "next": "_next_op", "prev": "_prev_op", "first": "_first_op", "last": "_last_op"}.get(name, name)
        arr = st.fld(real)
        return lambda x: z3.Select(arr, x)


def inv_ops(st, pos):
    """Representation invariant of the per-block operation lists, for ALL ops and blocks."""
    h = H(st)
    o, b = z3.Ints("iv!o iv!b")
    P, N, Pv, F, L = h.parent, h.next, h.prev, h.first, h.last
    return [
        A("null-is-untyped", KIND[0] == 0),
        A("op-link-types", forall([o], z3.Implies(is_op(o), z3.And(
            z3.Or(P(o) == 0, is_block(P(o))), z3.Or(N(o) == 0, is_op(N(o))), z3.Or(Pv(o) == 0, is_op(Pv(o))))))),
        A("block-end-types", forall([b], z3.Implies(is_block(b), z3.And(z3.Or(F(b) == 0, is_op(F(b))), z3.Or(L(b) == 0, is_op(L(b))))))),
        A("detached-op-has-no-siblings", forall([o], z3.Implies(z3.And(is_op(o), P(o) == 0), z3.And(N(o) == 0, Pv(o) == 0)))),
        A("next-link-symmetric", forall([o], z3.Implies(z3.And(is_op(o), N(o) != 0), z3.And(Pv(N(o)) == o, P(N(o)) == P(o))))),
        A("prev-link-symmetric", forall([o], z3.Implies(z3.And(is_op(o), Pv(o) != 0), z3.And(N(Pv(o)) == o, P(Pv(o)) == P(o))))),
        A("no-prev-means-first", forall([o], z3.Implies(z3.And(is_op(o), P(o) != 0, Pv(o) == 0), F(P(o)) == o))),
        A("no-next-means-last", forall([o], z3.Implies(z3.And(is_op(o), P(o) != 0, N(o) == 0), L(P(o)) == o))),
        A("first-belongs", forall([b], z3.Implies(z3.And(is_block(b), F(b) != 0), z3.And(P(F(b)) == b, Pv(F(b)) == 0)))),
        A("last-belongs", forall([b], z3.Implies(z3.And(is_block(b), L(b) != 0), z3.And(P(L(b)) == b, N(L(b)) == 0)))),
        A("empty-iff-both-ends-none", forall([b], z3.Implies(is_block(b), (F(b) == 0) == (L(b) == 0)))),
        A("pos-increases-along-next", forall([o], z3.Implies(z3.And(is_op(o), N(o) != 0), pos[N(o)] > pos[o]))),
    ]


def heap_unchanged(old, st, names):
    return z3.And(*[st.fld(n) == old.fld(n) for n in names])


OP_LIST_FIELDS = ["parent", "_next_op", "_prev_op", "_first_op", "_last_op"]


def others_unchanged(old, st, blk, skip=()):
    """Membership and relative order of every op other than `skip` is unchanged (view-level frame)."""
    ho, hn = H(old), H(st)
    o = z3.Int("fr!o")
    cond = z3.And(is_op(o), *[o != s for s in skip])
    return forall([o], z3.Implies(cond, hn.parent(o) == ho.parent(o)))


def parent_cls(owner_cls, attr):
    """`parent` is polymorphic: a Block for an Operation, a Region for a Block, an Operation for a Region (typing it lets the engine check on the
    live class that `if x.parent:` is `x.parent is not None`, i.e. that the class defines neither __bool__ nor __len__)."""
    if attr == "parent":
        return {"Operation": "Block", "Block": "Region", "Region": "Operation"}.get(owner_cls)
    return None


class IsAncestor(Spec):
    """_IRNode.is_ancestor as seen by callers: pure, no effects, never raises (assumed contract, its loop
    walks parent links; termination needs the tree to be acyclic, which is what it protects)."""

    prop, file, qualname = PROP, CORE, "_IRNode.is_ancestor"
    trusted = True
    ANC = z3.Function("is_ancestor", I, I, z3.BoolSort())

    def result_value(self, st, a):
        return VBool(IsAncestor.ANC(a["self"].z, z_int(a["op"])))


IS_ANCESTOR = IsAncestor()

OP_INLINES = {
    "self._attach_op": Inline(CORE, "Block._attach_op"),
    "existing_op._insert_next_op": Inline(CORE, "Operation._insert_next_op"),
    "existing_op._insert_prev_op": Inline(CORE, "Operation._insert_prev_op"),
}


class OpListSpec(Spec):
    globals = {"__field_cls__": parent_cls}
    prop, file = PROP, CORE
    inline = OP_INLINES
    calls = {"operation.is_ancestor": IS_ANCESTOR}
    modifies = OP_LIST_FIELDS
    ghost_modifies = ["pos_op"]

    def __init__(self, method):
        self.qualname = f"Block.{method}"
        self.method = method
        if method == "add_op":
            self.calls = dict(self.calls)
            self.calls["self.insert_op_after"] = OpListSpec("insert_op_after")

    # ---- parameters --------------------------------------------------------------------
    def setup(self, st, inst):
        st.ghost["pos_op"] = POS
        a = {"self": VRef(st.declare_input("self", z3.Int("self")), "Block")}
        m = self.method
        if m in ("insert_op_after", "insert_op_before"):
            a["new_op"] = VRef(st.declare_input("new_op", z3.Int("new_op")), "Operation")
            a["existing_op"] = VRef(st.declare_input("existing_op", z3.Int("existing_op")), "Operation")
        elif m == "add_op":
            a["operation"] = VRef(st.declare_input("operation", z3.Int("operation")), "Operation")
        elif m == "detach_op":
            a["op"] = VRef(st.declare_input("op", z3.Int("op")), "Operation")
        return a

    def typing(self, a):
        cs = [is_block(a["self"].z)]
        for k in ("new_op", "existing_op", "operation", "op"):
            if k in a:
                cs.append(is_op(a[k].z))
        return z3.And(*cs)

    def pre(self, st, a):
        return inv_ops(st, st.ghost["pos_op"]) + [A("typed-arguments", self.typing(a))]

    # ---- callee view -------------------------------------------------------------------
    def exc_cases(self, st, a):
        h = H(st)
        m = self.method
        me = a["self"].z
        if m in ("insert_op_after", "insert_op_before"):
            new, ex = a["new_op"].z, a["existing_op"].z
            return [("ValueError", z3.Or(h.parent(ex) != me, h.parent(new) != 0, IsAncestor.ANC(new, me)))]
        if m == "add_op":
            new = a["operation"].z
            return [("ValueError", z3.Or(h.parent(new) != 0, IsAncestor.ANC(new, me)))]
        if m == "detach_op":
            return [("ValueError", h.parent(a["op"].z) != me)]
        return []

    # ---- ghost witness ---------------------------------------------------------------------
    def ghost_update(self, old, st, a, res):
        pos = old.ghost["pos_op"]
        ho = H(old)
        me = a["self"].z
        m = self.method
        if m == "insert_op_before":
            new, ex = a["new_op"].z, a["existing_op"].z
            pv = ho.prev(ex)
            return {"pos_op": z3.Store(pos, new, z3.If(pv == 0, pos[ex] - 1, (pos[pv] + pos[ex]) / 2))}
        if m == "insert_op_after":
            new, ex = a["new_op"].z, a["existing_op"].z
            nx = ho.next(ex)
            return {"pos_op": z3.Store(pos, new, z3.If(nx == 0, pos[ex] + 1, (pos[nx] + pos[ex]) / 2))}
        if m == "add_op":
            new = a["operation"].z
            last = ho.last(me)
            return {"pos_op": z3.Store(pos, new, z3.If(last == 0, z3.RealVal(0), pos[last] + 1))}
        return {}

    # ---- postconditions ----------------------------------------------------------------------
    def post(self, old, st, a, res):
        ho, hn = H(old), H(st)
        pos_o, pos_n = old.ghost["pos_op"], st.ghost["pos_op"]
        me = a["self"].z
        out = [Clause(c.name, c.z, "property" if c.name not in ("null-is-untyped", "pos-increases-along-next",
                                                               "detached-op-has-no-siblings", "op-link-types", "block-end-types") else "aux")
               for c in inv_ops(st, pos_n)]
        o, p = z3.Ints("po!o po!p")
        m = self.method
        if m in ("insert_op_before", "insert_op_after", "add_op"):
            new = a["new_op"].z if "new_op" in a else a["operation"].z
            out.append(C("new-op-is-in-this-block", hn.parent(new) == me))
            out.append(C("membership-of-other-ops-unchanged", forall([o], z3.Implies(z3.And(is_op(o), o != new), hn.parent(o) == ho.parent(o)))))
            out.append(C("relative-order-of-other-ops-unchanged", forall([o, p], z3.Implies(
                z3.And(is_op(o), is_op(p), o != new, p != new, ho.parent(o) == ho.parent(p), ho.parent(o) != 0),
                (pos_n[o] < pos_n[p]) == (pos_o[o] < pos_o[p])))))
            if m == "insert_op_before":
                ex = a["existing_op"].z
                out.append(C("placed-immediately-before", z3.And(hn.next(new) == ex, hn.prev(ex) == new, hn.prev(new) == ho.prev(ex))))
            elif m == "insert_op_after":
                ex = a["existing_op"].z
                out.append(C("placed-immediately-after", z3.And(hn.prev(new) == ex, hn.next(ex) == new, hn.next(new) == ho.next(ex))))
            else:
                out.append(C("placed-last", z3.And(hn.last(me) == new, hn.prev(new) == ho.last(me))))
            out.append(A("nothing-but-the-op-list-links-changes",
                         z3.And(*[st.heap[k] == old.heap[k] for k in st.heap if k in old.heap and k not in OP_LIST_FIELDS and k != "alloc"])))
        elif m == "detach_op":
            op = a["op"].z
            out.append(C("returns-the-op", res.z == op))
            out.append(C("op-is-detached", z3.And(hn.parent(op) == 0, hn.next(op) == 0, hn.prev(op) == 0)))
            out.append(C("membership-of-other-ops-unchanged", forall([o], z3.Implies(z3.And(is_op(o), o != op), hn.parent(o) == ho.parent(o)))))
            out.append(C("neighbours-are-joined", z3.And(
                z3.Implies(ho.prev(op) != 0, hn.next(ho.prev(op)) == ho.next(op)),
                z3.Implies(ho.next(op) != 0, hn.prev(ho.next(op)) == ho.prev(op)))))
        return out

    def post_exc(self, old, st, a, exc):
        if exc != "ValueError":
            return None
        # a rejected call leaves the heap exactly as it was (so skipping it is sound)
        names = [k for k in st.heap if k in old.heap and k != "alloc"]
        return [C("rejected-call-changes-nothing", z3.And(*[st.heap[k] == old.heap[k] for k in names]) if names else z3.BoolVal(True))]


# =============================================================================== block lists of regions
POSB = z3.Array("pos_block", I, z3.RealSort())  # ghost: dense position of an attached block inside its region
BLOCK_LIST_FIELDS = ["parent", "_next_block", "_prev_block", "_first_block", "_last_block"]


def is_region(x):
    return KIND[x] == K_REGION


class HB:
    """Block-list field accessors over a symbolic state."""

    def __init__(self, st):
        self.st = st

    def __getattr__(self, name):
        real = {"parent": "parent", "next": "_next_block", "prev": "_prev_block", "first": "_first_block", "last": "_last_block"}[name]
        arr = self.st.fld(real)
        return lambda x: z3.Select(arr, x)


def inv_blocks(st, pos):
    """Representation invariant of the per-region block lists, for ALL blocks and regions (the statement's clauses for blocks)."""
    h = HB(st)
    b, r = z3.Ints("ib!b ib!r")
    P, N, Pv, F, L = h.parent, h.next, h.prev, h.first, h.last
    return [
        A("null-is-untyped", KIND[0] == 0),
        A("block-link-types", forall([b], z3.Implies(is_block(b), z3.And(
            z3.Or(P(b) == 0, is_region(P(b))), z3.Or(N(b) == 0, is_block(N(b))), z3.Or(Pv(b) == 0, is_block(Pv(b))))))),
        A("region-end-types", forall([r], z3.Implies(is_region(r), z3.And(z3.Or(F(r) == 0, is_block(F(r))), z3.Or(L(r) == 0, is_block(L(r))))))),
        A("detached-block-has-no-siblings", forall([b], z3.Implies(z3.And(is_block(b), P(b) == 0), z3.And(N(b) == 0, Pv(b) == 0)))),
        A("next-link-symmetric", forall([b], z3.Implies(z3.And(is_block(b), N(b) != 0), z3.And(Pv(N(b)) == b, P(N(b)) == P(b))))),
        A("prev-link-symmetric", forall([b], z3.Implies(z3.And(is_block(b), Pv(b) != 0), z3.And(N(Pv(b)) == b, P(Pv(b)) == P(b))))),
        A("no-prev-means-first", forall([b], z3.Implies(z3.And(is_block(b), P(b) != 0, Pv(b) == 0), F(P(b)) == b))),
        A("no-next-means-last", forall([b], z3.Implies(z3.And(is_block(b), P(b) != 0, N(b) == 0), L(P(b)) == b))),
        A("first-belongs", forall([r], z3.Implies(z3.And(is_region(r), F(r) != 0), z3.And(P(F(r)) == r, Pv(F(r)) == 0)))),
        A("last-belongs", forall([r], z3.Implies(z3.And(is_region(r), L(r) != 0), z3.And(P(L(r)) == r, N(L(r)) == 0)))),
        A("empty-iff-both-ends-none", forall([r], z3.Implies(is_region(r), (F(r) == 0) == (L(r) == 0)))),
        A("pos-increases-along-next", forall([b], z3.Implies(z3.And(is_block(b), N(b) != 0), pos[N(b)] > pos[b]))),
    ]


class BlockListSpec(Spec):
    """
    Region.add_block / insert_block_before / insert_block_after / detach_block for ONE block (the `Block` form of the argument; the
    iterator loops are then unrolled completely - every path leaves them within two iterations - so no invariant is needed).
    The Iterable form is covered by the bounded explorer only.
    """

    prop, file = PROP, CORE
    modifies = BLOCK_LIST_FIELDS
    ghost_modifies = ["pos_block"]
    unroll = {0: 2}

    def __init__(self, method):
        self.qualname = f"Region.{method}"
        self.method = method
        self.inline = {"self._attach_block": Inline(CORE, "Region._attach_block")}
        self.calls = {"block.is_ancestor": IS_ANCESTOR}
        if method == "insert_block_after":
            self.calls = {"self.add_block": BlockListSpec("add_block"), "self.insert_block_before": BlockListSpec("insert_block_before")}
            self.inline = {}

    @property
    def globals(self):
        def isinst(ex, st, v, cls):
            from pyvc.values import VGlobal

            if isinstance(cls, VGlobal) and cls.text == "Block":
                return True  # the single-block form
            if isinstance(cls, VGlobal) and cls.text == "int":
                return False
            return None

        return {"__isinstance__": isinst, "__field_cls__": parent_cls}

    def setup(self, st, inst):
        st.ghost["pos_block"] = POSB
        a = {"self": VRef(st.declare_input("self", z3.Int("self")), "Region"), "block": VRef(st.declare_input("block", z3.Int("block")), "Block")}
        if self.method in ("insert_block_before", "insert_block_after"):
            a["target"] = VRef(st.declare_input("target", z3.Int("target")), "Block")
        return a

    def pre(self, st, a):
        cs = [is_region(a["self"].z), is_block(a["block"].z)] + ([is_block(a["target"].z)] if "target" in a else [])
        return inv_blocks(st, st.ghost["pos_block"]) + [A("typed-arguments", z3.And(*cs))]

    # ---- callee view
    def exc_cases(self, st, a):
        h = HB(st)
        me, blk = a["self"].z, a["block"].z
        bad_new = z3.Or(h.parent(blk) != 0, IsAncestor.ANC(blk, me))
        if self.method == "add_block":
            return [("ValueError", bad_new)]
        if self.method == "insert_block_before":
            return [("ValueError", z3.Or(h.parent(a["target"].z) != me, bad_new))]
        if self.method == "detach_block":
            return [("ValueError", h.parent(blk) != me)]
        return []

    def ghost_update(self, old, st, a, res):
        pos = old.ghost["pos_block"]
        ho = HB(old)
        me, blk = a["self"].z, a["block"].z
        if self.method == "add_block":
            last = ho.last(me)
            return {"pos_block": z3.Store(pos, blk, z3.If(last == 0, z3.RealVal(0), pos[last] + 1))}
        if self.method == "insert_block_before":
            t = a["target"].z
            pv = ho.prev(t)
            return {"pos_block": z3.Store(pos, blk, z3.If(pv == 0, pos[t] - 1, (pos[pv] + pos[t]) / 2))}
        if self.method == "insert_block_after":
            t = a["target"].z
            nx = ho.next(t)
            last = ho.last(me)
            return {"pos_block": z3.Store(pos, blk, z3.If(nx == 0, z3.If(last == 0, z3.RealVal(0), pos[last] + 1), (pos[nx] + pos[t]) / 2))}
        return {}

    def post(self, old, st, a, res):
        ho, hn = HB(old), HB(st)
        pos_o, pos_n = old.ghost["pos_block"], st.ghost["pos_block"]
        me, blk = a["self"].z, a["block"].z
        aux = ("null-is-untyped", "pos-increases-along-next", "detached-block-has-no-siblings", "block-link-types", "region-end-types")
        out = [Clause(c.name, c.z, "aux" if c.name in aux else "property") for c in inv_blocks(st, pos_n)]
        b, c2 = z3.Ints("pb!b pb!c")
        m = self.method
        frame = A("nothing-but-the-block-list-links-changes",
                  z3.And(*[st.heap[k] == old.heap[k] for k in st.heap if k in old.heap and k not in BLOCK_LIST_FIELDS and k != "alloc"]))
        if m in ("add_block", "insert_block_before", "insert_block_after"):
            out += [C("new-block-is-in-this-region", hn.parent(blk) == me),
                    C("membership-of-other-blocks-unchanged", forall([b], z3.Implies(z3.And(is_block(b), b != blk), hn.parent(b) == ho.parent(b)))),
                    C("parents-of-operations-and-regions-unchanged", forall([b], z3.Implies(z3.Not(is_block(b)), hn.parent(b) == ho.parent(b)))),
                    C("relative-order-of-other-blocks-unchanged", forall([b, c2], z3.Implies(
                        z3.And(is_block(b), is_block(c2), b != blk, c2 != blk, ho.parent(b) == ho.parent(c2), ho.parent(b) != 0),
                        (pos_n[b] < pos_n[c2]) == (pos_o[b] < pos_o[c2]))))]
            if m == "add_block":
                out.append(C("placed-last", z3.And(hn.last(me) == blk, hn.prev(blk) == ho.last(me))))
            elif m == "insert_block_before":
                t = a["target"].z
                out.append(C("placed-immediately-before", z3.And(hn.next(blk) == t, hn.prev(t) == blk, hn.prev(blk) == ho.prev(t))))
            else:
                t = a["target"].z
                out.append(C("placed-immediately-after-a-target-of-this-region", z3.Implies(ho.parent(t) == me, z3.And(hn.prev(blk) == t, hn.next(t) == blk, hn.next(blk) == ho.next(t)))))
            out.append(frame)
        else:
            out += [C("returns-the-block", res.z == blk),
                    C("block-is-detached", z3.And(hn.parent(blk) == 0, hn.next(blk) == 0, hn.prev(blk) == 0)),
                    C("membership-of-other-blocks-unchanged", forall([b], z3.Implies(z3.And(is_block(b), b != blk), hn.parent(b) == ho.parent(b)))),
                    C("parents-of-operations-and-regions-unchanged", forall([b], z3.Implies(z3.Not(is_block(b)), hn.parent(b) == ho.parent(b)))),
                    C("neighbours-are-joined", z3.And(z3.Implies(ho.prev(blk) != 0, hn.next(ho.prev(blk)) == ho.next(blk)),
                                                      z3.Implies(ho.next(blk) != 0, hn.prev(ho.next(blk)) == ho.prev(blk)))),
                    frame]
        return out

    def post_exc(self, old, st, a, exc):
        if exc != "ValueError":
            return None
        names = [k for k in st.heap if k in old.heap and k != "alloc"]
        return [C("rejected-call-changes-nothing", z3.And(*[st.heap[k] == old.heap[k] for k in names]) if names else z3.BoolVal(True))]


# =============================================================================== use lists
USED = z3.Array("used_by_value", I, I)  # ghost: the value/block whose use list contains the Use (0: in no list)
UPOS = z3.Array("pos_use", I, z3.RealSort())  # ghost: dense position inside the use list


def is_use(x):
    return KIND[x] == K_USE


def has_uses(x):
    """SSAValues and Blocks are IRWithUses."""
    return z3.Or(KIND[x] == K_VALUE, KIND[x] == K_BLOCK)


class U:
    def __init__(self, st):
        self.FU = lambda v: st.sel("first_use", v)
        self.NU = lambda u: st.sel("_next_use", u)
        self.PU = lambda u: st.sel("_prev_use", u)
        self.OPN = lambda u: st.sel("_operation", u)
        self.IDX = lambda u: st.sel("_index", u)


def inv_uselists(st, used, upos):
    """Every use list is a well-formed doubly linked list from first_use; `used` says who holds each Use."""
    g = U(st)
    u, v = z3.Ints("iu!u iu!v")
    FU, NU, PU = g.FU, g.NU, g.PU
    return [
        A("null-is-untyped", KIND[0] == 0),
        A("used-typed", forall([u], z3.Implies(z3.And(is_use(u), used[u] != 0), has_uses(used[u])))),
        A("next-use-link", forall([u], z3.Implies(z3.And(is_use(u), used[u] != 0, NU(u) != 0),
                                                  z3.And(is_use(NU(u)), PU(NU(u)) == u, used[NU(u)] == used[u], upos[NU(u)] > upos[u])))),
        A("prev-use-link", forall([u], z3.Implies(z3.And(is_use(u), used[u] != 0, PU(u) != 0),
                                                  z3.And(is_use(PU(u)), NU(PU(u)) == u, used[PU(u)] == used[u])))),
        A("no-prev-means-first-use", forall([u], z3.Implies(z3.And(is_use(u), used[u] != 0, PU(u) == 0), FU(used[u]) == u))),
        A("first-use-belongs", forall([v], z3.Implies(z3.And(has_uses(v), FU(v) != 0),
                                                      z3.And(is_use(FU(v)), used[FU(v)] == v, PU(FU(v)) == 0)))),
    ]


USE_FIELDS = ["first_use", "_next_use", "_prev_use"]


class UseListSpec(Spec):
    """IRWithUses.add_use / remove_use."""

    prop, file = PROP, CORE
    modifies = USE_FIELDS

    def __init__(self, method):
        self.qualname = f"IRWithUses.{method}"
        self.method = method

    def setup(self, st, inst):
        st.ghost["used"] = USED
        st.ghost["upos"] = UPOS
        return {"self": VRef(st.declare_input("self", z3.Int("self")), "IRWithUses"),
                "use": VRef(st.declare_input("use", z3.Int("use")), "Use")}

    def pre(self, st, a):
        me, use = a["self"].z, a["use"].z
        used = st.ghost["used"]
        out = inv_uselists(st, used, st.ghost["upos"]) + [A("typed-arguments", z3.And(has_uses(me), is_use(use)))]
        if self.method == "add_use":
            out.append(A("use-is-in-no-list", used[use] == 0))
        else:
            out.append(A("use-is-in-this-list", used[use] == me))
        return out

    def ghost_update(self, old, st, a, res):
        me, use = a["self"].z, a["use"].z
        used, upos = old.ghost["used"], old.ghost["upos"]
        g = U(old)
        if self.method == "add_use":
            return {"used": z3.Store(used, use, me),
                    "upos": z3.Store(upos, use, z3.If(g.FU(me) == 0, z3.RealVal(0), upos[g.FU(me)] - 1))}
        return {"used": z3.Store(used, use, z3.IntVal(0))}

    def post(self, old, st, a, res):
        me, use = a["self"].z, a["use"].z
        go, gn = U(old), U(st)
        used_o, used_n = old.ghost["used"], st.ghost["used"]
        out = [Clause(c.name, c.z, "property" if "link" in c.name or "first" in c.name else "aux")
               for c in inv_uselists(st, used_n, st.ghost["upos"])]
        u = z3.Int("pu!u")
        out.append(C("membership-of-other-uses-unchanged", forall([u], z3.Implies(u != use, used_n[u] == used_o[u]))))
        if self.method == "add_use":
            out.append(C("use-is-now-in-this-list", z3.And(used_n[use] == me, gn.FU(me) == use, gn.NU(use) == go.FU(me))))
        else:
            out.append(C("use-is-in-no-list", used_n[use] == 0))
            out.append(C("neighbours-are-joined", z3.And(
                z3.Implies(go.PU(use) != 0, gn.NU(go.PU(use)) == go.NU(use)),
                z3.Implies(go.NU(use) != 0, gn.PU(go.NU(use)) == go.PU(use)),
                z3.Implies(go.PU(use) == 0, gn.FU(me) == go.NU(use)))))
        out.append(A("only-use-links-change", z3.And(*[st.heap[k] == old.heap[k] for k in st.heap if k in old.heap and k not in USE_FIELDS and k != "alloc"])))
        return out


ADD_USE, REMOVE_USE = UseListSpec("add_use"), UseListSpec("remove_use")


def inv_operands(st, used, what="operand"):
    """Link between operand (successor) tuples and the use lists, for ALL operations."""
    g = U(st)
    vals, uses = ("_operands", "_operand_uses") if what == "operand" else ("_successors", "_successor_uses")
    o, i, u = z3.Ints("io!o io!i io!u")
    n_u = st.seq_len(uses, o)
    n_v = st.seq_len(vals, o)
    ui = st.seq_el(uses, o, i)
    vkind = K_VALUE if what == "operand" else K_BLOCK
    return [
        A(f"{what}-uses-not-longer", forall([o], z3.Implies(is_op(o), z3.And(n_u >= 0, n_v >= 0, n_u <= n_v)))),
        A(f"{what}-use-records-user-and-position", forall([o, i], z3.Implies(z3.And(is_op(o), i >= 0, i < n_u), z3.And(
            is_use(ui), g.OPN(ui) == o, g.IDX(ui) == i, used[ui] == st.seq_el(vals, o, i), KIND[st.seq_el(vals, o, i)] == vkind)))),
        A(f"listed-use-is-an-{what}", forall([u], z3.Implies(z3.And(is_use(u), used[u] != 0, KIND[used[u]] == vkind), z3.And(
            is_op(g.OPN(u)), g.IDX(u) >= 0, g.IDX(u) < st.seq_len(uses, g.OPN(u)), st.seq_el(uses, g.OPN(u), g.IDX(u)) == u)))),
    ]


class SetItemSpec(Spec):
    """OpOperands.__setitem__ / OpSuccessors.__setitem__: op.operands[idx] = value."""

    prop, file = PROP, CORE
    calls = {".remove_use": REMOVE_USE, ".add_use": ADD_USE}

    def __init__(self, what):
        self.what = what
        self.qualname = "OpOperands.__setitem__" if what == "operand" else "OpSuccessors.__setitem__"
        self.vals, self.uses = ("_operands", "_operand_uses") if what == "operand" else ("_successors", "_successor_uses")
        self.argname = what
        self.modifies = USE_FIELDS + [self.vals + "#len", self.vals + "#el"]

    def setup(self, st, inst):
        st.ghost["used"] = USED
        st.ghost["upos"] = UPOS
        return {"self": VRef(st.declare_input("self", z3.Int("self")), "OpOperands"),
                "idx": VInt(st.declare_input("idx", z3.Int("idx"))),
                self.argname: VRef(st.declare_input("value", z3.Int("value")), "IRWithUses")}

    def pre(self, st, a):
        used = st.ghost["used"]
        op = st.sel("_op", a["self"].z)
        v = a[self.argname].z
        vkind = K_VALUE if self.what == "operand" else K_BLOCK
        return (inv_uselists(st, used, st.ghost["upos"]) + inv_operands(st, used, "operand") + inv_operands(st, used, "successor") + [
            A("typed-arguments", z3.And(is_op(op), KIND[v] == vkind)),
            A("op-holds-live-uses", st.seq_len(self.uses, op) == st.seq_len(self.vals, op))])

    def ghost_update(self, old, st, a, res):
        return {}

    def post(self, old, st, a, res):
        used_o, used_n = old.ghost["used"], st.ghost["used"]
        op = old.sel("_op", a["self"].z)
        v = a[self.argname].z
        n = old.seq_len(self.vals, op)
        idx = a["idx"].z
        k = z3.If(idx < 0, idx + n, idx)
        j, u, o2 = z3.Ints("ps!j ps!u ps!o")
        use_k = old.seq_el(self.uses, op, k)
        out = [Clause(c.name, c.z, "property" if "link" in c.name or "first" in c.name else "aux")
               for c in inv_uselists(st, used_n, st.ghost["upos"])]
        out += [Clause(c.name, c.z, "property") for c in inv_operands(st, used_n, "operand") + inv_operands(st, used_n, "successor")]
        out += [
            C("same-number-of-values", st.seq_len(self.vals, op) == n),
            C("position-holds-new-value", st.seq_el(self.vals, op, k) == v),
            C("other-positions-unchanged", forall([j], z3.Implies(z3.And(j >= 0, j < n, j != k),
                                                                    st.seq_el(self.vals, op, j) == old.seq_el(self.vals, op, j)))),
            C("use-moved-to-new-value", used_n[use_k] == v),
            C("other-uses-stay-where-they-were", forall([u], z3.Implies(u != use_k, used_n[u] == used_o[u]))),
            C("other-ops-untouched", forall([o2], z3.Implies(o2 != op, z3.And(
                st.seq_len(self.vals, o2) == old.seq_len(self.vals, o2), st.seq_arr(self.vals, o2) == old.seq_arr(self.vals, o2))))),
            A("uses-tuple-unchanged", z3.And(st.fld(self.uses + "#len") == old.fld(self.uses + "#len"),
                                             st.arr2(self.uses + "#el") == old.arr2(self.uses + "#el"))),
        ]
        return out

    def post_exc(self, old, st, a, exc):
        if exc != "IndexError":
            return None
        op = old.sel("_op", a["self"].z)
        n = old.seq_len(self.vals, op)
        idx = a["idx"].z
        names = [k for k in st.heap if k in old.heap and k != "alloc"]
        return [C("IndexError-only-out-of-range", z3.Or(idx >= n, idx < -n)),
                C("rejected-call-changes-nothing", z3.And(*[st.heap[k] == old.heap[k] for k in names]))]


def make_specs(tier):
    specs = [IS_ANCESTOR]
    for m in ("insert_op_before", "insert_op_after", "add_op", "detach_op"):
        specs.append(OpListSpec(m))
    specs += [ADD_USE, REMOVE_USE, SetItemSpec("operand"), SetItemSpec("successor")]
    for m in ("add_block", "insert_block_before", "insert_block_after", "detach_block"):
        specs.append(BlockListSpec(m))
    return specs


# =============================================================================== scans
LINK_FIELDS = {"_next_op", "_prev_op", "_first_op", "_last_op", "_next_block", "_prev_block", "_first_block", "_last_block", "first_use",
               "_next_use", "_prev_use", "_operands", "_operand_uses", "_successors", "_successor_uses", "_args", "regions", "results",
               "_operation", "_index"}

# every function in xdsl/ that assigns a link field, with its status
UNDER_CONTRACT = {
    ("xdsl/ir/core.py", "Block.add_op"), ("xdsl/ir/core.py", "Block.detach_op"), ("xdsl/ir/core.py", "Block.insert_op_after"),
    ("xdsl/ir/core.py", "Block.insert_op_before"), ("xdsl/ir/core.py", "Operation._insert_next_op"),
    ("xdsl/ir/core.py", "Operation._insert_prev_op"), ("xdsl/ir/core.py", "IRWithUses.add_use"), ("xdsl/ir/core.py", "IRWithUses.remove_use"),
    ("xdsl/ir/core.py", "OpOperands.__setitem__"), ("xdsl/ir/core.py", "OpSuccessors.__setitem__"),
    # single-block form under contract; the Iterable form of add_block / insert_block_before stays with the bounded explorer
    ("xdsl/ir/core.py", "Region.add_block"), ("xdsl/ir/core.py", "Region.detach_block"), ("xdsl/ir/core.py", "Region.insert_block_before"),
    ("xdsl/ir/core.py", "Region._attach_block"),
}
BOUNDED_ONLY = {  # writers covered by the bounded explorer (contracts.C01_native), not by a discharged contract
    ("xdsl/ir/core.py", "Block.__init__"), ("xdsl/ir/core.py", "Block.drop_all_references"), ("xdsl/ir/core.py", "Block.erase_arg"),
    ("xdsl/ir/core.py", "Block.insert_arg"), ("xdsl/ir/core.py", "Block.split_before"), ("xdsl/ir/core.py", "Operation.__init__"),
    ("xdsl/ir/core.py", "Operation.add_region"), ("xdsl/ir/core.py", "Operation.detach_region"),
    ("xdsl/ir/core.py", "Operation.drop_all_references"), ("xdsl/ir/core.py", "Operation.operands"), ("xdsl/ir/core.py", "Operation.successors"),
    ("xdsl/ir/core.py", "Region.move_blocks"), ("xdsl/ir/core.py", "Region.move_blocks_before"),
    ("xdsl/rewriter.py", "Rewriter.replace_value_with_new_type"),
}
NOT_IR = {  # same attribute names on classes that are not xdsl.ir nodes, or excluded from the claim
    ("xdsl/interpreters/irdl.py", "IRDLFunctions.run_results"), ("xdsl/irdl/declarative_assembly_format.py", "ParsingState.__init__"),
    ("xdsl/rewriting/composable_rewriting/immutable_ir/immutable_ir.py", "IOperation.__init__"),
    ("xdsl/transforms/test_constant_folding.py", "TestSpecialisedConstantFoldingPass.apply"),
}


def scan_writers():
    import ast as _ast

    found = set()
    root = os.path.join(extract.REPO, "xdsl")
    for d, _, fs in os.walk(root):
        for f in fs:
            if not f.endswith(".py"):
                continue
            p = os.path.join(d, f)
            rel = os.path.relpath(p, extract.REPO)
            tree = _ast.parse(open(p, encoding="utf-8").read())
            stack = []

            def visit(n):
                pushed = False
                if isinstance(n, (_ast.FunctionDef, _ast.AsyncFunctionDef, _ast.ClassDef)):
                    stack.append(n.name)
                    pushed = True
                if isinstance(n, _ast.Attribute) and isinstance(n.ctx, (_ast.Store, _ast.Del)) and n.attr in LINK_FIELDS:
                    found.add((rel, ".".join(stack)))
                if isinstance(n, _ast.Call) and _ast.unparse(n.func) in ("object.__setattr__", "setattr") and len(n.args) >= 2 \
                        and isinstance(n.args[1], _ast.Constant) and n.args[1].value in LINK_FIELDS:
                    found.add((rel, ".".join(stack)))
                for c in _ast.iter_child_nodes(n):
                    visit(c)
                if pushed:
                    stack.pop()

            visit(tree)
    unknown = found - UNDER_CONTRACT - BOUNDED_ONLY - NOT_IR
    note = (f"{len(found)} functions assign IR link fields: {len(found & UNDER_CONTRACT)} under discharged contracts, "
            f"{len(found & BOUNDED_ONLY)} covered by the bounded explorer only, {len(found & NOT_IR)} not IR / excluded "
            f"(TestSpecialisedConstantFoldingPass.apply writes link fields by hand and is excluded from the claim)")
    if unknown:
        return False, note + f"; UNLISTED WRITERS: {sorted(unknown)}"
    return True, note


def scan_truthiness():
    from xdsl.ir import Block, Operation, Region, Use

    bad = [c.__name__ for c in (Block, Operation, Region, Use) if any("__bool__" in k.__dict__ or "__len__" in k.__dict__ for k in c.__mro__[:-1])]
    return (not bad), ("Operation/Block/Region/Use have no __bool__/__len__: `if x.parent:` means `is not None`" if not bad
                       else f"classes with custom truthiness: {bad}")


SCANS = [("link-field-writers", scan_writers), ("reference-truthiness", scan_truthiness)]

from contracts import C01_native as N01

NATIVE = [("ir-mutation-sequences", N01.explore)]


def _search(self, inst, seed):
    r = N01.explore("quick", seed)
    return r["failures"][0] if r["failures"] else None


Spec.native_search_c01 = _search
for _cls in ("OpListSpec", "UseListSpec", "SetItemSpec", "BlockListSpec"):
    globals()[_cls].native_search = _search

ASSUMPTIONS = [
    "the heap is finite (needed to turn the local invariant + ghost position into 'met exactly once in both walks')",
    "Operation, Block, Region, Use define neither __bool__ nor __len__: truthiness of a reference is `is not None` (checked on the live classes by the scan)",
    "_IRNode.is_ancestor is assumed pure and total (trusted contract); cycles through region nesting are excluded by its check, not re-proved",
    "composite API (Rewriter.*, PatternRewriter.*, Builder.insert, erase family, split_before, move_blocks*, block-list and argument/region-list "
    "primitives, operands/successors setters) is NOT under discharged contracts yet: covered by the bounded explorer and by the writer scan only",
    "exceptional exits are proved state-preserving only for the functions under contract; Region.add_block/insert_block_before may raise after partial linking",
    "code outside /repo/xdsl does not write private link fields",
]

SPECS = make_specs(os.environ.get("VERIF_TIER", "quick"))
