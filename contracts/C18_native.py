"""
Bounded stand-in for C18 (pass pipeline specifications round-trip through text), the real functions of xdsl/utils/arg_spec.py and
xdsl/passes.py:

  element   ArgSpec("p", {k: values}) -> str -> parse_spec gives back an EQUAL spec (same values AND same Python types: bool is not int, a
            quoted "true"/"12" stays a string) for generated ints, bools, floats, strings over a hostile alphabet, tuples, empty tuples
  passes    every registered pass class x generated option values per declared field type: str(p.spec()) -> PassPipeline.parse_spec ->
            equal pass; a pipeline of several passes printed with "," parses to the same pipeline
  robust    parsing ANY string either yields specs or raises ArgSpecParseError (pipeline parse error) / ValueError (option error): all strings
            of length <= 3 over the token alphabet (exhaustive) + seeded longer ones
"""

from __future__ import annotations

import dataclasses
import itertools
import math
import random
import typing

from contracts.common import rechecked

STRINGS = ["", "a", "true", "false", "True", "12", "-3", "1.5", "1e5", "a b", "a,b", "a=b", "{x}", "[y]", "a-b_c", 'q"uote', "back\\slash", "new\nline",
           "tab\tx", "ünï", "日本", "\\", '"', "\\n", "x\\\"y", " lead", "trail ", "mlir-opt", "null\x00", "\r", "\f", "\v", "'", "#%&*()", "a\\", 'end"']
INTS = [0, 1, -1, 7, 42, -2**31, 2**63, 10**30, -10**30]
FLOATS = [0.0, -0.0, 1.0, -1.5, 0.1, 1e-07, 1.5e-07, 1e22, 1e16, 123456789.123, 5e-324, 1.7976931348623157e308, float("inf"), float("-inf"), float("nan")]
BOOLS = [True, False]


def same(a, b):
    """Equal values of the same Python type (True != 1, 1.0 != 1); NaN equals NaN; floats compared bit-wise through repr."""
    if type(a) is not type(b):
        return False
    if isinstance(a, tuple):
        return len(a) == len(b) and all(same(x, y) for x, y in zip(a, b))
    if isinstance(a, float):
        return (math.isnan(a) and math.isnan(b)) or (a == b and math.copysign(1, a) == math.copysign(1, b))
    return a == b


def classify(v):
    """Input classes named by the known findings."""
    vals = v if isinstance(v, tuple) else (v,)
    return {
        "string_contains_cr_ff_or_vt": any(isinstance(x, str) and any(c in x for c in "\r\f\v") for x in vals),
        "float_is_inf_or_nan": any(isinstance(x, float) and (math.isinf(x) or math.isnan(x)) for x in vals),
        "string_contains_nul": any(isinstance(x, str) and "\x00" in x for x in vals),
    }


@rechecked
def check_element(values):
    from xdsl.utils.arg_spec import ArgSpec, parse_spec
    from xdsl.utils.exceptions import ArgSpecParseError

    values = tuple(values)
    spec = ArgSpec("some-pass", {"opt": values, "other": (1,)})
    text = str(spec)
    try:
        back = parse_spec(text)
    except (ArgSpecParseError, Exception) as e:  # noqa: B014  (ArgSpecParseError derives from BaseException)
        return {"key": "C18/element", "what": f"printed spec does not parse back: {type(e).__name__}", "values": repr(values), "text": text, "inputs": classify(values)}
    got = back.parameters.get("opt")
    if back.name != spec.name or got is None or not same(got, values) or not same(back.parameters.get("other"), (1,)):
        return {"key": "C18/element", "what": "printed spec parses back to a different value", "values": repr(values), "text": text, "parsed": repr(back.parameters), "inputs": classify(values)}
    return None


# ------------------------------------------------------------------ registered passes
def field_values(tp, rnd):
    """Up to a few values of a declared option type (None = unsupported type: the field is left at its default)."""
    origin = typing.get_origin(tp)
    args = typing.get_args(tp)
    if tp is bool:
        return [True, False]
    if tp is int:
        return [0, -1, 123456789]
    if tp is float:
        return [0.5, 1e-07, 1e22]
    if tp is str:
        return ["x", "true", "a b", 'q"uo\\te', "12", "new\nline", "ünï,="]
    if origin is typing.Literal:
        return list(args)
    if origin is tuple and len(args) == 2 and args[1] is Ellipsis:
        inner = field_values(args[0], rnd)
        if inner is None:
            return None
        return [(inner[0],), tuple(inner[:3]), (inner[-1], inner[0]), ()]
    if origin in (typing.Union, getattr(__import__("types"), "UnionType")):
        out = []
        for a in args:
            if a is type(None):
                out.append(None)
            else:
                vs = field_values(a, rnd)
                if vs is None:
                    return None
                out += vs[:3]
        return out
    return None


@rechecked
def check_pass(pass_name, choice_seed):
    from xdsl.passes import PassPipeline
    from xdsl.transforms import get_all_passes
    from xdsl.utils.exceptions import ArgSpecParseError

    allp = get_all_passes()
    cls = allp[pass_name]()
    rnd = random.Random(f"{pass_name}/{choice_seed}")
    hints = typing.get_type_hints(cls)
    kwargs = {}
    for f in dataclasses.fields(cls):
        if f.name == "name" or not f.init:
            continue
        vs = field_values(hints[f.name], rnd)
        required = f.default is dataclasses.MISSING and f.default_factory is dataclasses.MISSING
        if vs is None:
            if required:
                return None  # a required option of an unsupported type: the pass is outside the statement's scope
            continue
        if required or rnd.random() < 0.8:
            kwargs[f.name] = rnd.choice(vs)
    try:
        p = cls(**kwargs)
    except Exception:
        return None  # the pass rejects this combination in __post_init__: not an instance to round-trip
    text = str(p.spec())
    flat = tuple(x for v in kwargs.values() for x in (v if isinstance(v, tuple) else (v,)) if x is not None)
    inputs = dict(classify(flat), optional_tuple_field_holds_the_empty_tuple=any(v == () for v in kwargs.values()))
    try:
        back = PassPipeline.parse_spec(allp, text).passes
    except (ArgSpecParseError, Exception) as e:  # noqa: B014
        return {"key": "C18/passes", "what": f"printed pass does not parse back: {type(e).__name__}: {str(e)[:150]}", "pass": pass_name, "options": repr(kwargs), "text": text, "inputs": inputs}
    if len(back) != 1 or back[0] != p or any(not same(getattr(back[0], k), getattr(p, k)) for k in kwargs):
        return {"key": "C18/passes", "what": "printed pass parses back to a different pass", "pass": pass_name, "options": repr(kwargs), "text": text, "parsed": repr(back), "inputs": inputs}
    return None


def make_pass(pass_name, choice_seed):
    """An instance of a registered pass with generated option values (None if the pass needs options of an unsupported type or rejects the combination)."""
    from xdsl.transforms import get_all_passes

    cls = get_all_passes()[pass_name]()
    rnd = random.Random(f"{pass_name}/{choice_seed}")
    hints = typing.get_type_hints(cls)
    kwargs = {}
    for f in dataclasses.fields(cls):
        if f.name == "name" or not f.init:
            continue
        vs = field_values(hints[f.name], rnd)
        required = f.default is dataclasses.MISSING and f.default_factory is dataclasses.MISSING
        if vs is None:
            if required:
                return None
            continue
        if required or rnd.random() < 0.8:
            kwargs[f.name] = rnd.choice(vs)
    try:
        return cls(**kwargs)
    except Exception:  # noqa: BLE001
        return None


@rechecked
def check_pipeline_with_options(names, choice_seed):
    """A pipeline in which passes carry options and the SAME pass may occur several times with different options: printed with ',' it parses back to the same pipeline."""
    from xdsl.passes import PassPipeline
    from xdsl.transforms import get_all_passes

    allp = get_all_passes()
    ps = [make_pass(n, f"{choice_seed}/{i}") for i, n in enumerate(names)]
    if any(p is None for p in ps):
        return None
    text = ",".join(str(p.spec()) for p in ps)
    try:
        back = PassPipeline.parse_spec(allp, text).passes
    except BaseException as e:  # noqa: BLE001
        flat = tuple(x for p in ps for v in dataclasses.asdict(p).values() for x in (v if isinstance(v, tuple) else (v,)) if x is not None)
        return {"key": "C18/pipeline", "what": f"printed pipeline does not parse back: {type(e).__name__}: {str(e)[:120]}", "text": text, "inputs": classify(flat)}
    if tuple(back) != tuple(ps):
        return {"key": "C18/pipeline", "what": "printed pipeline parses to a different pipeline", "text": text, "parsed": ",".join(str(p.spec()) for p in back)[:300], "inputs": {}}
    return None


@rechecked
def check_pipeline(names, choice_seed):
    from xdsl.passes import PassPipeline
    from xdsl.transforms import get_all_passes

    allp = get_all_passes()
    ps = []
    for n in names:
        cls = allp[n]()
        try:
            ps.append(cls())
        except Exception:
            return None
    text = ",".join(str(p.spec()) for p in ps)
    back = PassPipeline.parse_spec(allp, text).passes
    if tuple(back) != tuple(ps):
        return {"key": "C18/pipeline", "what": "printed pipeline parses to a different pipeline", "text": text, "inputs": {}}
    return None


ALPHABET = ['a', '1', '-', '{', '}', '=', ',', ' ', '"', '\\', '[', ']', '.', 'e', '+', 'n', 't']


@rechecked
def check_robust(s):
    from xdsl.utils.arg_spec import parse_pipeline
    from xdsl.utils.exceptions import ArgSpecParseError

    try:
        list(parse_pipeline(s))
    except ArgSpecParseError:
        return None
    except ValueError:
        return None  # option error family
    except BaseException as e:  # noqa: BLE001
        return {"key": "C18/robust", "what": f"parse_pipeline raised {type(e).__name__}: {str(e)[:120]} (neither a pipeline parse error nor an option error)", "string": repr(s), "inputs": {}}
    return None


def explore(tier, seed):
    from xdsl.transforms import get_all_passes

    rnd = random.Random(seed)
    fails, seen, cases = [], set(), 0

    def note(f):
        if f:
            k = (f["key"], tuple(sorted(k for k, v in (f.get("inputs") or {}).items() if v)))
            if k not in seen:
                seen.add(k)
                fails.append(f)

    singles = [(v,) for v in STRINGS + INTS + FLOATS + BOOLS]
    for vs in singles + [()] + [tuple(rnd.choice(STRINGS + INTS + BOOLS) for _ in range(rnd.randrange(2, 5))) for _ in range(60 if tier == "quick" else 600)]:
        cases += 1
        note(check_element(list(vs)))
    names = sorted(get_all_passes())
    for n in names:
        for k in range(6 if tier == "quick" else 40):
            cases += 1
            note(check_pass(n, f"{seed}/{k}"))
    for k in range(20 if tier == "quick" else 200):
        cases += 1
        note(check_pipeline(rnd.sample(names, rnd.randrange(2, 5)), k))
    # pipelines whose passes carry options, with REPEATED passes (same name, independently generated options)
    with_opts = [n for n in names if any(make_pass(n, f"probe/{k}") is not None and dataclasses.asdict(make_pass(n, f"probe/{k}")) for k in range(2))]
    for k in range(60 if tier == "quick" else 600):
        pick = [rnd.choice(with_opts) for _ in range(rnd.randrange(1, 3))]
        pick = pick + [rnd.choice(pick)] + ([rnd.choice(names)] if rnd.random() < 0.5 else [])
        rnd.shuffle(pick)
        cases += 1
        note(check_pipeline_with_options(pick, f"{seed}/{k}"))
    maxlen = 3 if tier == "quick" else 4
    for L in range(0, maxlen + 1):
        for t in itertools.product(ALPHABET, repeat=L):
            cases += 1
            note(check_robust("".join(t)))
    for _ in range(2000 if tier == "quick" else 20000):
        cases += 1
        note(check_robust("".join(rnd.choice(ALPHABET) for _ in range(rnd.randrange(4, 14)))))
    return {"cases": cases, "failures": fails, "exhaustive": False, "nontrivial": cases,
            "bound": f"{len(singles)} single values + seeded tuples through ArgSpec.__str__/parse_spec; {len(names)} registered passes x seeded option assignments per declared field type; "
                     f"seeded pipelines of 2-4 passes, and of 2-4 passes with generated options in which one pass occurs twice; robustness: ALL strings of length <= {maxlen} over a {len(ALPHABET)}-character token alphabet + seeded strings of length 4-13"}


NATIVE = [("pipeline-spec-roundtrip", explore)]
