"""
Bounded stand-in for C13: generated CFG regions mixing pure, reading, writing, unknown, symbol and
terminator ops, dead cycles, unreachable blocks and nested regions; region_dce / dce / the trivial
dead removal of the greedy driver are run on the real code and compared with an independent
liveness oracle written from the statement.
"""

from __future__ import annotations

import itertools
import random

from contracts.common import rechecked
from contracts.ir_native import Broken, check_invariants

KINDS = ["pure", "read", "write", "unknown", "symbol"]


def mk(kind, operands, nres, regions=()):
    from xdsl.dialects import test
    from xdsl.dialects.builtin import i32

    cls = {"pure": test.TestPureOp, "read": test.TestReadOp, "write": test.TestWriteOp, "unknown": test.TestOp}.get(kind)
    if kind == "symbol":
        return test.TestSymbolOp.create(properties={"sym_name": __import__("xdsl.dialects.builtin", fromlist=["StringAttr"]).StringAttr("s")},
                                        operands=[], result_types=[])
    return cls.create(operands=list(operands), result_types=[i32] * nres, regions=list(regions))


def build(spec):
    """
    spec = {"blocks": [{"ops": [(kind, [operand refs], nres, nested)], "succ": [block idx]}], ...}
    operand ref = (block idx, op idx, result idx) resolved modulo availability; nested = None | sub-spec (single block, ops only)
    """
    from xdsl.dialects import test
    from xdsl.dialects.builtin import ModuleOp
    from xdsl.ir import Block, Region

    blocks = [Block() for _ in spec["blocks"]]
    made = {}
    for bi, bs in enumerate(spec["blocks"]):
        for oi, (kind, refs, nres, nested) in enumerate(bs["ops"]):
            regions = []
            if nested is not None:
                nb = Block()
                for ni, (k2, refs2, nres2, _n) in enumerate(nested):
                    no = mk(k2, [], nres2)
                    nb.add_op(no)
                    made[(bi, oi, ni)] = (no, refs2)
                if len(nested) % 2:
                    nb.add_op(test.TestTermOp.create())
                regions = [Region([nb])]
            o = mk(kind, [], nres, regions)
            made[(bi, oi)] = (o, refs)
            blocks[bi].add_op(o)
    allres = [(k, o.results) for k, (o, _) in made.items() if o.results and len(k) == 2]
    for _k, (o, refs) in made.items():
        if o.name == "test.op_with_symbol" or not allres:
            continue
        ops = []
        for r in refs:
            k, res = allres[r % len(allres)]
            ops.append(res[(r // 7) % len(res)])
        o.operands = ops
    for bi, bs in enumerate(spec["blocks"]):
        if bs["succ"] is not None:
            succs = [blocks[s % len(blocks)] for s in bs["succ"]]
            if bs.get("unregistered_terminator"):
                # a terminator of an unregistered dialect (allowed with --allow-unregistered-dialect): its successors are control-flow edges too
                from xdsl.dialects.builtin import UnregisteredOp

                blocks[bi].add_op(UnregisteredOp.with_name("mycf.br").create(successors=succs))
            else:
                blocks[bi].add_op(test.TestTermOp.create(successors=succs))
    top = test.TestOp.create(regions=[Region(blocks)])
    region = top.regions[0]
    # keep the input valid: an op in a reachable block must not use a value defined in an unreachable block
    reach = {id(b) for b in reachable(region)}
    top_blocks = {id(b) for b in _blocks(region)}

    def top_block_of(o):
        cur = o
        while id(cur.parent) not in top_blocks:
            cur = cur.parent.parent.parent
        return cur.parent

    for k, (o, _) in made.items():
        if id(top_block_of(o)) not in reach:
            continue
        # defs must be visible: a top-level op of a reachable block (nested results are not visible outside their region)
        keep = [v for v in o._operands if id(v.op.parent) in reach and (len(k) == 2 or v.op.parent is not o.parent)]
        keep = [v for v in keep if id(v.op.parent) in top_blocks]
        if len(k) == 3:
            # a nested op cannot see the results of the op that contains it
            keep = [v for v in keep if v.op is not o.parent.parent.parent]
        if len(keep) != len(o._operands):
            o.operands = keep
    return ModuleOp([top]), region


def gen(rnd):
    nb = rnd.choice([1, 2, 3, 4])
    blocks = []
    for b in range(nb):
        ops = []
        for _ in range(rnd.randrange(0, 4)):
            kind = rnd.choice(KINDS[:4]) if rnd.random() < 0.9 else "symbol"
            nested = None
            if rnd.random() < 0.15 and kind != "symbol":
                nested = [(rnd.choice(KINDS[:4]), [rnd.randrange(0, 40) for _ in range(rnd.randrange(0, 2))], rnd.randrange(0, 2), None)
                          for _ in range(rnd.randrange(0, 3))]
            ops.append((kind, [rnd.randrange(0, 40) for _ in range(rnd.randrange(0, 3))], rnd.randrange(0, 3), nested))
        succ = [rnd.randrange(0, nb) for _ in range(rnd.randrange(0, 3))]
        blocks.append({"ops": ops, "succ": succ, "unregistered_terminator": rnd.random() < 0.25})
    return {"blocks": blocks}


# ------------------------------------------------------------------ oracle
def _ops(b):
    out, o = [], b._first_op
    while o is not None:
        out.append(o)
        o = o._next_op
    return out


def _blocks(r):
    out, b = [], r._first_block
    while b is not None:
        out.append(b)
        b = b._next_block
    return out


def effects_known_harmless(op):
    """From the statement: not a terminator, not a symbol, no possibly observable effect."""
    n = op.name
    if n in ("test.termop", "test.op_with_symbol", "builtin.unregistered"):
        return False  # (an op of an unregistered dialect has unknown effects and may be a terminator)
    if n in ("test.op", "test.op_with_memwrite"):
        return False
    if n in ("test.pureop", "test.op_with_memread"):
        return True
    raise KeyError(n)


def reachable(region):
    bl = _blocks(region)
    if not bl:
        return []
    seen, work = {id(bl[0])}, [bl[0]]
    out = [bl[0]]
    while work:
        b = work.pop()
        last = b._last_op
        if last is not None and last.name in ("test.termop", "builtin.unregistered"):
            for s in last._successors:
                if id(s) not in seen:
                    seen.add(id(s))
                    out.append(s)
                    work.append(s)
    return out


def oracle_live(region):
    """
    Least set of ops that must stay, over the whole op tree: an op stays iff its parent stays (or it is at the top), its block is
    reachable in its region, and it is observable or (transitively) defines an operand of an op that stays.
    """
    def all_ops(r, acc):
        for b in _blocks(r):
            for o in _ops(b):
                acc.append(o)
                for rr in o.regions:
                    all_ops(rr, acc)
        return acc

    ops = all_ops(region, [])
    reach_cache = {}

    def in_reachable_block(o):
        r = o.parent.parent
        if id(r) not in reach_cache:
            reach_cache[id(r)] = {id(b) for b in reachable(r)}
        return id(o.parent) in reach_cache[id(r)]

    def parent_op(o):
        p = o.parent.parent.parent
        return None if p is region.parent else p

    live = {}
    changed = True
    while changed:
        changed = False
        for o in ops:
            if id(o) in live or not in_reachable_block(o):
                continue
            p = parent_op(o)
            if p is not None and id(p) not in live:
                continue
            if (not effects_known_harmless(o)) or any(id(u.operation) in live for r in o.results for u in r.uses):
                live[id(o)] = o
                changed = True
    return reachable(region), ops, live


def structure(region, live=None):
    """Remaining structure as nested lists of op identities (restricted to `live` ops of reachable blocks when given)."""
    out = []
    for b in (reachable(region) if live is not None else _blocks(region)):
        row = []
        for o in _ops(b):
            if live is not None and id(o) not in live:
                continue
            row.append((id(o), [structure(r, live) for r in o.regions]))
        out.append((id(b), row))
    if live is not None:
        order = {id(b): i for i, b in enumerate(_blocks(region))}
        out.sort(key=lambda x: order[x[0]])
    return out


@rechecked
def check_region_dce(spec, entry):
    from xdsl.transforms.dead_code_elimination import dce, region_dce

    module, region = build(spec)
    reach, ops, live = oracle_live(region)
    expected = structure(region, live)
    dead_user = False
    for p_ in ops:
        if id(p_) in live or not p_.regions:
            continue
        inside = {id(x) for x in p_.walk()}
        for x in p_.walk():
            if x is not p_ and any(id(v.op) not in inside for v in x._operands):
                dead_user = True
    before = str(module)
    try:
        if entry == "region_dce":
            region_dce(region)
        else:
            dce(module)
    except Exception as e:  # noqa: BLE001
        return {"entry": entry, "program": before, "raised": repr(e), "key": f"C13/{entry}"}
    try:
        check_invariants([module])
    except Broken as e:
        return {"entry": entry, "program": before, "after": str(module), "broken IR": str(e), "key": f"C13/{entry}"}
    got_blocks = [id(b) for b in _blocks(region)]
    if entry == "region_dce":
        got = structure(region)
        if got != expected:
            return {"entry": entry, "program": before, "after": str(module), "inputs": {"dead_region_op_contains_a_user_of_an_outer_value": dead_user},
                    "why": "remaining ops/blocks (at every nesting level) differ from the oracle: an op that must stay was removed, or a removable op / unreachable block was kept",
                    "key": f"C13/{entry}"}
    else:
        # the trivial-dead pattern: removes only harmless ops without (remaining) uses; never blocks; fixpoint: no trivially dead op remains
        if got_blocks != [id(b) for b in _blocks(region)] or len(got_blocks) != len(spec["blocks"]):
            return {"entry": entry, "program": before, "after": str(module), "why": "dce pattern removed a block", "key": f"C13/{entry}"}
        orig = {id(o): o for b in _blocks(region) for o in _ops(b)}
        for b in _blocks(region):
            for o in _ops(b):
                if effects_known_harmless(o) and all(r.first_use is None for r in o.results):
                    return {"entry": entry, "program": before, "after": str(module), "why": f"trivially dead {o.name} remains", "key": f"C13/{entry}"}
        # every observable op of the original program is still there
        _, ops0, _ = None, None, None
    # erased values must not be used by what remains
    for b in _blocks(region):
        for o in _ops(b):
            for v in o._operands:
                if type(v).__name__ == "ErasedSSAValue":
                    return {"entry": entry, "program": before, "after": str(module), "why": "a remaining op uses an erased value", "key": f"C13/{entry}"}
    return None


@rechecked
def check_observable_kept(spec):
    """dce (pattern): every op that is a terminator, a symbol or has possibly observable effects survives."""
    from xdsl.transforms.dead_code_elimination import dce

    module, region = build(spec)
    must = [o for b in _blocks(region) for o in _ops(b) if not effects_known_harmless(o)]
    nested_must = []
    before = str(module)
    dce(module)
    left = {id(o) for b in _blocks(region) for o in _ops(b)}
    for o in must:
        if id(o) not in left:
            return {"program": before, "after": str(module), "why": f"observable {o.name} was removed", "key": "C13/dce"}
    return None


_REC = {}


def rec_op_class():
    """A harness-local op with RecursiveMemoryEffect (its effects are those of the ops nested in it, at any depth) and no terminator requirement."""
    if "cls" not in _REC:
        from xdsl.irdl import IRDLOperation, irdl_op_definition, region_def, traits_def, var_operand_def, var_result_def
        from xdsl.traits import NoTerminator, RecursiveMemoryEffect

        @irdl_op_definition
        class C13RecOp(IRDLOperation):
            name = "test.c13_rec"
            ins = var_operand_def()
            outs = var_result_def()
            body = region_def()
            traits = traits_def(RecursiveMemoryEffect(), NoTerminator())

        _REC["cls"] = C13RecOp
    return _REC["cls"]


def alloc_op_class(which):
    """Harness-local ops whose only effect is an ALLOC: 'own' on their own first result (unobservable once the result is unused), 'ext' on their first operand
    (a value defined OUTSIDE the op: observable by whoever else holds that value)."""
    if which not in _REC:
        from xdsl.irdl import IRDLOperation, irdl_op_definition, traits_def, var_operand_def, var_result_def
        from xdsl.traits import EffectInstance, MemoryEffect, MemoryEffectKind

        class AllocOwn(MemoryEffect):
            @classmethod
            def get_effects(cls, op):
                return {EffectInstance(MemoryEffectKind.ALLOC, op.results[0])}

        class AllocExt(MemoryEffect):
            @classmethod
            def get_effects(cls, op):
                return {EffectInstance(MemoryEffectKind.ALLOC, op.operands[0])}

        @irdl_op_definition
        class C13AllocOwn(IRDLOperation):
            name = "test.c13_alloc_own"
            ins = var_operand_def()
            outs = var_result_def()
            traits = traits_def(AllocOwn())

        @irdl_op_definition
        class C13AllocExt(IRDLOperation):
            name = "test.c13_alloc_ext"
            ins = var_operand_def()
            outs = var_result_def()
            traits = traits_def(AllocExt())

        _REC["own"], _REC["ext"] = C13AllocOwn, C13AllocExt
    return _REC[which]


@rechecked
def check_recursive_effects(shape):
    """
    shape = nested tuple: a leaf kind ("pure"/"read"/"write"/"unknown") or ("rec", [children]).  The top-level op has unused results; the oracle says it is
    removable exactly when NO op nested at ANY depth has an unknown or writing effect.  Both dce entry points must agree, at every depth.
    """
    from xdsl.dialects.builtin import ModuleOp, i32
    from xdsl.ir import Block, Region
    from xdsl.transforms.dead_code_elimination import dce, is_trivially_dead, region_dce

    def mk_shape(sh):
        if sh == "alloc_own":
            return alloc_op_class("own").create(result_types=[i32])
        if sh == "alloc_ext":
            return alloc_op_class("ext").create(operands=[outer[0].results[0]], result_types=[i32])
        if isinstance(sh, str):
            return mk(sh, [], 1)
        kids = [mk_shape(c) for c in sh[1]]
        return rec_op_class().create(result_types=[i32], regions=[Region([Block(kids)])])

    def harmless(sh):
        if isinstance(sh, str):
            # an allocation of a value defined by the op itself (or inside the removed op) cannot be observed; one of a value defined outside can
            return sh in ("pure", "read", "alloc_own")
        return all(harmless(c) for c in sh[1])

    def _t(sh):
        return sh if isinstance(sh, str) else ("rec", [_t(c) for c in sh[1]])

    shape = _t(shape) if not isinstance(shape, str) else shape
    exp_removed = harmless(shape)
    for entry in ("is_trivially_dead", "region_dce", "dce"):
        outer = [mk("unknown", [], 1)]
        top = mk_shape(shape)
        keep = mk("write", [outer[0].results[0]], 0)
        module = ModuleOp([outer[0], top, keep])
        before = str(module)
        if entry == "is_trivially_dead":
            got_removed = is_trivially_dead(top)
        else:
            (region_dce(module.body) if entry == "region_dce" else dce(module))
            got_removed = top.parent is None
        if got_removed != exp_removed:
            return {"entry": entry, "program": before, "after": str(module), "why": f"an unused op with recursive effects was {'removed' if got_removed else 'kept'}; "
                    f"its nested ops {'all have' if exp_removed else 'do NOT all have'} known harmless effects", "key": "C13/recursive-effects"}
    return None


_SUB = {}


def subclass_trait_ops():
    """Harness-local ops whose symbol / terminator trait is a SUBCLASS of the base trait (as builtin.module's OptionalSymbolOpInterface is) and that are otherwise
    pure with unused results: the statement's 'not a terminator, not a symbol' must hold for them too."""
    if not _SUB:
        from xdsl.dialects.builtin import StringAttr
        from xdsl.irdl import IRDLOperation, irdl_op_definition, opt_prop_def, prop_def, traits_def, var_result_def
        from xdsl.traits import IsTerminator, OptionalSymbolOpInterface, Pure, SymbolOpInterface

        class MyTerminator(IsTerminator):
            pass

        @irdl_op_definition
        class PureOptSym(IRDLOperation):
            name = "test.c13_pure_optsym"
            sym_name = opt_prop_def(StringAttr)
            outs = var_result_def()
            traits = traits_def(Pure(), OptionalSymbolOpInterface())

        @irdl_op_definition
        class PureSym(IRDLOperation):
            name = "test.c13_pure_sym"
            sym_name = prop_def(StringAttr)
            outs = var_result_def()
            traits = traits_def(Pure(), SymbolOpInterface())

        @irdl_op_definition
        class PureTerm(IRDLOperation):
            name = "test.c13_pure_term"
            outs = var_result_def()
            traits = traits_def(Pure(), MyTerminator())

        _SUB.update(optsym=PureOptSym, sym=PureSym, term=PureTerm)
    return _SUB


@rechecked
def check_trait_subclasses(which):
    from xdsl.dialects.builtin import ModuleOp, StringAttr, i32
    from xdsl.ir import Block, Region
    from xdsl.transforms.dead_code_elimination import dce, is_trivially_dead, region_dce, would_be_trivially_dead

    cls = subclass_trait_ops()[which]
    for entry in ("would_be_trivially_dead", "is_trivially_dead", "region_dce", "dce"):
        props = {"sym_name": StringAttr("s")} if which != "term" else {}
        op = cls.create(result_types=[i32], properties=props)
        if which == "term":
            module = ModuleOp([mk("write", [], 0, [Region([Block([op])])])])
        else:
            module = ModuleOp([op, mk("write", [], 0)])
        before = str(module)
        if entry in ("would_be_trivially_dead", "is_trivially_dead"):
            removed = (would_be_trivially_dead if entry == "would_be_trivially_dead" else is_trivially_dead)(op)
        else:
            (region_dce(module.body) if entry == "region_dce" else dce(module))
            removed = op.parent is None
        if removed:
            kindname = {"optsym": "a symbol (trait OptionalSymbolOpInterface, a subclass of SymbolOpInterface)", "sym": "a symbol", "term": "a terminator (trait subclassing IsTerminator)"}[which]
            return {"entry": entry, "program": before, "after": str(module), "why": f"a pure op with unused results that is {kindname} was treated as removable", "key": "C13/trait-subclasses"}
    return None


def explore_recursive(tier, seed):
    leaves = ["pure", "read", "write", "unknown"]
    shapes = []
    for a in leaves:
        shapes.append(("rec", [a]))
        for b in leaves:
            shapes.append(("rec", [a, b]))
            shapes.append(("rec", [("rec", [a]), b]))
            shapes.append(("rec", [("rec", [a, b])]))
            shapes.append(("rec", [("rec", [("rec", [a])]), b]))
            if tier != "quick":
                for c in leaves:
                    shapes.append(("rec", [("rec", [("rec", [a, b]), c])]))
    shapes.append(("rec", []))
    for a in ("alloc_own", "alloc_ext"):
        shapes += [a, ("rec", [a]), ("rec", [("rec", [a])]), ("rec", ["pure", a]), ("rec", [a, "read"]), ("rec", [("rec", [a, "pure"]), "read"]), ("rec", [a, "write"])]
    shapes.append(("rec", ["alloc_own", "alloc_ext"]))
    fails = []
    for sh in shapes:
        f = check_recursive_effects(sh)
        if f:
            fails.append(f)
            break
    for which in ("optsym", "sym", "term"):
        f = check_trait_subclasses(which)
        if f:
            fails.append(f)
            break
    return {"cases": len(shapes) + 3, "failures": fails, "exhaustive": True,
            "bound": "ops with RecursiveMemoryEffect nested up to 3 levels over leaf ops with pure / read / write / unknown effects (all combinations of <= 2, thorough: 3 leaves): "
                     "is_trivially_dead, region_dce and the dce pattern remove the unused outer op exactly when every nested op is harmless; pure ops with unused results whose symbol / terminator trait is a SUBCLASS of the base trait are kept by all four entry points"}


def explore(tier, seed):
    rnd = random.Random(seed)
    n = 600 if tier == "quick" else 8000
    cases = 0
    fails = []
    seen = set()
    for _ in range(n):
        spec = gen(rnd)
        for entry in ("region_dce", "dce"):
            cases += 1
            f = check_region_dce(spec, entry)
            k = (f["key"], tuple(sorted((f.get("inputs") or {}).items()))) if f else None
            if f and k not in seen:
                seen.add(k)
                fails.append(f)
        cases += 1
        f = check_observable_kept(spec)
        if f and f["key"] not in seen:
            seen.add(f["key"])
            fails.append(f)
    return {"cases": cases, "failures": fails, "exhaustive": False,
            "bound": f"{n} seeded regions (<=4 blocks x <=3 ops from pure/read/write/unknown/symbol + terminators with <=2 successors, nested single-block "
                     "regions, dead cycles, unreachable blocks): region_dce vs an independent liveness/reachability oracle (exact remaining ops and blocks), "
                     "the dce pattern pass (only removable ops removed, none left, observable ops kept), IR invariants after each"}
