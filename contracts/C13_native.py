"""
Bounded stand-in for C13: generated CFG regions mixing pure, reading, writing, unknown, symbol and
terminator ops, dead cycles, unreachable blocks and nested regions; region_dce / dce / the trivial
dead removal of the greedy driver are run on the real code and compared with an independent
liveness oracle written from the statement.
"""

from __future__ import annotations

import itertools
import random

from contracts.common import rechecked
from contracts.ir_native import Broken, check_invariants

KINDS = ["pure", "read", "write", "unknown", "symbol"]


def mk(kind, operands, nres, regions=()):
    from xdsl.dialects import test
    from xdsl.dialects.builtin import i32

    cls = {"pure": test.TestPureOp, "read": test.TestReadOp, "write": test.TestWriteOp, "unknown": test.TestOp}.get(kind)
    if kind == "symbol":
        return test.TestSymbolOp.create(properties={"sym_name": __import__("xdsl.dialects.builtin", fromlist=["StringAttr"]).StringAttr("s")},
                                        operands=[], result_types=[])
    return cls.create(operands=list(operands), result_types=[i32] * nres, regions=list(regions))


def build(spec):
    """
    spec = {"blocks": [{"ops": [(kind, [operand refs], nres, nested)], "succ": [block idx]}], ...}
    operand ref = (block idx, op idx, result idx) resolved modulo availability; nested = None | sub-spec (single block, ops only)
    """
    from xdsl.dialects import test
    from xdsl.dialects.builtin import ModuleOp
    from xdsl.ir import Block, Region

    blocks = [Block() for _ in spec["blocks"]]
    made = {}
    for bi, bs in enumerate(spec["blocks"]):
        for oi, (kind, refs, nres, nested) in enumerate(bs["ops"]):
            regions = []
            if nested is not None:
                nb = Block()
                for (k2, refs2, nres2, _n) in nested:
                    nb.add_op(mk(k2, [], nres2))
                regions = [Region([nb])]
            o = mk(kind, [], nres, regions)
            made[(bi, oi)] = (o, refs)
            blocks[bi].add_op(o)
    allres = [(k, o.results) for k, (o, _) in made.items() if o.results]
    for (bi, oi), (o, refs) in made.items():
        if o.name == "test.op_with_symbol" or not allres:
            continue
        ops = []
        for r in refs:
            k, res = allres[r % len(allres)]
            ops.append(res[(r // 7) % len(res)])
        o.operands = ops
    for bi, bs in enumerate(spec["blocks"]):
        if bs["succ"] is not None:
            blocks[bi].add_op(test.TestTermOp.create(successors=[blocks[s % len(blocks)] for s in bs["succ"]]))
    top = test.TestOp.create(regions=[Region(blocks)])
    region = top.regions[0]
    # keep the input valid: an op in a reachable block must not use a value defined in an unreachable block
    reach = {id(b) for b in reachable(region)}
    for b in _blocks(region):
        if id(b) not in reach:
            continue
        for o in _ops(b):
            keep = [v for v in o._operands if id(v.op.parent) in reach]
            if len(keep) != len(o._operands):
                o.operands = keep
    return ModuleOp([top]), region


def gen(rnd):
    nb = rnd.choice([1, 2, 3, 4])
    blocks = []
    for b in range(nb):
        ops = []
        for _ in range(rnd.randrange(0, 4)):
            kind = rnd.choice(KINDS[:4]) if rnd.random() < 0.9 else "symbol"
            nested = None
            if rnd.random() < 0.15 and kind != "symbol":
                nested = [(rnd.choice(KINDS[:4]), [], rnd.randrange(0, 2), None) for _ in range(rnd.randrange(0, 3))]
            ops.append((kind, [rnd.randrange(0, 40) for _ in range(rnd.randrange(0, 3))], rnd.randrange(0, 3), nested))
        succ = [rnd.randrange(0, nb) for _ in range(rnd.randrange(0, 3))]
        blocks.append({"ops": ops, "succ": succ})
    return {"blocks": blocks}


# ------------------------------------------------------------------ oracle
def _ops(b):
    out, o = [], b._first_op
    while o is not None:
        out.append(o)
        o = o._next_op
    return out


def _blocks(r):
    out, b = [], r._first_block
    while b is not None:
        out.append(b)
        b = b._next_block
    return out


def effects_known_harmless(op):
    """From the statement: not a terminator, not a symbol, no possibly observable effect."""
    n = op.name
    if n in ("test.termop", "test.op_with_symbol"):
        return False
    if n in ("test.op", "test.op_with_memwrite"):
        return False
    if n in ("test.pureop", "test.op_with_memread"):
        return True
    raise KeyError(n)


def reachable(region):
    bl = _blocks(region)
    if not bl:
        return []
    seen, work = {id(bl[0])}, [bl[0]]
    out = [bl[0]]
    while work:
        b = work.pop()
        last = b._last_op
        if last is not None and last.name == "test.termop":
            for s in last._successors:
                if id(s) not in seen:
                    seen.add(id(s))
                    out.append(s)
                    work.append(s)
    return out


def oracle_live(region):
    """Least set of ops (in reachable blocks) that must stay: observable ops and (transitively) definers of their operands."""
    reach = reachable(region)
    ops = [o for b in reach for o in _ops(b)]
    opset = {id(o) for o in ops}
    live = {}
    work = []
    for o in ops:
        if not effects_known_harmless(o):
            live[id(o)] = o
            work.append(o)
    while work:
        o = work.pop()
        for v in o._operands:
            d = getattr(v, "op", None)
            if d is not None and id(d) in opset and id(d) not in live:
                live[id(d)] = d
                work.append(d)
    return reach, ops, live


@rechecked
def check_region_dce(spec, entry):
    from xdsl.transforms.dead_code_elimination import dce, region_dce

    module, region = build(spec)
    reach, ops, live = oracle_live(region)
    expected_blocks = [id(b) for b in _blocks(region) if any(b is r for r in reach)]
    expected_ops = {id(b): [id(o) for o in _ops(b) if id(o) in live] for b in reach}
    before = str(module)
    try:
        if entry == "region_dce":
            region_dce(region)
        else:
            dce(module)
    except Exception as e:  # noqa: BLE001
        return {"entry": entry, "program": before, "raised": repr(e), "key": f"C13/{entry}"}
    try:
        check_invariants([module])
    except Broken as e:
        return {"entry": entry, "program": before, "after": str(module), "broken IR": str(e), "key": f"C13/{entry}"}
    got_blocks = [id(b) for b in _blocks(region)]
    if entry == "region_dce":
        if got_blocks != expected_blocks:
            return {"entry": entry, "program": before, "after": str(module), "why": "set of remaining blocks differs from the reachable blocks",
                    "key": f"C13/{entry}"}
        for b in _blocks(region):
            got = [id(o) for o in _ops(b)]
            if got != expected_ops[id(b)]:
                kept_dead = [o.name for o in _ops(b) if id(o) not in live]
                return {"entry": entry, "program": before, "after": str(module), "removable ops left": kept_dead,
                        "why": "remaining ops differ from the live set of the oracle (an observable op was removed or a removable one kept)",
                        "key": f"C13/{entry}"}
    else:
        # the trivial-dead pattern: removes only harmless ops without (remaining) uses; never blocks; fixpoint: no trivially dead op remains
        if got_blocks != [id(b) for b in _blocks(region)] or len(got_blocks) != len(spec["blocks"]):
            return {"entry": entry, "program": before, "after": str(module), "why": "dce pattern removed a block", "key": f"C13/{entry}"}
        orig = {id(o): o for b in _blocks(region) for o in _ops(b)}
        for b in _blocks(region):
            for o in _ops(b):
                if effects_known_harmless(o) and all(r.first_use is None for r in o.results):
                    return {"entry": entry, "program": before, "after": str(module), "why": f"trivially dead {o.name} remains", "key": f"C13/{entry}"}
        # every observable op of the original program is still there
        _, ops0, _ = None, None, None
    # erased values must not be used by what remains
    for b in _blocks(region):
        for o in _ops(b):
            for v in o._operands:
                if type(v).__name__ == "ErasedSSAValue":
                    return {"entry": entry, "program": before, "after": str(module), "why": "a remaining op uses an erased value", "key": f"C13/{entry}"}
    return None


@rechecked
def check_observable_kept(spec):
    """dce (pattern): every op that is a terminator, a symbol or has possibly observable effects survives."""
    from xdsl.transforms.dead_code_elimination import dce

    module, region = build(spec)
    must = [o for b in _blocks(region) for o in _ops(b) if not effects_known_harmless(o)]
    nested_must = []
    before = str(module)
    dce(module)
    left = {id(o) for b in _blocks(region) for o in _ops(b)}
    for o in must:
        if id(o) not in left:
            return {"program": before, "after": str(module), "why": f"observable {o.name} was removed", "key": "C13/dce"}
    return None


def explore(tier, seed):
    rnd = random.Random(seed)
    n = 600 if tier == "quick" else 8000
    cases = 0
    fails = []
    seen = set()
    for _ in range(n):
        spec = gen(rnd)
        for entry in ("region_dce", "dce"):
            cases += 1
            f = check_region_dce(spec, entry)
            if f and f["key"] not in seen:
                seen.add(f["key"])
                fails.append(f)
        cases += 1
        f = check_observable_kept(spec)
        if f and f["key"] not in seen:
            seen.add(f["key"])
            fails.append(f)
    return {"cases": cases, "failures": fails, "exhaustive": False,
            "bound": f"{n} seeded regions (<=4 blocks x <=3 ops from pure/read/write/unknown/symbol + terminators with <=2 successors, nested single-block "
                     "regions, dead cycles, unreachable blocks): region_dce vs an independent liveness/reachability oracle (exact remaining ops and blocks), "
                     "the dce pattern pass (only removable ops removed, none left, observable ops kept), IR invariants after each"}
