"""
Bounded stand-in for C14: generated single-block func/arith programs over i1, i8, i32, i64, index and
f32/f64 with constants at boundary values; canonicalize, cse, constant-fold-interp and
test-constant-folding are applied (real passes) and the programs are evaluated before and after
with an independent reference evaluator of the MLIR semantics (bit patterns; IEEE-754), on
boundary and random inputs.  Inputs on which MLIR leaves a result undefined are skipped.
"""

from __future__ import annotations

import math
import random
import struct

from contracts.common import rechecked

INT_OPS = ["addi", "subi", "muli", "andi", "ori", "xori", "shli", "shrui", "shrsi", "divui", "divsi", "remui", "remsi", "floordivsi", "ceildivsi",
           "ceildivui", "minsi", "maxsi", "minui", "maxui"]
FLOAT_OPS = ["addf", "subf", "mulf", "divf"]
CLS = {"addi": "AddiOp", "subi": "SubiOp", "muli": "MuliOp", "andi": "AndIOp", "ori": "OrIOp", "xori": "XOrIOp", "shli": "ShLIOp", "shrui": "ShRUIOp",
       "shrsi": "ShRSIOp", "divui": "DivUIOp", "divsi": "DivSIOp", "remui": "RemUIOp", "remsi": "RemSIOp", "floordivsi": "FloorDivSIOp",
       "ceildivsi": "CeilDivSIOp", "ceildivui": "CeilDivUIOp", "minsi": "MinSIOp", "maxsi": "MaxSIOp", "minui": "MinUIOp", "maxui": "MaxUIOp",
       "addf": "AddfOp", "subf": "SubfOp", "mulf": "MulfOp", "divf": "DivfOp"}


class Poison(Exception):
    pass


def sgn(x, w):
    return x - (1 << w) if x >= (1 << (w - 1)) else x


def tdiv(a, b):
    q = abs(a) // abs(b)
    return q if (a >= 0) == (b >= 0) else -q


def ev_int(op, w, a, b):
    M = 1 << w
    sa, sb = sgn(a, w), sgn(b, w)
    if op == "addi":
        return (a + b) % M
    if op == "subi":
        return (a - b) % M
    if op == "muli":
        return (a * b) % M
    if op == "andi":
        return a & b
    if op == "ori":
        return a | b
    if op == "xori":
        return a ^ b
    if op in ("shli", "shrui", "shrsi"):
        if b >= w:
            raise Poison
        return {"shli": (a << b) % M, "shrui": a >> b, "shrsi": (sa >> b) % M}[op]
    if op in ("divui", "remui", "ceildivui"):
        if b == 0:
            raise Poison
        return {"divui": a // b, "remui": a % b, "ceildivui": -((-a) // b) if a else 0}[op] % M if op != "ceildivui" else ((a + b - 1) // b) % M
    if op in ("divsi", "remsi", "floordivsi", "ceildivsi"):
        if b == 0 or (sa == -(M >> 1) and sb == -1):
            raise Poison
        if op == "divsi":
            return tdiv(sa, sb) % M
        if op == "remsi":
            return (sa - tdiv(sa, sb) * sb) % M
        if op == "floordivsi":
            return (sa // sb) % M
        return (-((-sa) // sb)) % M
    if op == "minsi":
        return a if sa <= sb else b
    if op == "maxsi":
        return a if sa >= sb else b
    if op == "minui":
        return min(a, b)
    if op == "maxui":
        return max(a, b)
    raise KeyError(op)


def ev_cmpi(pred, w, a, b):
    sa, sb = sgn(a, w), sgn(b, w)
    return int([a == b, a != b, sa < sb, sa <= sb, sa > sb, sa >= sb, a < b, a <= b, a > b, a >= b][pred])


def f32r(x):
    try:
        return struct.unpack("<f", struct.pack("<f", x))[0]
    except OverflowError:
        return math.copysign(math.inf, x)


def ev_float(op, ty, x, y):
    try:
        if op == "addf":
            r = x + y
        elif op == "subf":
            r = x - y
        elif op == "mulf":
            r = x * y
        else:
            if y == 0:
                if x != x or x == 0:
                    r = math.nan
                else:
                    r = math.copysign(math.inf, x) * math.copysign(1.0, y)
            else:
                r = x / y
    except OverflowError:
        r = math.inf
    return f32r(r) if ty == "f32" else r


def fbits(x):
    if x != x:
        return "nan"
    return struct.pack("<d", x)


WIDTH = {"i1": 1, "i8": 8, "i32": 32, "i64": 64, "index": 64}


def gen(rnd):
    ty = rnd.choice(["i1", "i8", "i8", "i32", "i64", "index", "f32", "f64"])
    nargs = rnd.randrange(0, 3)
    ops = []
    isf = ty.startswith("f")
    w = WIDTH.get(ty)
    for _ in range(rnd.randrange(1, 7)):
        k = rnd.random()
        if k < 0.3:
            if isf:
                v = rnd.choice([0.0, -0.0, 1.0, -1.0, 0.5, math.inf, -math.inf, math.nan, 1.5, 3.0, 1e30, -2.0])
            else:
                M = 1 << w
                v = rnd.choice([0, 1, M - 1, M >> 1, (M >> 1) - 1, 2, 3, M - 2, 7, w, w - 1]) % M
            ops.append(("const", v))
        elif isf:
            ops.append((rnd.choice(FLOAT_OPS), rnd.randrange(0, 10), rnd.randrange(0, 10)))
        elif k < 0.4:
            ops.append(("cmpi", rnd.randrange(0, 10), rnd.randrange(0, 10), rnd.randrange(0, 10)))
        elif k < 0.5:
            ops.append(("select", rnd.randrange(0, 10), rnd.randrange(0, 10), rnd.randrange(0, 10)))
        else:
            ops.append((rnd.choice(INT_OPS), rnd.randrange(0, 10), rnd.randrange(0, 10)))
    return {"ty": ty, "nargs": nargs, "ops": ops, "ret": [rnd.randrange(0, 10) for _ in range(rnd.randrange(1, 3))]}


def build(spec):
    from xdsl.dialects import arith, func
    from xdsl.dialects.builtin import FloatAttr, IndexType, IntegerAttr, IntegerType, ModuleOp, f32, f64, i1
    from xdsl.ir import Block, Region

    ty = spec["ty"]
    T = {"i1": i1, "i8": IntegerType(8), "i32": IntegerType(32), "i64": IntegerType(64), "index": IndexType(), "f32": f32, "f64": f64}[ty]
    blk = Block(arg_types=[T] * spec["nargs"])
    vals = list(blk.args)  # values of the main type
    bools = []
    ops = []
    for o in spec["ops"]:
        if o[0] == "const":
            if ty.startswith("f"):
                c = arith.ConstantOp(FloatAttr(o[1], T))
            else:
                c = arith.ConstantOp(IntegerAttr(o[1], T, truncate_bits=True))
            ops.append(c)
            vals.append(c.result)
            continue
        if not vals:
            continue
        if o[0] == "cmpi":
            c = arith.CmpiOp(vals[o[2] % len(vals)], vals[o[3] % len(vals)], o[1])
            ops.append(c)
            bools.append(c.result)
            if ty == "i1":
                vals.append(c.result)
        elif o[0] == "select":
            if not bools and ty != "i1":
                continue
            cond = (bools or vals)[o[1] % len(bools or vals)]
            c = arith.SelectOp(cond, vals[o[2] % len(vals)], vals[o[3] % len(vals)])
            ops.append(c)
            vals.append(c.result)
        else:
            c = getattr(arith, CLS[o[0]])(vals[o[1] % len(vals)], vals[o[2] % len(vals)])
            ops.append(c)
            vals.append(c.result)
    if not vals:
        return None
    rets = [vals[i % len(vals)] for i in spec["ret"]]
    ops.append(func.ReturnOp(*rets))
    blk.add_ops(ops)
    f = func.FuncOp("f", ([T] * spec["nargs"], [r.type for r in rets]), Region(blk))
    return ModuleOp([f])


def evaluate(module, args):
    """Reference evaluation of the (possibly rewritten) program; returns list of comparable results or raises Poison."""
    from xdsl.dialects.builtin import FloatAttr, IndexType, IntegerAttr, IntegerType

    f = module.body.block.first_op
    env = {}
    for a, v in zip(f.body.block.args, args):
        env[id(a)] = v

    def width(t):
        return 64 if isinstance(t, IndexType) else t.width.data

    for o in f.body.block.ops:
        n = o.name
        if n == "arith.constant":
            a = o.value
            if isinstance(a, FloatAttr):
                env[id(o.result)] = a.value.data
            else:
                env[id(o.result)] = a.value.data % (1 << width(o.result.type))
        elif n == "func.return":
            out = []
            for v in o.operands:
                x = env[id(v)]
                out.append(fbits(x) if isinstance(x, float) else x)
            return out
        elif n == "arith.cmpi":
            env[id(o.result)] = ev_cmpi(o.predicate.value.data, width(o.lhs.type), env[id(o.lhs)], env[id(o.rhs)])
        elif n == "arith.select":
            env[id(o.result)] = env[id(o.lhs)] if env[id(o.cond)] else env[id(o.rhs)]
        elif n.startswith("arith.") and n[6:] in FLOAT_OPS:
            t = "f32" if o.result.type.bitwidth == 32 else "f64"
            env[id(o.result)] = ev_float(n[6:], t, env[id(o.lhs)], env[id(o.rhs)])
        elif n.startswith("arith.") and n[6:] in INT_OPS:
            env[id(o.result)] = ev_int(n[6:], width(o.result.type), env[id(o.lhs)], env[id(o.rhs)])
        else:
            raise KeyError(n)
    raise KeyError("no return")


def inputs_for(spec, rnd):
    ty = spec["ty"]
    if ty.startswith("f"):
        base = [0.0, -0.0, 1.0, -1.5, math.inf, -math.inf, math.nan, 3.0, 1e-30]
        if ty == "f32":
            base = [f32r(x) for x in base]
    else:
        M = 1 << WIDTH[ty]
        base = sorted({x % M for x in (0, 1, 2, M - 1, M >> 1, (M >> 1) - 1, M - 2, 3, 5)})
    out = []
    for _ in range(12):
        out.append([rnd.choice(base) for _ in range(spec["nargs"])])
    return out if spec["nargs"] else [[]]


PASSES = ["canonicalize", "cse", "constant-fold-interp", "test-constant-folding", "test-specialised-constant-folding", "canonicalize,cse"]


@rechecked
def check_program(spec, pipeline, seed):
    from xdsl.context import Context
    from xdsl.dialects import arith, builtin, func
    from xdsl.passes import PassPipeline
    from xdsl.transforms import get_all_passes
    from xdsl.utils.exceptions import PassFailedException

    spec = dict(spec, ops=[tuple(o) for o in spec["ops"]])
    m = build(spec)
    if m is None:
        return None
    try:
        m.verify()
    except Exception:
        return None
    before = str(m)
    ref = m.clone()
    ctx = Context()
    for d in (builtin.Builtin, arith.Arith, func.Func):
        ctx.load_dialect(d)
    allp = get_all_passes()
    try:
        for name in pipeline.split(","):
            allp[name]()().apply(ctx, m)
    except Exception as e:  # noqa: BLE001
        return {"pipeline": pipeline, "program": before, "raised": repr(e)[:300], "why": "the pass failed instead of leaving the operation in place",
                "key": f"C14/{pipeline}/raises"}
    try:
        m.verify()
    except Exception as e:  # noqa: BLE001
        return {"pipeline": pipeline, "program": before, "after": str(m), "why": "result does not verify: " + repr(e)[:200], "key": f"C14/{pipeline}/verify"}
    rnd = random.Random(seed)
    for args in inputs_for(spec, rnd):
        try:
            exp = evaluate(ref, args)
        except Poison:
            continue
        try:
            got = evaluate(m, args)
        except Poison:
            return {"pipeline": pipeline, "program": before, "after": str(m), "arguments": repr(args), "why": "rewritten program is undefined on an input where the original is defined",
                    "key": f"C14/{pipeline}/poison", "inputs": {}}
        if got != exp:
            unsigned_cmpi = any(o[0] == "cmpi" and o[1] >= 6 for o in spec["ops"])
            return {"pipeline": pipeline, "program": before, "after": str(m), "arguments": repr(args), "returned": repr(got), "expected": repr(exp),
                    "inputs": {"program_has_an_unsigned_cmpi": unsigned_cmpi}, "key": f"C14/{pipeline}/results"}
    return None


def directed(tier):
    """Every binary op on every ordered pair of boundary constants (both operands constant: the folders' home ground), per type."""
    out = []
    fconst = [0.0, -0.0, 1.0, -1.5, math.inf, -math.inf, math.nan, 1e30]
    for ty in (["i1", "i8", "i64", "f64", "f32"] if tier == "quick" else ["i1", "i8", "i32", "i64", "index", "f32", "f64"]):
        if ty.startswith("f"):
            consts, kinds = fconst, [(k,) for k in FLOAT_OPS]
        else:
            M = 1 << WIDTH[ty]
            consts = sorted({x % M for x in (0, 1, M - 1, M >> 1, 3, WIDTH[ty])})
            kinds = [(k,) for k in INT_OPS] + [("cmpi", p) for p in range(10)]
        for k in kinds:
            ops = [("const", c) for c in consts]
            ret = []
            for i in range(len(consts)):
                for j in range(len(consts)):
                    ops.append(k + (i, j))
                    if k[0] != "cmpi" or ty == "i1":
                        ret.append(len(consts) + len(ret))
            if k[0] == "cmpi" and ty != "i1":
                # results are i1: return them through selects on the main type
                base = len(ops)
                for q in range(len(consts) ** 2):
                    ops.append(("select", q, 1, 0))
                    ret.append(len(consts) + q)
            out.append({"ty": ty, "nargs": 0, "ops": ops, "ret": ret})
        # one constant and one NON-constant operand, in both orders (unit / zero / absorbing-element folds on either side), and x op x
        if not ty.startswith("f"):
            for k in [(k,) for k in INT_OPS]:
                ops = [("const", c) for c in consts]
                n0 = 1 + len(consts)  # value 0 is the block argument, 1.. are the constants
                for i in range(len(consts)):
                    ops.append(k + (1 + i, 0))
                    ops.append(k + (0, 1 + i))
                ops.append(k + (0, 0))
                out.append({"ty": ty, "nargs": 1, "ops": ops, "ret": list(range(n0, n0 + 2 * len(consts) + 1))})
    return out


def explore(tier, seed):
    rnd = random.Random(seed)
    n = 250 if tier == "quick" else 4000
    cases = 0
    fails = []
    seen = set()
    for spec in directed(tier) + [gen(rnd) for _ in range(n)]:
        for p in PASSES:
            cases += 1
            f = check_program(spec, p, seed)
            k = (f["key"], tuple(sorted((f.get("inputs") or {}).items()))) if f else None
            if f and k not in seen:
                seen.add(k)
                fails.append(f)
    for op1 in ("add", "mul"):
        for op2 in ("add", "mul"):
            for flag in ("none", "reassoc", "fast"):
                for c1_left in (False, True):
                    for c2_left in (False, True):
                        cases += 1
                        f = check_float_chain(op1, op2, 2.0, 4.0, flag, c1_left, c2_left)
                        if f and "C14/float-chain" not in seen:
                            seen.add("C14/float-chain")
                            fails.append(dict(f, key="C14/float-chain", inputs={}))
    for pred in range(16):
        cases += 1
        f = check_select_cmpf(pred)
        if f and "C14/select-cmpf" not in seen:
            seen.add("C14/select-cmpf")
            fails.append(dict(f, key="C14/select-cmpf", inputs={}))
    return {"cases": cases, "failures": fails, "exhaustive": False,
            "bound": f"two-op float chains (x op1 c1) op2 c2 over addf/mulf x 3 fast-math settings x constant positions with exactly representable values; select-over-cmpf for all 16 predicates x 4 subsets of (nnan, nsz) x 64 operand pairs incl. NaN/inf/signed zeros; directed families (every int/float binary op and cmpi predicate on every ordered pair of boundary constants per type; every int binary op with one boundary constant and one function argument in both operand orders, and x op x) + {n} seeded single-block programs (<= 6 arith ops of 20 integer kinds, cmpi, select, 4 float kinds; types i1/i8/i32/i64/index/f32/f64; boundary "
                     f"constants) x pipelines {PASSES}; evaluated before/after on 12 boundary input vectors with an independent reference evaluator"}


# ------------------------------------------------------------------ replay helpers for the deductive kernels
@rechecked
def check_fold(opname, w, a, b):
    """py_operation of the real class vs the reference semantics on one input."""
    from xdsl.dialects import arith

    cls = next(c for c in vars(arith).values() if isinstance(c, type) and getattr(c, "name", None) == opname)
    r = cls.py_operation(a, b)
    if r is None:
        return None
    M = 1 << w
    try:
        exp = ev_int(opname.split(".")[1], w, a % M, b % M)
    except Poison:
        return None
    if r % M != exp:
        return {"class": cls.__name__, "width": w, "lhs": a, "rhs": b, "py_operation": r, "expected bits": exp}
    return None


@rechecked
def check_right_element(opname, which, w, c, x):
    from xdsl.dialects import arith
    from xdsl.dialects.builtin import IntegerAttr, IntegerType

    cls = next(k for k in vars(arith).values() if isinstance(k, type) and getattr(k, "name", None) == opname)
    attr = IntegerAttr(c, IntegerType(w))
    got = getattr(cls, "is_right_" + which)(attr)
    if not got:
        return None
    M = 1 << w
    try:
        val = ev_int(opname.split(".")[1], w, x % M, c % M)
    except Poison:
        return None
    target = x % M if which == "unit" else c % M
    if val != target:
        return {"class": cls.__name__, "width": w, "constant": c, "operand bits": x, f"is_right_{which}": True, "x op c": val, "expected": target}
    return None


@rechecked
def check_fold_method(opname, w, lc, rc, a, b):
    """The real K.fold() on a real op whose operands are constants (lc/rc) or block arguments; result vs the reference semantics."""
    from xdsl.dialects import arith
    from xdsl.dialects.builtin import IntegerAttr, IntegerType
    from xdsl.ir import Block, SSAValue

    cls = next(k for k in vars(arith).values() if isinstance(k, type) and getattr(k, "name", None) == opname)
    t = IntegerType(w)
    blk = Block(arg_types=[t, t])
    M = 1 << w
    ops = []
    vals = []
    for is_const, v, arg in ((lc, a, blk.args[0]), (rc, b, blk.args[1])):
        if is_const:
            c = arith.ConstantOp(IntegerAttr(v, t, truncate_bits=True))
            ops.append(c)
            vals.append(c.result)
        else:
            vals.append(arg)
    op = cls(vals[0], vals[1])
    blk.add_ops(ops + [op])
    r = op.fold()
    if r is None:
        return None
    try:
        exp = ev_int(opname.split(".")[1], w, a % M, b % M)
    except Poison:
        return None
    got = r[0]
    if isinstance(got, SSAValue):
        which = "lhs" if got is vals[0] else "rhs"
        den = (a if which == "lhs" else b) % M
        if den != exp:
            return {"class": cls.__name__, "width": w, "lhs": a, "rhs": b, "lhs constant": lc, "rhs constant": rc,
                    "fold returned": f"the {which} operand (= {den})", "MLIR result bits": exp}
        return None
    if got.value.data % M != exp:
        return {"class": cls.__name__, "width": w, "lhs": a, "rhs": b, "fold returned constant": got.value.data, "MLIR result bits": exp}
    return None


def _denote(v, env, w):
    """Bit pattern denoted by an SSA value of a tiny arith program (block arguments from env)."""
    from xdsl.dialects import arith
    from xdsl.ir import BlockArgument

    M = 1 << w
    if isinstance(v, BlockArgument):
        return env[v.index]
    o = v.owner
    if isinstance(o, arith.ConstantOp):
        return o.value.value.data % (1 << (o.result.type.width.data if hasattr(o.result.type, "width") else 64))
    if isinstance(o, arith.SelectOp):
        return _denote(o.lhs, env, w) if _denote(o.cond, env, 1) else _denote(o.rhs, env, w)
    ow = o.result.type.width.data
    return ev_int(o.name.split(".")[1], ow, _denote(o.lhs, env, ow), _denote(o.rhs, env, ow))


def _apply_once(module, pattern):
    from xdsl.pattern_rewriter import PatternRewriteWalker

    PatternRewriteWalker(pattern, apply_recursively=False).rewrite_module(module)


@rechecked
def check_int_pattern(pattern, opname, w, a, b):
    """One application of the real pattern on `K lhs, rhs` for every constant/argument combination; the user's operand must denote the same bits."""
    from xdsl.dialects import arith, test
    from xdsl.dialects.builtin import IntegerAttr, IntegerType, ModuleOp
    from xdsl.ir import Block, Region
    from xdsl.transforms.canonicalization_patterns import arith as cp

    cls = next(k for k in vars(arith).values() if isinstance(k, type) and getattr(k, "name", None) == opname)
    t = IntegerType(w)
    M = 1 << w
    a, b = a % M, b % M
    try:
        exp = ev_int(opname.split(".")[1], w, a, b)
    except Poison:
        return None
    for lc in (False, True):
        for rc in (False, True):
            blk = Block(arg_types=[t, t])
            vals, ops = [], []
            for is_const, v, arg in ((lc, a, blk.args[0]), (rc, b, blk.args[1])):
                if is_const:
                    c = arith.ConstantOp(IntegerAttr(v, t, truncate_bits=True))
                    ops.append(c)
                    vals.append(c.result)
                else:
                    vals.append(arg)
            op = cls(vals[0], vals[1])
            user = test.TestOp(operands=[op.result])
            blk.add_ops(ops + [op, user])
            holder = test.TestOp(regions=[Region(blk)])
            module = ModuleOp([holder])
            _apply_once(module, getattr(cp, pattern)())
            try:
                got = _denote(user.operands[0], {0: a, 1: b}, w)
            except Poison:
                got = "poison"
            if got != exp:
                return {"pattern": pattern, "class": cls.__name__, "width": w, "lhs": a, "rhs": b, "lhs constant": lc, "rhs constant": rc,
                        "value after the rewrite": got, "value before": exp}
    return None


@rechecked
def check_select_pattern(pattern, w, same_arms, m):
    """One application of the real Select* pattern; every constant/argument combination of the three operands."""
    import itertools

    from xdsl.dialects import arith, test
    from xdsl.dialects.builtin import IntegerAttr, IntegerType, ModuleOp
    from xdsl.ir import Block, Region
    from xdsl.transforms.canonicalization_patterns import arith as cp

    t, i1 = IntegerType(w), IntegerType(1)
    c_, x, y = m.get("cond_bits", 0) % 2, m.get("lhs_bits", 0) % (1 << w), m.get("rhs_bits", 0) % (1 << w)
    if same_arms:
        y = x
    exp = x if c_ else y
    for consts in itertools.product((False, True), repeat=3):
        blk = Block(arg_types=[i1, t, t])
        vals, ops = [], []
        for is_const, v, arg, ty in zip(consts, (c_, x, y), blk.args, (i1, t, t)):
            if is_const:
                k = arith.ConstantOp(IntegerAttr(v, ty, truncate_bits=True))
                ops.append(k)
                vals.append(k.result)
            else:
                vals.append(arg)
        if same_arms:
            vals[2] = vals[1]
        op = arith.SelectOp(vals[0], vals[1], vals[2])
        user = test.TestOp(operands=[op.result])
        blk.add_ops(ops + [op, user])
        module = ModuleOp([test.TestOp(regions=[Region(blk)])])
        _apply_once(module, getattr(cp, pattern)())
        got = _denote(user.operands[0], {0: c_, 1: x, 2: y}, w)
        if got != exp:
            return {"pattern": pattern, "width": w, "cond": c_, "lhs": x, "rhs": y, "constant operands": consts, "same arms": same_arms,
                    "value after the rewrite": got, "value before": exp}
    return None


@rechecked
def check_float_chain(op1, op2, c1, c2, flag, c1_left, c2_left):
    """
    `(x op1 c1) op2 c2` over f64 with addf / mulf and a fast-math flag set, canonicalized and evaluated by a reference evaluator on operands for which
    every intermediate result is exact (small integers and powers of two) - so even a licensed reassociation must give the SAME value.
    """
    from xdsl.context import Context
    from xdsl.dialects import arith, func
    from xdsl.dialects.builtin import Builtin, FloatAttr, ModuleOp, f64
    from xdsl.ir import Block, Region
    from xdsl.transforms.canonicalize import CanonicalizePass

    flags = {"none": [], "reassoc": [arith.FastMathFlag.REASSOC], "fast": list(arith.FastMathFlag)}[flag]
    fm = arith.FastMathFlagsAttr(flags)
    cls = {"add": arith.AddfOp, "mul": arith.MulfOp}
    blk = Block(arg_types=[f64])
    k1, k2 = arith.ConstantOp(FloatAttr(c1, f64)), arith.ConstantOp(FloatAttr(c2, f64))
    a = cls[op1](*((k1.result, blk.args[0]) if c1_left else (blk.args[0], k1.result)), fm)
    b = cls[op2](*((k2.result, a.result) if c2_left else (a.result, k2.result)), fm)
    blk.add_ops([k1, k2, a, b, func.ReturnOp(b.result)])
    module = ModuleOp([func.FuncOp("f", ((f64,), (f64,)), Region(blk))])
    before = str(module)
    ctx = Context()
    for d in (Builtin, arith.Arith, func.Func):
        ctx.load_dialect(d)
    CanonicalizePass().apply(ctx, module)

    def ev(v, x):
        from xdsl.ir import BlockArgument

        if isinstance(v, BlockArgument):
            return x
        o = v.owner
        if o.name == "arith.constant":
            return o.value.value.data
        l, r = ev(o.operands[0], x), ev(o.operands[1], x)
        return l + r if o.name == "arith.addf" else l * r

    f1 = {"add": lambda p, q: p + q, "mul": lambda p, q: p * q}
    for x in (1.0, 2.0, -3.0, 0.5, 0.0):
        exp = f1[op2](f1[op1](x, c1), c2)
        got = ev(blk.last_op.operands[0], x)
        if got != exp:
            return {"program": before, "after canonicalize": str(module), "x": x, "returned": got, "expected": exp, "fastmath": flag}
    return None


FLOAT_PROBES = [0.0, -0.0, 1.0, -1.0, 2.5, float("inf"), float("-inf"), float("nan")]


def _ref_cmpf(p, x, y):
    import math

    un = math.isnan(x) or math.isnan(y)
    base = {1: x == y, 2: x > y, 3: x >= y, 4: x < y, 5: x <= y, 6: x != y}
    if p == 0:
        return False
    if p == 15:
        return True
    if p == 7:
        return not un
    if p == 14:
        return un
    if 1 <= p <= 6:
        return (not un) and base[p]
    return un or base[p - 7]


def _ref_minmax(kind, x, y):
    import math

    if math.isnan(x) or math.isnan(y):
        return float("nan")
    if x == 0.0 and y == 0.0:
        neg = math.copysign(1, x) < 0, math.copysign(1, y) < 0
        if kind == "max":
            return -0.0 if all(neg) else 0.0
        return -0.0 if any(neg) else 0.0
    return max(x, y) if kind == "max" else min(x, y)


@rechecked
def check_select_cmpf(pred, a=None, b=None, nnan=None, nsz=None):
    """
    `select (cmpf pred, a, b), a, b` with every subset of {nnan, nsz} (or the given one) run through canonicalize; the result is evaluated by a reference
    evaluator on probe operands (or the given pair).  A NaN operand is excluded under nnan; zero results are compared up to sign under nsz.
    """
    import math

    from xdsl.context import Context
    from xdsl.dialects import arith, func
    from xdsl.dialects.builtin import Builtin, ModuleOp, f64
    from xdsl.ir import Block, Region
    from xdsl.transforms.canonicalize import CanonicalizePass

    subsets = [(bool(nnan), bool(nsz))] if nnan is not None else [(False, False), (True, False), (False, True), (True, True)]
    probes = [(a, b)] if a is not None else [(x, y) for x in FLOAT_PROBES for y in FLOAT_PROBES]
    for fn, fz in subsets:
        flags = [f for f, on in ((arith.FastMathFlag.NO_NANS, fn), (arith.FastMathFlag.NO_SIGNED_ZEROS, fz)) if on]
        blk = Block(arg_types=[f64, f64])
        cmp = arith.CmpfOp(blk.args[0], blk.args[1], pred, arith.FastMathFlagsAttr(flags))
        sel = arith.SelectOp(cmp.result, blk.args[0], blk.args[1])
        blk.add_ops([cmp, sel, func.ReturnOp(sel.result)])
        module = ModuleOp([func.FuncOp("f", ((f64, f64), (f64,)), Region(blk))])
        ctx = Context()
        ctx.load_dialect(Builtin)
        ctx.load_dialect(arith.Arith)
        ctx.load_dialect(func.Func)
        CanonicalizePass().apply(ctx, module)
        ret = blk.last_op.operands[0]
        kind = {"arith.maximumf": "max", "arith.minimumf": "min"}.get(ret.owner.name if hasattr(ret.owner, "name") else "", None)
        for x, y in probes:
            if fn and (math.isnan(x) or math.isnan(y)):
                continue  # poison under nnan
            before = x if _ref_cmpf(pred, x, y) else y
            if kind is None:
                if ret.owner.name != "arith.select":
                    return {"predicate": pred, "flags": [str(f) for f in flags], "why": f"unexpected rewrite to {ret.owner.name}"}
                continue
            after = _ref_minmax(kind, x, y)
            same = (math.isnan(before) and math.isnan(after)) or (before == after and (math.copysign(1, before) == math.copysign(1, after) or (fz and before == 0.0)))
            if not same:
                return {"predicate": pred, "flags": [f.value for f in flags], "operands": (x, y), "select returned": before, f"arith.{kind}imumf returns": after,
                        "program after canonicalize": str(module)}
    return None


@rechecked
def check_float_fold(op, x, y):
    from xdsl.dialects import arith
    from xdsl.dialects.builtin import FloatAttr, f64
    from xdsl.transforms.canonicalization_patterns.arith import _fold_const_operation

    r = _fold_const_operation(getattr(arith, op), FloatAttr(x, f64), FloatAttr(y, f64))
    if r is None:
        return {"op": op, "why": "not folded"}
    got = r.value.value.data
    exp = ev_float({"AddfOp": "addf", "SubfOp": "subf", "MulfOp": "mulf", "DivfOp": "divf"}[op], "f64", x, y)
    if fbits(got) != fbits(exp):
        return {"op": op, "x": repr(x), "y": repr(y), "folded": repr(got), "ieee754": repr(exp)}
    return None
